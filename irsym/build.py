"""compile libsodium units to one linked LLVM-IR module for irsym"""
import os
import shutil
import subprocess
import sys

HERE = os.path.dirname(os.path.abspath(__file__))
VERIF = os.path.dirname(HERE)
sys.path.insert(0, os.path.join(VERIF, "lib"))
sys.path.insert(0, os.path.join(VERIF, "tools"))
import vlib   # noqa: E402
import asm2c  # noqa: E402

CLANG = "clang-14"
OPT = ["-O1", "-fno-vectorize", "-fno-slp-vectorize", "-fno-unroll-loops", "-fno-builtin", "-w"]


class IRBuildError(Exception):
    pass


def build_module(workdir, units, undefs=(), extra_defs=(), opt=None, extra_srcs=()):
    """units: paths relative to src/libsodium; returns path of linked .ll"""
    os.makedirs(workdir, exist_ok=True)
    inc = ["-I" + os.path.join(vlib.SRC, "include", "sodium"), "-I" + os.path.join(vlib.SRC, "include"),
           "-I" + os.path.join(VERIF, "config"), "-I" + vlib.SRC]
    vh = os.path.join(vlib.SRC, "include", "sodium", "version.h")
    if not os.path.exists(vh):
        os.makedirs(os.path.join(workdir, "inc", "sodium"), exist_ok=True)
        shutil.copy(os.path.join(VERIF, "config", "version.h"), os.path.join(workdir, "inc", "sodium", "version.h"))
        shutil.copy(os.path.join(VERIF, "config", "version.h"), os.path.join(workdir, "inc", "version.h"))
        inc += ["-I" + os.path.join(workdir, "inc"), "-I" + os.path.join(workdir, "inc", "sodium")]
    lls = []
    srcs = [os.path.join(vlib.SRC, u) for u in units] + list(extra_srcs)
    for k, src in enumerate(srcs):
        base = os.path.join(workdir, "u%d" % k)
        cmd = [CLANG, "-E"] + vlib.repo_defs() + inc + vlib.mflags_for(src) + ["-I" + os.path.dirname(src)]
        cmd += ["-D" + d for d in extra_defs] + ["-U" + u for u in undefs] + [src, "-o", base + ".i"]
        r = subprocess.run(cmd, stdout=subprocess.PIPE, stderr=subprocess.STDOUT)
        if r.returncode != 0:
            raise IRBuildError("clang -E failed for %s: %s" % (src, r.stdout.decode(errors="replace")[-600:]))
        text = open(base + ".i", errors="replace").read()
        try:
            res, n = asm2c.rewrite(text, strict=False)
        except asm2c.Asm2CError as e:
            raise IRBuildError("asm2c: %s: %s" % (src, e))
        with open(base + ".a2c.i", "w") as f:
            f.write(res)
        cmd = [CLANG] + (opt or OPT) + vlib.mflags_for(src) + ["-S", "-emit-llvm", "-x", "cpp-output", base + ".a2c.i", "-o", base + ".ll"]
        r = subprocess.run(cmd, stdout=subprocess.PIPE, stderr=subprocess.STDOUT)
        if r.returncode != 0:
            raise IRBuildError("clang -emit-llvm failed for %s: %s" % (src, r.stdout.decode(errors="replace")[-600:]))
        lls.append(base + ".ll")
    out = os.path.join(workdir, "linked.ll")
    r = subprocess.run(["llvm-link-14", "-S"] + lls + ["-o", out], stdout=subprocess.PIPE, stderr=subprocess.STDOUT)
    if r.returncode != 0:
        raise IRBuildError("llvm-link failed: %s" % r.stdout.decode(errors="replace")[-600:])
    return out
