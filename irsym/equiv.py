"""irsym *equiv* mode: two implementations (SIMD back end vs reference unit)
are executed on the same symbolic inputs over one shared XOR-AND graph; output
bits that are the same literal are equal by construction; the rest is closed by
SAT sweeping: random simulation proposes equal internal nodes, each proposal is
proved on its cone by kissat (UNSAT) or refuted (the model becomes a new
simulation pattern), proved nodes are merged and the graph is rebuilt, so the
structure downstream collapses.  The verdict "all output bits in the same
class" only ever rests on structural identity or UNSAT answers."""
import os
import random
import subprocess
import tempfile
import time

from . import aig


class Stats(object):
    def __init__(self):
        self.sat_calls = 0
        self.unsat = 0
        self.sat = 0
        self.unknown = 0
        self.sat_time = 0.0
        self.rebuilds = 0
        self.merged = 0


def kissat(nvars, clauses, timeout, workdir):
    fd, path = tempfile.mkstemp(suffix=".cnf", dir=workdir)
    with os.fdopen(fd, "w") as f:
        f.write("p cnf %d %d\n" % (nvars, len(clauses)))
        for c in clauses:
            f.write(" ".join(map(str, c)) + " 0\n")
    try:
        r = subprocess.run(["kissat", "-q", "--time=%d" % max(1, int(timeout)), path], stdout=subprocess.PIPE,
                           stderr=subprocess.STDOUT, timeout=timeout + 10)
        out = r.stdout.decode(errors="replace")
    except subprocess.TimeoutExpired:
        out = ""
    finally:
        os.unlink(path)
    if "s UNSATISFIABLE" in out:
        return "unsat", None
    if "s SATISFIABLE" in out:
        model = {}
        for line in out.split("\n"):
            if line.startswith("v "):
                for tok in line[2:].split():
                    v = int(tok)
                    if v:
                        model[abs(v)] = v > 0
        return "sat", model
    return "unknown", None


def prove_equal(g, x, y, timeout, workdir, st, assume=()):
    """is literal x == literal y for all inputs?  returns ('unsat'|'sat'|'unknown', input assignment or None)"""
    if x == y:
        return "unsat", None
    # build miter on a scratch copy of the hash (do not pollute g with the xor node: fine either way)
    m = g.XOR(x, y)
    if m == 0:
        return "unsat", None
    if m == 1:
        return "sat", {}
    nv, cl, vm = aig.to_cnf(g, [m] + list(assume))
    st.sat_calls += 1
    t0 = time.time()
    res, model = kissat(nv, cl, timeout, workdir)
    st.sat_time += time.time() - t0
    if res == "unsat":
        st.unsat += 1
        return res, None
    if res == "sat":
        st.sat += 1
        assign = {}
        for n, v in vm.items():
            if g.kind[n] == 1:
                assign[n] = model.get(v, False)
        return res, assign
    st.unknown += 1
    return res, None


def rebuild(g, repl, roots):
    """new graph where node n is replaced by literal repl[n]; returns (new graph, mapped roots)"""
    ng = aig.Graph(g.affine, g.canon_sums)
    new = [None] * g.size()
    new[0] = 0
    for n in g.inputs:      # inputs first and in the same order
        new[n] = ng.new_input(g.names.get(n, "i%d" % n))

    def mp(l):
        return l if l <= 1 else new[l >> 1] ^ (l & 1)
    # only what the roots need (merged-away cones disappear)
    stack = [l >> 1 for vec in roots for l in vec if l > 1]
    while stack:
        n = stack[-1]
        if new[n] is not None:
            stack.pop()
            continue
        deps = [repl[n]] if n in repl else g.children(n)
        pend = [l >> 1 for l in deps if l > 1 and new[l >> 1] is None]
        if pend:
            stack.extend(pend)
            continue
        stack.pop()
        k = g.kind[n]
        if n in repl:
            new[n] = mp(repl[n])
        elif k == 2:
            new[n] = ng.AND(mp(g.a[n]), mp(g.b[n]))
        elif k == 3:
            new[n] = ng.XOR(mp(g.a[n]), mp(g.b[n]))
        elif k == 4:
            new[n] = ng.xor_many([mp(l) for l in g.children(n)])
        elif k == 5:
            ins, tt = g.lut[n]
            new[n] = ng.lut_bits([mp(l) for l in ins], [(tt >> x) & 1 for x in range(1 << len(ins))], 1)[0]
    return ng, [[mp(l) for l in vec] for vec in roots]


def _resplit(flat, shape):
    out, i = [], 0
    for v in shape:
        out.append(flat[i:i + len(v)])
        i += len(v)
    return out


def check_equal(outs_a, outs_b, workdir, budget_s=600, seed=1, log=None, assume=(), strategy="levels"):
    """outs_a / outs_b: lists of bit-literal lists over aig.G.  returns (verdict, info)
    verdict: 'equal' | 'different' (info['assignment'] = input name -> bool) | 'unknown'"""
    g = aig.G
    st = Stats()
    rnd = random.Random(seed)
    t_start = time.time()
    A = [list(v) for v in outs_a]
    B = [list(v) for v in outs_b]
    assume = [l for l in assume if l != 1]      # input constraints: output miters are decided under them
    extra_patterns = []
    cut_done = False
    lmax = 160
    rare_done = set()
    nwords = 2
    batch = 64
    for it in range(100000):
        diff = [(x, y) for va, vb in zip(A, B) for x, y in zip(va, vb) if x != y]
        if not diff:
            return "equal", dict(st.__dict__, iterations=it, nodes=g.size())
        if time.time() - t_start > budget_s:
            break
        if it in (0, 6) and len(aig.cone(g, [l for pr in diff for l in pr])) < 40000:
            # small cone (adder networks of a MAC finalisation ...): one direct miter over all differing output pairs is
            # often decided faster than refuting the many false internal candidates one by one
            ms = [g.XOR(x, y) for x, y in diff]
            if any(m == 1 for m in ms):
                return "different", dict(st.__dict__, assignment={})
            ms = [m for m in ms if m != 0]
            if ms:
                nv, cl, vm = aig.to_cnf(g, list(assume), any_of=ms)
                st.sat_calls += 1
                t1 = time.time()
                res, model = kissat(nv, cl, min(90 if it == 0 else 240, max(5, budget_s - (time.time() - t_start))), workdir)
                st.sat_time += time.time() - t1
                if res == "unsat":
                    st.unsat += 1
                    return "equal", dict(st.__dict__, iterations=it, nodes=g.size(), closed_by="direct output miter")
                if res == "sat":
                    st.sat += 1
                    return "different", dict(st.__dict__, assignment={g.names[k]: model.get(v, False) for k, v in vm.items() if g.kind[k] == 1})
                st.unknown += 1
        # cut-point attempt on the differing output pairs: what the two cones share becomes free variables, so a pair
        # that differs only in the association of its last few operations is closed without the (huge) common cone
        if it > 0 and len(diff) <= 64 and not cut_done:
            cut_done = True
            repl0 = {}
            for x, y in diff:
                if x <= 1 or y <= 1 or time.time() - t_start > budget_s:
                    continue
                shared = aig.cone(g, [x]) & aig.cone(g, [y])
                shared.discard(x >> 1)
                shared.discard(y >> 1)
                m = g.XOR(x, y)
                nv, cl, vm = aig.to_cnf(g, [m] + list(assume), stop=shared)
                st.sat_calls += 1
                t1 = time.time()
                res, model = kissat(nv, cl, 10, workdir)
                st.sat_time += time.time() - t1
                if res == "unsat":
                    st.unsat += 1
                    hi, lo = (x, y) if (x >> 1) > (y >> 1) else (y, x)
                    repl0[hi >> 1] = lo ^ (hi & 1)
            if repl0:
                st.merged += len(repl0)
                st.rebuilds += 1
                ng, (A2, B2, assume) = rebuild(g, repl0, [[l for v in A for l in v], [l for v in B for l in v], assume])
                A, B = _resplit(A2, A), _resplit(B2, B)
                aig.G = ng
                g = ng
                continue
        cut_done = False
        # counterexample patterns occupy the low bits of the simulation words
        val, mask = aig.simulate(g, nwords, rnd, extra_patterns[-(64 * nwords - 32):])
        if assume:
            # only patterns that satisfy the input constraints count; merges are then proved under the constraints
            okm = mask
            for al in assume:
                okm &= (val[al >> 1] ^ (mask if al & 1 else 0)) if al > 1 else (mask if al else 0)
            if okm != mask:
                val = [v & okm for v in val]
                mask = okm
        # a differing output pair with different signatures is a real difference candidate: check it first
        for x, y in diff:
            vx = val[x >> 1] ^ (mask if x & 1 else 0) if x > 1 else (mask if x else 0)
            vy = val[y >> 1] ^ (mask if y & 1 else 0) if y > 1 else (mask if y else 0)
            if vx != vy:
                res, assign = prove_equal(g, x, y, 60, workdir, st, assume)
                if res == "sat":
                    return "different", dict(st.__dict__, assignment={g.names[n]: v for n, v in assign.items()})
        # candidate classes among nodes in the cone of the differing outputs
        cn = aig.cone(g, [l for p in diff for l in p])
        classes = {}
        for n in sorted(cn):
            sig = val[n]
            key = min(sig, sig ^ mask)
            classes.setdefault(key, []).append(n)
        # depth of every node of the cone: shallow candidates are proved first, so that after the rebuild the deeper
        # ones are structurally identical instead of hard SAT problems
        level = {}
        for n in (aig.topo(g) if g.affine else sorted(cn)):
            if n in cn:
                lv = 0
                for l in g.children(n):
                    if l > 1:
                        lv = max(lv, level.get(l >> 1, 0) + 1)
                level[n] = lv
        cands = []
        for key, nodes in classes.items():
            if len(nodes) < 2 or key == 0:
                # key == 0: constant-looking under simulation (carry chains ...): almost always false candidates
                continue
            rep = nodes[0]
            for n in nodes[1:]:
                pol = 0 if val[n] == val[rep] else 1
                # small classes first (a genuine joint is typically a class of two: one node per implementation),
                # then nodes closest to the inputs
                cands.append((level[n], len(nodes), n, 2 * rep + pol))
        cands.sort()
        if cands and strategy == "levels":
            # depth schedule: everything up to depth lmax first; lmax doubles only when nothing shallower is left, so
            # the hard (deep) candidates are tried after the rebuilds have made most of them structurally identical
            while True:
                sel = [c for c in cands if c[0] <= lmax]
                if sel or lmax > cands[-1][0]:
                    break
                lmax *= 2
            if not sel:
                sel = cands
            cands = sel
        cands = [(n, r) for _, _, n, r in cands]
        if not cands:
            # nothing to merge: try the output miters directly
            ok_all = True
            for x, y in diff:
                res, assign = prove_equal(g, x, y, max(5, min(120, budget_s - (time.time() - t_start))), workdir, st, assume)
                if res == "sat":
                    return "different", dict(st.__dict__, assignment={g.names[n]: v for n, v in assign.items()})
                if res != "unsat":
                    ok_all = False
                    break
            if ok_all:
                return "equal", dict(st.__dict__, iterations=it, nodes=g.size(), closed_by="output miters")
            break
        repl = {}
        tried = 0
        # rare nodes (constant under simulation but for <= 1 pattern: carry chains, all-ones detectors ...) all share
        # one signature and would only be split one refutation at a time: ask the solver for an input that makes each of
        # the shallowest ones take its rare value (a new pattern), or learn that it is constant (merged with 0 / 1)
        rare = []
        for n in cn:
            sg = val[n]
            k0 = min(sg, sg ^ mask)
            if k0 & (k0 - 1) == 0 and g.kind[n] != 1:
                rare.append((level[n], n))
        rare.sort()
        nr = 0
        for _, n in rare:
            if nr >= 24 or time.time() - t_start > budget_s:
                break
            if (g.kind[n], g.a[n], g.b[n]) in rare_done:
                continue
            rare_done.add((g.kind[n], g.a[n], g.b[n]))
            nr += 1
            sg = val[n]
            mostly0 = bin(sg).count("1") <= 1
            lit = 2 * n if mostly0 else 2 * n + 1
            nv, cl, vm = aig.to_cnf(g, [lit])
            st.sat_calls += 1
            t1 = time.time()
            res, model = kissat(nv, cl, 5, workdir)
            st.sat_time += time.time() - t1
            if res == "sat":
                st.sat += 1
                extra_patterns.append({g.names[k]: model.get(v, False) for k, v in vm.items() if g.kind[k] == 1})
            elif res == "unsat":
                st.unsat += 1
                repl[n] = 0 if mostly0 else 1
        # batch proving: one SAT call asserts "some candidate pair of the chunk differs"; UNSAT proves the whole chunk;
        # SAT: the model names the refuted pairs (their miter variables are true), they are dropped, the model becomes
        # a simulation pattern, and the rest of the chunk is retried
        pos = 0
        chunks = 0
        t_iter = time.time()
        while pos < len(cands) and chunks < 64 and time.time() - t_start < budget_s and time.time() - t_iter < 120:
            chunk = cands[pos:pos + batch]
            pos += len(chunk)
            chunks += 1
            tried += len(chunk)
            for attempt in range(12):
                live = []
                for n, r in chunk:
                    m = g.XOR(2 * n, r)
                    if m == 0:
                        repl[n] = r
                    elif m != 1:
                        live.append((n, r, m))
                if not live:
                    break
                nv, cl, vm = aig.to_cnf(g, list(assume), any_of=[m for _, _, m in live])
                st.sat_calls += 1
                t1 = time.time()
                res, model = kissat(nv, cl, 15 if repl else 60, workdir)
                st.sat_time += time.time() - t1
                if res == "unsat":
                    st.unsat += 1
                    for n, r, m in live:
                        repl[n] = r
                    if attempt == 0:
                        batch = min(2048, batch * 2)
                    break
                if res != "sat":
                    st.unknown += 1
                    batch = max(4, batch // 4)
                    if repl:
                        pos = len(cands)    # deeper candidates got hard: merge what is proved first
                    break
                st.sat += 1
                extra_patterns.append({g.names[k]: model.get(v, False) for k, v in vm.items() if g.kind[k] == 1})
                keep = []
                for n, r, m in live:
                    mv = model.get(vm[m >> 1], False) ^ bool(m & 1)
                    if not mv:
                        keep.append((n, r))
                if len(keep) == len(live):      # cannot happen (the clause forces one miter true); guard against looping
                    break
                chunk = keep
                if attempt >= 3:
                    batch = max(8, batch // 2)
        proved = len(repl)
        if log:
            log("sweep iteration %d: %d differing output bits, %d candidates, %d tried, %d proved, %d nodes"
                % (it, len(diff), len(cands), tried, proved, g.size()))
        if proved:
            st.merged += proved
            st.rebuilds += 1
            ng, (A2, B2, assume) = rebuild(g, repl, [[l for v in A for l in v], [l for v in B for l in v], assume])
            # re-split
            def resplit(flat, shape):
                out, i = [], 0
                for v in shape:
                    out.append(flat[i:i + len(v)])
                    i += len(v)
                return out
            A, B = resplit(A2, A), resplit(B2, B)
            aig.G = ng
            g = ng
        elif tried == 0:
            break
        if not proved:
            lmax *= 2
        if nwords < 8:
            nwords += 1
    diff = [(x, y) for va, vb in zip(A, B) for x, y in zip(va, vb) if x != y]
    if not diff:
        return "equal", dict(st.__dict__, nodes=g.size())
    return "unknown", dict(st.__dict__, remaining=len(diff), nodes=g.size())
