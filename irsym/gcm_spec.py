"""AES-256-GCM per FIPS-197 and NIST SP 800-38D, written directly over irsym
bit literals (ints 0/1 or graph literals), independent of the code under test:
table S-box (FIPS-197 fig. 7, cross-checked at import against the algebraic
derivation in x86.py), textbook MixColumns, bit-by-bit GHASH multiplication
(SP 800-38D algorithm 1), GCTR with inc32, 96-bit IV.  Bytes are lists of 8
literals, LSB first."""
from . import aig, x86

SBOX_FIPS = bytes.fromhex(
    "637c777bf26b6fc53001672bfed7ab76ca82c97dfa5947f0add4a2af9ca472c0b7fd9326363ff7cc34a5e5f171d8311504c723c31896059a071280e2eb27b275"
    "09832c1a1b6e5aa0523bd6b329e32f8453d100ed20fcb15b6acbbe394a4c58cfd0efaafb434d338545f9027f503c9fa851a3408f929d38f5bcb6da2110fff3d2"
    "cd0c13ec5f974417c4a77e3d645d197360814fdc222a908846eeb814de5e0bdbe0323a0a4906245cc2d3ac629195e479e7c8376d8dd54ea96c56f4ea657aae08"
    "ba78252e1ca6b4c6e8dd741f4bbd8b8a703eb5664803f60e613557b986c11d9ee1f8981169d98e949b1e87e9ce5528df8ca1890dbfe6426841992d0fb054bb16")
assert list(SBOX_FIPS) == x86.SBOX, "S-box derivations disagree"


def cbyte(v):
    return [(v >> i) & 1 for i in range(8)]


def bxor(a, b):
    g = aig.G
    return [g.XOR(x, y) for x, y in zip(a, b)]


def sub(b):
    if all(l <= 1 for l in b):
        return cbyte(SBOX_FIPS[sum(l << i for i, l in enumerate(b))])
    return x86.sbox_bits(b)


def xtime(a):
    g = aig.G
    hi = a[7]
    sh = [0] + a[:7]
    return [g.XOR(s, hi if (0x1b >> i) & 1 else 0) for i, s in enumerate(sh)]


def key_expansion(key):
    """key: 32 bytes -> 15 round keys of 16 bytes (FIPS-197 5.2, Nk = 8)"""
    w = [key[4 * i:4 * i + 4] for i in range(8)]
    rcon = 1
    for i in range(8, 60):
        t = w[i - 1]
        if i % 8 == 0:
            t = [sub(b) for b in (t[1:] + t[:1])]
            t = [bxor(t[0], cbyte(rcon))] + t[1:]
            rcon = (rcon << 1) ^ (0x11b if rcon & 0x80 else 0)
        elif i % 8 == 4:
            t = [sub(b) for b in t]
        w.append([bxor(x, y) for x, y in zip(w[i - 8], t)])
    return [sum(w[4 * r:4 * r + 4], []) for r in range(15)]


def encrypt_block(rks, blk):
    """state s[r][c] = in[r + 4c]"""
    st = [bxor(x, y) for x, y in zip(blk, rks[0])]
    for rnd in range(1, 15):
        st = [sub(b) for b in st]
        st = [st[4 * ((c + r) % 4) + r] for c in range(4) for r in range(4)]
        if rnd != 14:
            ns = []
            for c in range(4):
                a = st[4 * c:4 * c + 4]
                for r in range(4):
                    two = xtime(a[r])
                    three = bxor(xtime(a[(r + 1) % 4]), a[(r + 1) % 4])
                    ns.append(bxor(bxor(two, three), bxor(a[(r + 2) % 4], a[(r + 3) % 4])))
            st = ns
        st = [bxor(x, y) for x, y in zip(st, rks[rnd])]
    return st


def to_bitstring(block):
    """16 bytes -> 128 literals in SP 800-38D bit-string order (bit 0 = MSB of byte 0)"""
    return [block[i // 8][7 - i % 8] for i in range(128)]


def from_bitstring(bs):
    return [[bs[8 * j + 7 - i] for i in range(8)] for j in range(16)]


def gf_mul(X, Y):
    """SP 800-38D algorithm 1: X . Y, bit strings of 128 literals"""
    g = aig.G
    terms = [[] for _ in range(128)]
    V = list(Y)
    for i in range(128):
        xi = X[i]
        if xi != 0:
            for j in range(128):
                t = g.AND(xi, V[j])
                if t:
                    terms[j].append(t)
        lsb = V[127]
        V = [0] + V[:127]
        for j in (0, 1, 2, 7):          # R = 11100001 || 0^120
            V[j] = g.XOR(V[j], lsb)
    return [g.xor_many(t) for t in terms]


def ghash(H, blocks):
    g = aig.G
    Y = [0] * 128
    for b in blocks:
        Y = gf_mul([g.XOR(x, y) for x, y in zip(Y, to_bitstring(b))], H)
    return Y


def pad16(bs):
    out = [bs[i:i + 16] for i in range(0, len(bs), 16)]
    if out and len(out[-1]) < 16:
        out[-1] = out[-1] + [cbyte(0)] * (16 - len(out[-1]))
    return out


def gcm_encrypt(key, iv, msg, ad):
    """key 32 / iv 12 / msg / ad: lists of bytes (8 literals each); returns (ciphertext bytes, tag bytes)"""
    rks = key_expansion(key)
    H = to_bitstring(encrypt_block(rks, [cbyte(0)] * 16))

    def ctr_block(n):
        return iv + [cbyte((n >> 24) & 0xff), cbyte((n >> 16) & 0xff), cbyte((n >> 8) & 0xff), cbyte(n & 0xff)]
    c = []
    for bi in range(0, len(msg), 16):
        ks = encrypt_block(rks, ctr_block(2 + bi // 16))
        c += [bxor(x, y) for x, y in zip(msg[bi:bi + 16], ks)]
    lens = [cbyte(((8 * len(ad)) >> (8 * (7 - i))) & 0xff) for i in range(8)] + [cbyte(((8 * len(c)) >> (8 * (7 - i))) & 0xff) for i in range(8)]
    S = from_bitstring(ghash(H, pad16(ad) + pad16(c) + [lens]))
    ek = encrypt_block(rks, ctr_block(1))
    return c, [bxor(x, y) for x, y in zip(S, ek)]
