"""irsym *limb* mode: word values are integer polynomials over the inputs with
an interval, for multi-precision arithmetic kernels (Poly1305, fe25519,
sc25519) where bit-level reasoning about the multiplications is out of reach.

A value LV(poly, lo, hi, w) denotes the mathematical integer poly(inputs) --
NOT reduced modulo 2^w -- together with the proof obligation lo <= poly <= hi
for all inputs in their declared ranges (interval arithmetic), or, when
`mod` is set, the machine word poly mod 2^w.  Every add / mul checks by
interval that the machine operation does not wrap (a wrap that the source
does not intend is reported); `x >> k`, `x & (2^k - 1)` and truncations
introduce one fresh quotient variable q with x = 2^k q + rem, so the
polynomial stays exact.  At the end a congruence between polynomials is
decided by normal form: all coefficients of the difference vanish modulo the
prime (the fresh quotient variables must cancel), and z3 re-checks the
identity diff == P * quotient as integer polynomials.
"""
from . import terms as T


class LimbError(Exception):
    pass


class Ctx(object):
    def __init__(self):
        self.vars = {}          # name -> (lo, hi)
        self.nfresh = 0
        self.shr_cache = {}
        self.qsrc = {}          # poly key of a quotient variable -> (base value, shift): q = floor(base / 2^shift)
        self.wraps = []         # unintended wrap-arounds (findings)
        self.notes = []


C = Ctx()


def reset():
    global C
    C = Ctx()
    return C


def padd(a, b, sb=1):
    out = dict(a)
    for m, c in b.items():
        v = out.get(m, 0) + sb * c
        if v:
            out[m] = v
        else:
            out.pop(m, None)
    return out


def pmul(a, b):
    out = {}
    for m1, c1 in a.items():
        for m2, c2 in b.items():
            m = tuple(sorted(m1 + m2))
            v = out.get(m, 0) + c1 * c2
            if v:
                out[m] = v
            else:
                out.pop(m, None)
    return out


def pscale(a, k):
    return {m: c * k for m, c in a.items()} if k else {}


def pconst(v):
    return {(): v} if v else {}


class LV(T.Term):
    __slots__ = ("poly", "lo", "hi", "mod", "src", "vbits", "qinfo")

    def __init__(self, poly, lo, hi, w, mod=False, src=None, vbits=None, qinfo=None):
        self.qinfo = qinfo      # (poly key of B, k, mult): this value is mult * floor(B / 2^k)
        self.src = src          # (exact value x, k): this value is x mod 2^k
        self.vbits = vbits      # None, or n: only the low n bits of the machine word agree with poly (mod 2^n)
        self.op = "limb"
        self.args = ()
        self.w = w
        self.aux = None
        self.sec = True
        self.poly = poly
        self.lo = lo
        self.hi = hi
        self.mod = mod


T.LIMB = __import__("sys").modules[__name__]


CONCRETE = None     # replay mode: dict name -> value; var() then returns plain integers and the IR runs concretely


def var(name, w, lo=0, hi=None):
    hi = (1 << w) - 1 if hi is None else hi
    C.vars[name] = (lo, hi)
    if CONCRETE is not None:
        v = int(CONCRETE.get(name, lo))
        if not lo <= v <= hi:
            raise LimbError("replay value of %s outside its declared range" % name)
        return v
    return LV({(name,): 1}, lo, hi, w)


def lift(x, w):
    if isinstance(x, LV):
        return x
    if isinstance(x, T.Term):
        raise LimbError("mixing limb values with other symbolic values")
    return LV(pconst(x), x, x, w)


def fresh(lo, hi, tag):
    C.nfresh += 1
    name = "q%d_%s" % (C.nfresh, tag)
    C.vars[name] = (lo, hi)
    return name


def materialise(x, where=""):
    """exact value in [0, 2^w): reduces a possibly wrapped value with a quotient variable"""
    if x.vbits is not None:
        raise LimbError("bits above the valid part of a logically shifted negative value are used")
    if not x.mod and 0 <= x.lo and x.hi < (1 << x.w):
        return x
    C.wraps.append(("value used after a possible wrap-around at width %d" % x.w, x.lo, x.hi, where))
    return low_bits(x, x.w, "wrap")


def poly_interval(poly):
    lo = hi = 0
    for m, c in poly.items():
        mlo = mhi = 1
        for v in m:
            vlo, vhi = C.vars[v]
            cands = (mlo * vlo, mlo * vhi, mhi * vlo, mhi * vhi)
            mlo, mhi = min(cands), max(cands)
        if c >= 0:
            lo += c * mlo
            hi += c * mhi
        else:
            lo += c * mhi
            hi += c * mlo
    return lo, hi


def materialise_any(x):
    """exact value, signed or unsigned reading (ring operations do not care which)"""
    if not x.mod and -(1 << (x.w - 1)) <= x.lo and x.hi < (1 << x.w):
        return x
    return materialise(x)


def materialise_signed(x, where=""):
    if not x.mod and -(1 << (x.w - 1)) <= x.lo and x.hi < (1 << (x.w - 1)):
        return x
    C.wraps.append(("signed value used after a possible overflow at width %d" % x.w, x.lo, x.hi, where))
    raise LimbError("signed overflow possible: [%d, %d]" % (x.lo, x.hi))


def pkey(poly):
    return tuple(sorted(poly.items()))


def split(x, k):
    """x = 2^k * q + rem, 0 <= rem < 2^k, q = floor(x / 2^k) (any sign): returns (q LV, rem LV); x must be exact"""
    key = (pkey(x.poly), k)
    r = C.shr_cache.get(key)
    if r is None and k > 0:
        # x is itself floor(base / 2^j): floor(x / 2^k) = floor(base / 2^(j + k)) -- the quotient variable is shared
        qs = C.qsrc.get(pkey(x.poly))
        if qs is not None:
            base, j = qs
            q2, _ = split(base, j + k)
            rem = LV(padd(x.poly, pscale(q2.poly, 1 << k), -1), 0, (1 << k) - 1, x.w)
            r = (LV(q2.poly, x.lo >> k, x.hi >> k, x.w), rem)
            C.shr_cache[key] = r
            return r
    if r is None and k > 0:
        # x = q + A with q = floor(B / 2^j) a recorded quotient: x = floor((B + 2^j A) / 2^j), hence
        # floor(x / 2^k) = floor((B + 2^j A) / 2^(j + k)): nested floors are flattened to one floor of a polynomial in the
        # original inputs, which is the canonical owner of the quotient variable
        for m, c in x.poly.items():
            if c == 1 and len(m) == 1 and ((m, 1),) in C.qsrc:
                base, j = C.qsrc[((m, 1),)]
                rest = dict(x.poly)
                del rest[m]
                nb = padd(base.poly, pscale(rest, 1 << j))
                nlo, nhi = poly_interval(nb)
                q2, _ = split(LV(nb, nlo, nhi, x.w), j + k)
                rem = LV(padd(x.poly, pscale(q2.poly, 1 << k), -1), 0, (1 << k) - 1, x.w)
                r = (LV(q2.poly, x.lo >> k, x.hi >> k, x.w), rem)
                C.shr_cache[key] = r
                return r
    if r is None and k > 0:
        # x = Lw + 2^k * h (h: the monomials whose coefficient is divisible by 2^k): floor(x / 2^k) = floor(Lw / 2^k) + h,
        # same remainder -- the quotient variable belongs to Lw alone, so x and x - 2^21 * carry (a normalised and an
        # unnormalised limb) or a word and one of its bytes share it
        Hh = {m: c for m, c in x.poly.items() if c % (1 << k) == 0}
        if Hh and len(Hh) < len(x.poly):
            Lw = {m: c for m, c in x.poly.items() if c % (1 << k)}
            llo, lhi = poly_interval(Lw)
            ql, reml = split(LV(Lw, llo, lhi, x.w), k)
            h = {m: c >> k for m, c in Hh.items()}
            r = (LV(padd(ql.poly, h), x.lo >> k, x.hi >> k, x.w), LV(reml.poly, 0, (1 << k) - 1, x.w))
            C.shr_cache[key] = r
            return r
    if r is None:
        # x = 2^g * y exactly: floor(x / 2^k) = floor(y / 2^(k-g)), rem = 2^g * rem_y  ((2y) >> 51 and y >> 50 share q)
        g = trailing_zeros(x)
        if x.poly and g > 0:
            j = min(g, k)
            y = {m: c >> j for m, c in x.poly.items()}
            ylo, yhi = x.lo >> j, x.hi >> j
            if k == j:
                r = (LV(y, ylo, yhi, x.w), LV({}, 0, 0, x.w))
            else:
                yq, yrem = split(LV(y, ylo, yhi, x.w), k - j)
                r = (LV(yq.poly, yq.lo, yq.hi, x.w), LV(pscale(yrem.poly, 1 << j), yrem.lo << j, yrem.hi << j, x.w))
            C.shr_cache[key] = r
            return r
        # x = L + 2^j * y with 0 <= L < 2^j (j <= k): floor(x / 2^k) = floor(y / 2^(k-j)) -- the quotient variable of y is
        # shared, so that a value assembled from pieces of other words carries the same quotients as those words
        for j in range(k, 0, -1):
            L = {m: c for m, c in x.poly.items() if c % (1 << j)}
            if not L or len(L) == len(x.poly):
                continue
            llo, lhi = poly_interval(L)
            if llo < 0 or lhi >= (1 << j):
                continue
            y = {m: c >> j for m, c in x.poly.items() if c % (1 << j) == 0}
            ylo, yhi = poly_interval(y)
            yq, yrem = split(LV(y, ylo, yhi, x.w), k - j) if k > j else (LV(y, ylo, yhi, x.w), LV({}, 0, 0, x.w))
            rem = LV(padd(L, pscale(yrem.poly, 1 << j)), llo + (yrem.lo << j), lhi + (yrem.hi << j), x.w)
            r = (LV(yq.poly, yq.lo, yq.hi, x.w), rem)
            C.shr_cache[key] = r
            return r
        qlo, qhi = x.lo >> k, x.hi >> k
        if qlo == qhi:
            q = LV(pconst(qlo), qlo, qlo, x.w)
            rem = LV(padd(x.poly, pconst(qlo << k), -1), max(0, x.lo - (qlo << k)), min((1 << k) - 1, x.hi - (qlo << k)), x.w)
        else:
            name = fresh(qlo, qhi, "shr%d" % k)
            q = LV({(name,): 1}, qlo, qhi, x.w)
            C.qsrc[pkey(q.poly)] = (LV(x.poly, x.lo, x.hi, x.w), k)
            rem = LV(padd(x.poly, {(name,): 1 << k}, -1), 0, (1 << k) - 1, x.w)
        r = (q, rem)
        C.shr_cache[key] = r
    return r


def low_bits(x, k, tag="and"):
    """x mod 2^k (valid also for wrapped values as long as k <= w)"""
    if k > x.w:
        raise LimbError("mask wider than the value")
    if x.vbits is not None:
        if k > x.vbits:
            raise LimbError("bits above the valid part of a logically shifted negative value are used")
        x = LV(x.poly, x.lo, x.hi, x.w)         # the low k <= vbits bits are those of the polynomial
    if x.src is not None and k <= x.src[1]:
        # (y mod 2^a) mod 2^k == y mod 2^k: reuse y's quotient variable so that carries cancel
        r = low_bits(x.src[0], k, tag)
        return LV(r.poly, r.lo, r.hi, x.w, src=r.src)
    if not x.mod and 0 <= x.lo and x.hi < (1 << k):
        return LV(x.poly, x.lo, x.hi, x.w, src=x.src)
    base = LV(x.poly, x.lo, x.hi, x.w)      # mathematical value; mod 2^w then mod 2^k == mod 2^k
    q, rem = split(base, k)
    return LV(rem.poly, rem.lo, rem.hi, x.w, src=(base, k))


def tighten(poly, lo, hi):
    """x - 2^k * floor((x + c) / 2^k) is a remainder shifted by c: when the polynomial is `base - 2^k q + const` for a
    recorded quotient variable q = floor(base / 2^k), its range is [const, 2^k - 1 + const] whatever the ranges of the
    parts (interval arithmetic alone loses this correlation and blows up along carry chains)"""
    for m, c in poly.items():
        if len(m) == 1 and m[0].startswith("q") and c < 0:
            qs = C.qsrc.get(((m, 1),))
            if qs is None:
                continue
            base, k = qs
            if c != -(1 << k):
                continue
            delta = padd(padd(poly, base.poly, -1), {m: c}, -1)
            if not set(delta) - {()}:
                d = delta.get((), 0)
                return max(lo, d), min(hi, (1 << k) - 1 + d)
    return lo, hi


def _is_const(x):
    return not set(x.poly) - {()} and x.lo == x.hi


def binop(op, a, b, w):
    a, b = lift(a, w), lift(b, w)
    r = _binop(op, a, b, w)
    # bookkeeping: multiples of a recorded quotient
    if isinstance(r, LV) and r.qinfo is None:
        if op in ("lshr", "ashr") and _is_const(b) and not a.mod:
            r.qinfo = (pkey(a.poly), b.lo, 1)
        elif op == "mul":
            for x_, y_ in ((a, b), (b, a)):
                if x_.qinfo is not None and _is_const(y_):
                    c = y_.lo - (1 << w) if y_.lo >= (1 << (w - 1)) else y_.lo
                    r.qinfo = (x_.qinfo[0], x_.qinfo[1], x_.qinfo[2] * c)
        elif op == "shl" and a.qinfo is not None and _is_const(b):
            r.qinfo = (a.qinfo[0], a.qinfo[1], a.qinfo[2] << b.lo)
        elif op == "and" and _is_const(b) and not a.mod:
            m = b.lo
            t = (m & -m).bit_length() - 1 if m else 0
            if m and (m >> t) & ((m >> t) + 1) == 0 and t + (m >> t).bit_length() == w and t > 0:
                r.qinfo = (pkey(a.poly), t, 1 << t)
    return r


def _binop(op, a, b, w):
    if op in ("add", "sub"):
        sb = 1 if op == "add" else -1
        # a constant >= 2^(w-1) added to a value is the two's-complement form of a subtraction
        if not set(b.poly) - {()} and b.lo == b.hi and b.lo >= (1 << (w - 1)):
            b = LV(pconst(b.lo - (1 << w)), b.lo - (1 << w), b.lo - (1 << w), w)
        elif not set(a.poly) - {()} and a.lo == a.hi and a.lo >= (1 << (w - 1)) and op == "add":
            a = LV(pconst(a.lo - (1 << w)), a.lo - (1 << w), a.lo - (1 << w), w)
        lo = a.lo + (b.lo if sb == 1 else -b.hi)
        hi = a.hi + (b.hi if sb == 1 else -b.lo)
        # the machine result is congruent to the polynomial mod 2^w whatever happened before; it IS the polynomial
        # whenever the interval fits the word (an intermediate wrap that cancels -- f + (C - g) -- is harmless); a value
        # that may really have wrapped is reported when it is used (materialise)
        poly = padd(a.poly, b.poly, sb)
        lo, hi = tighten(poly, lo, hi)
        # x +- mult * floor((x + d) / 2^k) with mult = -+2^k: a remainder shifted by the constant d
        for x_, q_, sgn in ((a, b, sb), (b, a, 1 if op == "add" else None)):
            if sgn is None or q_.qinfo is None:
                continue
            bkey, k, mult = q_.qinfo
            if mult * sgn != -(1 << k):
                continue
            delta = padd(x_.poly, dict(bkey), -1)
            if not set(delta) - {()}:
                d = delta.get((), 0)
                lo, hi = max(lo, d), min(hi, (1 << k) - 1 + d)
        r = LV(poly, lo, hi, w, mod=(hi >= (1 << w) or lo < -(1 << (w - 1))))
        # X - (X mod 2^k) = 2^k * floor(X / 2^k)
        if op == "sub" and b.src is not None and b.src[0].poly == a.poly:
            r.qinfo = (pkey(a.poly), b.src[1], 1 << b.src[1])
        return r
    if op == "mul":
        # a constant >= 2^(w-1) is the two's-complement form of a negative factor (x * -19)
        for x_, y_ in ((a, b), (b, a)):
            if not set(y_.poly) - {()} and y_.lo == y_.hi and y_.lo >= (1 << (w - 1)) and not x_.mod:
                c = y_.lo - (1 << w)
                lo, hi = min(c * x_.lo, c * x_.hi), max(c * x_.lo, c * x_.hi)
                return LV(pscale(x_.poly, c), lo, hi, w, mod=(hi >= (1 << w) or lo < -(1 << (w - 1))))
        a, b = materialise_any(a), materialise_any(b)
        cands = [a.lo * b.lo, a.lo * b.hi, a.hi * b.lo, a.hi * b.hi]
        lo, hi = min(cands), max(cands)
        return LV(pmul(a.poly, b.poly), lo, hi, w, mod=(hi >= (1 << w) or lo < -(1 << (w - 1))))
    if op == "shl":
        if isinstance(b, LV) and len(b.poly) <= 1 and b.lo == b.hi:
            k = b.lo
            r = LV(pscale(a.poly, 1 << k), a.lo << k, a.hi << k, w, mod=a.mod)
            if r.hi >= (1 << w):
                r.mod = True            # intended: bits shifted out are dropped (callers mask afterwards)
            return r
        raise LimbError("shift by a symbolic amount")
    if op == "lshr":
        if b.lo == b.hi:
            k = b.lo
            if not a.mod and a.vbits is None and a.lo < 0 and a.lo >= -(1 << (w - 1)) and a.hi < (1 << (w - 1)):
                # logical shift of a possibly negative two's-complement value: the low w - k bits of the result are those
                # of floor(x / 2^k); the bits above are not (compilers emit this when only low bits are demanded)
                q, _ = split(a, k)
                return LV(q.poly, q.lo, q.hi, w, mod=True, vbits=w - k)
            a = materialise(a)
            q, _ = split(a, k)
            return q
        raise LimbError("shift by a symbolic amount")
    if op == "ashr":
        if b.lo == b.hi:
            a = materialise_signed(a)
            q, _ = split(a, b.lo)
            return q
        raise LimbError("shift by a symbolic amount")
    if op == "and":
        for x, y in ((a, b), (b, a)):
            if y.lo == y.hi and not y.poly.keys() - {()}:
                m = y.lo
                if m & (m + 1) == 0:
                    return low_bits(x, m.bit_length(), "and")
                # contiguous mask 2^a - 2^t (bits t..a-1): x & m = (x mod 2^a) - (x mod 2^t); both go through the
                # provenance-aware low_bits, so the quotient variables are those of the original value
                t = (m & -m).bit_length() - 1
                mm = m >> t
                if mm & (mm + 1) == 0:
                    a_ = t + mm.bit_length()
                    if a_ == w:
                        # mask reaching the top bit (x & -2^t): clears the low t bits of the two's-complement value,
                        # i.e. x - (x mod 2^t) for the intended (possibly negative) integer as well
                        lo_ = low_bits(x, t, "and")
                        xe = materialise_any(x)
                        return LV(padd(xe.poly, lo_.poly, -1), xe.lo - (xe.lo % (1 << t)), xe.hi - (xe.hi % (1 << t)), w)
                    hi_, lo_ = low_bits(x, a_, "and"), low_bits(x, t, "and")
                    r = LV(padd(hi_.poly, lo_.poly, -1), 0, min(m, hi_.hi), w)
                    if hi_.poly == x.poly and t > 0:
                        r.qinfo = (pkey(x.poly), t, 1 << t)     # x < 2^a: x & m = 2^t * floor(x / 2^t)
                    return r
        raise LimbError("and with a non-contiguous or symbolic mask")
    if op == "or":
        # bit-disjoint operands: or == add
        for x, y in ((a, b), (b, a)):
            tz = trailing_zeros(y)
            if not x.mod and 0 <= x.lo and x.hi < (1 << tz):
                return LV(padd(x.poly, y.poly), x.lo + y.lo, x.hi + y.hi, w, mod=y.mod)
        raise LimbError("or of operands that are not provably bit-disjoint")
    raise LimbError("limb binop " + op)


def trailing_zeros(x):
    if not x.poly:
        return 1 << 20
    tz = None
    for c in x.poly.values():
        t = (c & -c).bit_length() - 1
        tz = t if tz is None else min(tz, t)
    return tz


def zext(a, w_from, w_to):
    a = materialise(a)
    return LV(a.poly, a.lo, a.hi, w_to)


def sext(a, w_from, w_to):
    a = materialise_signed(a)
    return LV(a.poly, a.lo, a.hi, w_to)


def trunc(a, w_to):
    r = low_bits(a, w_to, "trunc")
    return LV(r.poly, r.lo, r.hi, w_to, src=r.src)


def extract(a, hi, lo):
    if lo == 0:
        return trunc(a, hi + 1)
    a = materialise(a)
    q, _ = split(a, lo)
    return trunc(LV(q.poly, q.lo, q.hi, a.w), hi - lo + 1)


def concat(hi, lo, whi, wlo):
    h, l = lift(hi, whi), lift(lo, wlo)
    h, l = materialise(h), materialise(l)
    return LV(padd(pscale(h.poly, 1 << wlo), l.poly), (h.lo << wlo) + l.lo, (h.hi << wlo) + l.hi, whi + wlo)


def coeffs_mod(poly, p):
    return {m: c % p for m, c in poly.items() if c % p}


def combine(limbs, radix_bits):
    """sum limb_i * 2^(radix_bits[i])"""
    out = {}
    for x, sh in zip(limbs, radix_bits):
        out = padd(out, pscale(lift(x, 64).poly, 1 << sh))
    return out
