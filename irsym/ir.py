"""Parser for the textual LLVM IR subset that clang-14 -O1 emits for libsodium
(typed pointers).  Produces Module(functions, globals, named struct types)."""
import re

TOKEN_RE = re.compile(r'''
    \s+ |
    (?P<str>c"(?:[^"\\]|\\[0-9a-fA-F]{2}|\\\\)*") |
    (?P<meta>![A-Za-z0-9_.]*(?:\([^)]*\))?) |
    (?P<lname>%"[^"]*"|%[A-Za-z0-9_.$-]+) |
    (?P<gname>@"[^"]*"|@[A-Za-z0-9_.$-]+) |
    (?P<attr>\#\d+) |
    (?P<num>-?\d+(?:\.\d+(?:e[+-]?\d+)?)?|0x[0-9A-Fa-f]+) |
    (?P<word>[A-Za-z_][A-Za-z0-9_.]*) |
    (?P<dots>\.\.\.) |
    (?P<punct><\{|\}>|[\[\]{}()<>*,=x:])
''', re.X)


def tokenize(s):
    out = []
    pos = 0
    n = len(s)
    while pos < n:
        m = TOKEN_RE.match(s, pos)
        if not m:
            raise SyntaxError("cannot tokenize: %r" % s[pos:pos + 40])
        pos = m.end()
        if m.lastgroup:
            out.append(m.group(m.lastgroup))
    return out


class Ty(object):
    __slots__ = ("k", "a", "b", "c")

    def __init__(self, k, a=None, b=None, c=None):
        self.k, self.a, self.b, self.c = k, a, b, c

    def __repr__(self):
        return "Ty(%s,%r,%r)" % (self.k, self.a, self.b)


VOID = Ty("void")
LABEL = Ty("label")
PTR8 = None


class Parser(object):
    def __init__(self, toks, mod):
        self.t = toks
        self.i = 0
        self.mod = mod

    def peek(self, k=0):
        return self.t[self.i + k] if self.i + k < len(self.t) else None

    def next(self):
        v = self.t[self.i]
        self.i += 1
        return v

    def expect(self, v):
        x = self.next()
        if x != v:
            raise SyntaxError("expected %r got %r in %r" % (v, x, " ".join(self.t[max(0, self.i - 8):self.i + 5])))

    def accept(self, v):
        if self.peek() == v:
            self.i += 1
            return True
        return False

    # ---- types ----
    def type(self):
        tok = self.next()
        if tok == "void":
            ty = VOID
        elif re.match(r"^i\d+$", tok):
            ty = Ty("int", int(tok[1:]))
        elif tok in ("float", "double", "half", "x86_fp80", "fp128"):
            ty = Ty("fp", {"half": 16, "float": 32, "double": 64, "x86_fp80": 80, "fp128": 128}[tok])
        elif tok == "label":
            ty = LABEL
        elif tok == "metadata":
            ty = Ty("metadata")
        elif tok == "ptr":
            ty = Ty("ptr", Ty("int", 8))
        elif tok.startswith("%"):
            ty = Ty("named", tok)
        elif tok == "[":
            n = int(self.next())
            self.expect("x")
            el = self.type()
            self.expect("]")
            ty = Ty("arr", n, el)
        elif tok == "<":
            n = int(self.next())
            self.expect("x")
            el = self.type()
            self.expect(">")
            ty = Ty("vec", n, el)
        elif tok in ("{", "<{"):
            packed = tok == "<{"
            fields = []
            close = "}>" if packed else "}"
            if not self.accept(close):
                while True:
                    fields.append(self.type())
                    if self.accept(close):
                        break
                    self.expect(",")
            ty = Ty("struct", fields, packed)
        elif tok == "opaque":
            ty = Ty("struct", [], False)
        else:
            raise SyntaxError("type? %r in %r" % (tok, " ".join(self.t[max(0, self.i - 6):self.i + 6])))
        # suffixes: pointers and function types
        while True:
            if self.peek() == "*":
                self.next()
                ty = Ty("ptr", ty)
            elif self.peek() == "(":
                # function type: ret (params)
                self.next()
                params = []
                vararg = False
                if not self.accept(")"):
                    while True:
                        if self.accept("..."):
                            vararg = True
                        else:
                            params.append(self.type())
                        if self.accept(")"):
                            break
                        self.expect(",")
                ty = Ty("func", ty, params, vararg)
            elif self.peek() == "addrspace":
                self.next(); self.expect("("); self.next(); self.expect(")")
            else:
                break
        return ty

    # ---- values ----
    PARAM_ATTRS = set("noundef nonnull nocapture readonly readnone writeonly noalias signext zeroext immarg returned "
                      "inreg nofree swiftself nest dereferenceable dereferenceable_or_null align byval sret "
                      "inalloca preallocated".split())

    def skip_attrs(self):
        while True:
            p = self.peek()
            if p in ("dereferenceable", "dereferenceable_or_null", "align") and self.peek(1) == "(":
                self.i += 2
                self.next()
                self.expect(")")
            elif p == "align" and self.peek(1) is not None and self.peek(1).isdigit():
                self.i += 2
            elif p in ("byval", "sret", "inalloca", "preallocated", "elementtype") and self.peek(1) == "(":
                self.i += 2
                self.type()
                self.expect(")")
            elif p in self.PARAM_ATTRS:
                self.i += 1
            else:
                return

    def value(self, ty):
        """returns an operand descriptor"""
        tok = self.next()
        if tok.startswith("%"):
            return ("l", tok)
        if tok.startswith("@"):
            return ("g", tok)
        if tok in ("true", "false"):
            return ("c", 1 if tok == "true" else 0)
        if tok in ("null", "zeroinitializer"):
            return ("zero", ty)
        if tok in ("undef", "poison"):
            return ("undef", ty)
        if re.match(r"^-?\d+$", tok):
            return ("c", int(tok))
        if tok.startswith("0x"):
            return ("c", 0)  # fp hex constant: unused
        if tok == "<":
            elems = []
            while True:
                t2 = self.type()
                elems.append(self.value(t2))
                if self.accept(">"):
                    break
                self.expect(",")
            return ("vecc", elems)
        if tok in ("[", "{", "<{"):
            close = {"[": "]", "{": "}", "<{": "}>"}[tok]
            elems = []
            if not self.accept(close):
                while True:
                    t2 = self.type()
                    elems.append((t2, self.value(t2)))
                    if self.accept(close):
                        break
                    self.expect(",")
            return ("agg", elems)
        if tok.startswith('c"'):
            raw = tok[2:-1]
            bs = []
            j = 0
            while j < len(raw):
                if raw[j] == "\\":
                    if raw[j + 1] == "\\":
                        bs.append(0x5c)
                        j += 2
                    else:
                        bs.append(int(raw[j + 1:j + 3], 16))
                        j += 3
                else:
                    bs.append(ord(raw[j]))
                    j += 1
            return ("bytes", bs)
        if tok == "getelementptr":
            self.accept("inbounds")
            self.expect("(")
            sty = self.type()
            self.expect(",")
            pty = self.type()
            base = self.value(pty)
            idx = []
            while self.accept(","):
                self.accept("inrange")
                ity = self.type()
                idx.append((ity, self.value(ity)))
            self.expect(")")
            return ("cgep", sty, base, idx)
        if tok in ("bitcast", "inttoptr", "ptrtoint", "addrspacecast", "trunc", "zext", "sext"):
            self.expect("(")
            fty = self.type()
            v = self.value(fty)
            self.expect("to")
            tty = self.type()
            self.expect(")")
            return ("ccast", tok, fty, v, tty)
        if tok in ("add", "sub", "mul", "and", "or", "xor", "shl", "lshr"):
            while self.peek() in ("nuw", "nsw", "exact"):
                self.next()
            self.expect("(")
            t1 = self.type(); a = self.value(t1); self.expect(","); t2 = self.type(); b = self.value(t2); self.expect(")")
            return ("cbin", tok, t1, a, b)
        if tok == "blockaddress" or tok == "dso_local_equivalent":
            raise SyntaxError("unsupported constant " + tok)
        raise SyntaxError("value? %r in %r" % (tok, " ".join(self.t[max(0, self.i - 8):self.i + 6])))

    def typed_value(self):
        ty = self.type()
        self.skip_attrs()
        return ty, self.value(ty)


class Function(object):
    def __init__(self, name, ret, params):
        self.name = name
        self.ret = ret
        self.params = params  # list of (ty, name)
        self.blocks = {}      # label -> list of instructions
        self.order = []
        self.entry = None


class Module(object):
    def __init__(self):
        self.types = {}
        self.globals = {}   # name -> (ty, init descriptor or None, is_const)
        self.functions = {}
        self.declared = set()

    def resolve(self, ty):
        while ty.k == "named":
            ty = self.types[ty.a]
        return ty

    # data layout for x86-64
    def size_align(self, ty):
        ty = self.resolve(ty)
        k = ty.k
        if k == "int":
            b = (ty.a + 7) // 8
            al = 1
            while al < b and al < 16:
                al *= 2
            if ty.a > 64:
                b = ((ty.a + 127) // 128) * 16
                al = 16
            return b, max(al, 1)
        if k == "fp":
            return {16: (2, 2), 32: (4, 4), 64: (8, 8), 80: (16, 16), 128: (16, 16)}[ty.a]
        if k == "ptr" or k == "func":
            return 8, 8
        if k == "arr":
            s, a = self.size_align(ty.b)
            return s * ty.a, a
        if k == "vec":
            s, a = self.size_align(ty.b)
            tot = s * ty.a
            al = 1
            while al < tot:
                al *= 2
            return tot, min(al, 64)
        if k == "struct":
            off = 0
            mal = 1
            for f in ty.a:
                s, a = self.size_align(f)
                if not ty.b:
                    off = (off + a - 1) // a * a
                    mal = max(mal, a)
                off += s
            if not ty.b:
                off = (off + mal - 1) // mal * mal
            return off, mal
        raise ValueError("size of %r" % (ty,))

    def field_offset(self, sty, idx):
        sty = self.resolve(sty)
        off = 0
        for i, f in enumerate(sty.a):
            s, a = self.size_align(f)
            if not sty.b:
                off = (off + a - 1) // a * a
            if i == idx:
                return off, f
            off += s
        raise IndexError(idx)


LINKAGE = set("private internal available_externally linkonce weak common appending extern_weak linkonce_odr weak_odr "
              "external dso_local dso_preemptable default hidden protected dllimport dllexport thread_local "
              "unnamed_addr local_unnamed_addr externally_initialized".split())


def parse_module(text):
    mod = Module()
    lines = text.split("\n")
    i = 0
    n = len(lines)
    while i < n:
        line = lines[i]
        i += 1
        s = line.strip()
        if not s or s.startswith(";") or s.startswith("source_filename") or s.startswith("target ") \
                or s.startswith("attributes ") or s.startswith("!") or s.startswith("module asm"):
            continue
        if s.startswith("%") and " = type " in s:
            name, rest = s.split(" = type ", 1)
            p = Parser(tokenize(rest), mod)
            mod.types[name.strip()] = p.type()
            continue
        if s.startswith("@"):
            m = re.match(r'^(@"[^"]*"|@[A-Za-z0-9_.$-]+)\s*=\s*(.*)$', s)
            name, rest = m.group(1), m.group(2)
            rest = re.sub(r',\s*(align \d+|section "[^"]*"|comdat(\([^)]*\))?|!\w+ !\d+|no_sanitize_\w+)', '', rest)
            toks = tokenize(rest)
            p = Parser(toks, mod)
            while p.peek() in LINKAGE or (p.peek() == "thread_local" ):
                p.next()
                if p.peek() == "(":
                    p.next(); p.next(); p.expect(")")
            if p.peek() == "alias" or p.peek() == "ifunc":
                continue
            kind = p.next()  # global | constant
            ty = p.type()
            init = None
            if p.peek() is not None:
                try:
                    init = p.value(ty)
                except SyntaxError:
                    init = None
            mod.globals[name] = (ty, init, kind == "constant")
            continue
        if s.startswith("declare"):
            m = re.search(r'(@"[^"]*"|@[A-Za-z0-9_.$-]+)\s*\(', s)
            if m:
                mod.declared.add(m.group(1))
            continue
        if s.startswith("define"):
            hdr = s
            m = re.search(r'(@"[^"]*"|@[A-Za-z0-9_.$-]+)\s*\(', hdr)
            fname = m.group(1)
            # parse return type: tokens before the name
            pre = hdr[len("define"):m.start()]
            toks = [t for t in tokenize(pre) if t not in LINKAGE and t not in Parser.PARAM_ATTRS and not t.isdigit()]
            # drop cc / attrs words
            toks = [t for t in toks if t not in ("fastcc", "ccc", "coldcc", "noundef", "zeroext", "signext", "noalias", "nonnull")]
            p = Parser(toks, mod)
            ret = p.type()
            # params
            depth = 0
            j = m.end() - 1
            k = j
            while True:
                if hdr[k] == "(":
                    depth += 1
                elif hdr[k] == ")":
                    depth -= 1
                    if depth == 0:
                        break
                k += 1
            ptoks = tokenize(hdr[j + 1:k])
            pp = Parser(ptoks, mod)
            params = []
            idx = 0
            while pp.peek() is not None:
                if pp.accept("..."):
                    break
                ty = pp.type()
                pp.skip_attrs()
                nm = None
                if pp.peek() is not None and pp.peek().startswith("%"):
                    nm = pp.next()
                else:
                    nm = "%%%d" % idx
                params.append((ty, nm))
                idx += 1
                if not pp.accept(","):
                    break
            fn = Function(fname, ret, params)
            # implicit entry label = number of params (unnamed numbering)
            unnamed = sum(1 for _, nm in params if re.match(r"^%\d+$", nm))
            cur = "%%%d" % unnamed
            fn.entry = cur
            fn.blocks[cur] = []
            fn.order.append(cur)
            while i < n:
                l2 = lines[i]
                i += 1
                s2 = l2.strip()
                if s2 == "}":
                    break
                if not s2 or s2.startswith(";"):
                    continue
                m2 = re.match(r'^("[^"]*"|[A-Za-z0-9_.$-]+):', s2)
                if m2 and not l2.startswith("  "):
                    cur = "%" + m2.group(1)
                    if not fn.blocks.get(cur) and len(fn.order) == 1 and not fn.blocks[fn.order[0]]:
                        # named entry block
                        del fn.blocks[fn.order[0]]
                        fn.order = []
                        fn.entry = cur
                    fn.blocks.setdefault(cur, [])
                    fn.order.append(cur)
                    continue
                # switch spans lines
                if " switch " in " " + s2 and s2.rstrip().endswith("["):
                    while i < n and "]" not in lines[i]:
                        s2 += " " + lines[i].strip()
                        i += 1
                    s2 += " " + lines[i].strip()
                    i += 1
                fn.blocks[cur].append(s2)
            mod.functions[fname] = fn
            continue
    return mod
