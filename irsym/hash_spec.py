"""BLAKE2b (RFC 7693, with libsodium's salt/personal parameter block) and SipHash-2-4 / SipHashx-2-4 (64- and 128-bit
outputs, Aumasson-Bernstein) over irsym words (ints or bit-level values), independent of the code under test."""
from . import aig, terms as T

M64 = (1 << 64) - 1
IV = [0x6a09e667f3bcc908, 0xbb67ae8584caa73b, 0x3c6ef372fe94f82b, 0xa54ff53a5f1d36f1,
      0x510e527fade682d1, 0x9b05688c2b3e6c1f, 0x1f83d9abfb41bd6b, 0x5be0cd19137e2179]
SIGMA = [[0, 1, 2, 3, 4, 5, 6, 7, 8, 9, 10, 11, 12, 13, 14, 15], [14, 10, 4, 8, 9, 15, 13, 6, 1, 12, 0, 2, 11, 7, 5, 3],
         [11, 8, 12, 0, 5, 2, 15, 13, 10, 14, 3, 6, 7, 1, 9, 4], [7, 9, 3, 1, 13, 12, 11, 14, 2, 6, 5, 10, 4, 0, 15, 8],
         [9, 0, 5, 7, 2, 4, 10, 15, 14, 1, 11, 12, 6, 8, 3, 13], [2, 12, 6, 10, 0, 11, 8, 3, 4, 13, 7, 5, 15, 14, 1, 9],
         [12, 5, 1, 15, 14, 13, 4, 10, 0, 7, 6, 3, 9, 2, 8, 11], [13, 11, 7, 14, 12, 1, 3, 9, 5, 0, 15, 4, 8, 6, 2, 10],
         [6, 15, 14, 9, 11, 3, 0, 8, 12, 2, 13, 7, 1, 4, 10, 5], [10, 2, 8, 4, 7, 6, 1, 5, 15, 11, 9, 14, 3, 12, 13, 0]]


def add(a, b):
    return T.binop("add", a, b, 64)


def xor(a, b):
    return T.binop("xor", a, b, 64)


def rotr(x, n):
    return T.fsh(False, x, x, n, 64)


def rotl(x, n):
    return T.fsh(True, x, x, n, 64)


def word_le(bs):
    """8 byte values (ints or 8-bit values) -> 64-bit word"""
    acc, w = bs[0], 8
    for b in bs[1:]:
        acc = T.concat(b, acc, 8, w)
        w += 8
    return acc


def bytes_le(x, n=8):
    return [T.extract(x, 8 * i + 7, 8 * i) if isinstance(x, T.Term) else (x >> (8 * i)) & 0xff for i in range(n)]


def blake2b_F(h, m, t, last):
    v = list(h) + list(IV)
    v[12] = xor(v[12], t & M64)
    v[13] = xor(v[13], t >> 64)
    if last:
        v[14] = xor(v[14], M64)

    def G(a, b, c, d, x, y):
        v[a] = add(add(v[a], v[b]), x)
        v[d] = rotr(xor(v[d], v[a]), 32)
        v[c] = add(v[c], v[d])
        v[b] = rotr(xor(v[b], v[c]), 24)
        v[a] = add(add(v[a], v[b]), y)
        v[d] = rotr(xor(v[d], v[a]), 16)
        v[c] = add(v[c], v[d])
        v[b] = rotr(xor(v[b], v[c]), 63)
    for r in range(12):
        s = SIGMA[r % 10]
        G(0, 4, 8, 12, m[s[0]], m[s[1]])
        G(1, 5, 9, 13, m[s[2]], m[s[3]])
        G(2, 6, 10, 14, m[s[4]], m[s[5]])
        G(3, 7, 11, 15, m[s[6]], m[s[7]])
        G(0, 5, 10, 15, m[s[8]], m[s[9]])
        G(1, 6, 11, 12, m[s[10]], m[s[11]])
        G(2, 7, 8, 13, m[s[12]], m[s[13]])
        G(3, 4, 9, 14, m[s[14]], m[s[15]])
    return [xor(xor(h[i], v[i]), v[i + 8]) for i in range(8)]


def blake2b(msg, outlen, key=(), salt=None, personal=None):
    """msg/key/salt/personal: lists of byte values; returns outlen byte values"""
    kk = len(key)
    p = [outlen, kk, 1, 1] + [0] * 28 + (list(salt) if salt is not None else [0] * 16) + (list(personal) if personal is not None else [0] * 16)
    h = [xor(IV[i], word_le(p[8 * i:8 * i + 8])) for i in range(8)]
    data = (list(key) + [0] * (128 - kk) if kk else []) + list(msg)
    blocks = [data[i:i + 128] for i in range(0, len(data), 128)] or [[]]
    t = 0
    for bi, blk in enumerate(blocks):
        last = bi == len(blocks) - 1
        t += len(blk)
        blk = blk + [0] * (128 - len(blk))
        h = blake2b_F(h, [word_le(blk[8 * i:8 * i + 8]) for i in range(16)], t, last)
    out = []
    for x in h:
        out += bytes_le(x)
    return out[:outlen]


def siphash(msg, key, outlen=8):
    k0, k1 = word_le(key[:8]), word_le(key[8:16])
    v = [xor(k0, 0x736f6d6570736575), xor(k1, 0x646f72616e646f6d), xor(k0, 0x6c7967656e657261), xor(k1, 0x7465646279746573)]
    if outlen == 16:
        v[1] = xor(v[1], 0xee)

    def rnd():
        v[0] = add(v[0], v[1]); v[1] = rotl(v[1], 13); v[1] = xor(v[1], v[0]); v[0] = rotl(v[0], 32)
        v[2] = add(v[2], v[3]); v[3] = rotl(v[3], 16); v[3] = xor(v[3], v[2])
        v[0] = add(v[0], v[3]); v[3] = rotl(v[3], 21); v[3] = xor(v[3], v[0])
        v[2] = add(v[2], v[1]); v[1] = rotl(v[1], 17); v[1] = xor(v[1], v[2]); v[2] = rotl(v[2], 32)
    n = len(msg)
    for i in range(0, n - n % 8, 8):
        m = word_le(msg[i:i + 8])
        v[3] = xor(v[3], m); rnd(); rnd(); v[0] = xor(v[0], m)
    b = word_le(list(msg[n - n % 8:]) + [0] * (7 - n % 8) + [n & 0xff])
    v[3] = xor(v[3], b); rnd(); rnd(); v[0] = xor(v[0], b)
    v[2] = xor(v[2], 0xee if outlen == 16 else 0xff)
    for _ in range(4):
        rnd()
    out = bytes_le(xor(xor(v[0], v[1]), xor(v[2], v[3])))
    if outlen == 16:
        v[1] = xor(v[1], 0xdd)
        for _ in range(4):
            rnd()
        out += bytes_le(xor(xor(v[0], v[1]), xor(v[2], v[3])))
    return out


# ---- SHA-256 / SHA-512 (FIPS 180-4) over irsym words -------------------------------------------------------------
# Ch and Maj are written in the usual and-xor-reduced form; its equality with the FIPS 180-4 definitions is checked
# exhaustively over the 8 input combinations here (bitwise functions: one bit position decides all).
for _x in (0, 1):
    for _y in (0, 1):
        for _z in (0, 1):
            assert ((_x & (_y ^ _z)) ^ _z) == ((_x & _y) ^ ((1 - _x) & _z)), "Ch"
            assert ((_x & (_y | _z)) | (_y & _z)) == ((_x & _y) ^ (_x & _z) ^ (_y & _z)), "Maj"


def _primes(n):
    out, c = [], 2
    while len(out) < n:
        if all(c % p for p in out):
            out.append(c)
        c += 1
    return out


def _frac_root(p, k, bits):
    """first `bits` bits of the fractional part of p^(1/k) (integer arithmetic)"""
    lo, hi = 0, 1 << (bits + 8)
    target = p << (k * bits)
    while lo < hi:                       # floor(p^(1/k) * 2^bits)
        mid = (lo + hi + 1) // 2
        if mid ** k <= target:
            lo = mid
        else:
            hi = mid - 1
    return lo & ((1 << bits) - 1)


K256 = [_frac_root(p, 3, 32) for p in _primes(64)]
H256 = [_frac_root(p, 2, 32) for p in _primes(8)]
K512 = [_frac_root(p, 3, 64) for p in _primes(80)]
H512 = [_frac_root(p, 2, 64) for p in _primes(8)]
assert K256[0] == 0x428a2f98 and H256[0] == 0x6a09e667 and K512[79] == 0x6c44198c4a475817 and H512[7] == 0x5be0cd19137e2179


def sha2(msg, bits=256):
    """msg: list of byte values; returns the digest bytes (32 or 64)"""
    w = 32 if bits == 256 else 64
    K, H0 = (K256, H256) if bits == 256 else (K512, H512)
    rounds = 64 if bits == 256 else 80
    bs = 64 if bits == 256 else 128
    R = ((2, 13, 22), (6, 11, 25), (7, 18, 3), (17, 19, 10)) if bits == 256 else ((28, 34, 39), (14, 18, 41), (1, 8, 7), (19, 61, 6))
    AND = lambda a, b: T.binop("and", a, b, w)
    OR = lambda a, b: T.binop("or", a, b, w)
    X = lambda a, b: T.binop("xor", a, b, w)
    ADD = lambda a, b: T.binop("add", a, b, w)
    ROTR = lambda x, n: T.fsh(False, x, x, n, w)
    SHR = lambda x, n: T.binop("lshr", x, n, w)
    S0 = lambda x: X(X(ROTR(x, R[0][0]), ROTR(x, R[0][1])), ROTR(x, R[0][2]))
    S1 = lambda x: X(X(ROTR(x, R[1][0]), ROTR(x, R[1][1])), ROTR(x, R[1][2]))
    s0 = lambda x: X(X(ROTR(x, R[2][0]), ROTR(x, R[2][1])), SHR(x, R[2][2]))
    s1 = lambda x: X(X(ROTR(x, R[3][0]), ROTR(x, R[3][1])), SHR(x, R[3][2]))
    Ch = lambda x, y, z: X(AND(x, X(y, z)), z)
    Maj = lambda x, y, z: OR(AND(x, OR(y, z)), AND(y, z))
    n = len(msg)
    lb = bs // 8
    data = list(msg) + [0x80]
    while (len(data) + lb) % bs:
        data.append(0)
    data += [((8 * n) >> (8 * (lb - 1 - i))) & 0xff for i in range(lb)]
    h = list(H0)
    for off in range(0, len(data), bs):
        blk = data[off:off + bs]
        W = []
        for i in range(16):
            acc, ww = blk[(w // 8) * i], 8
            for b in blk[(w // 8) * i + 1:(w // 8) * (i + 1)]:       # big endian
                acc = T.concat(acc, b, ww, 8)
                ww += 8
            W.append(acc)
        for i in range(16, rounds):
            W.append(ADD(ADD(ADD(s1(W[i - 2]), W[i - 7]), s0(W[i - 15])), W[i - 16]))
        a, b, c, d, e, f, g, hh = h
        for i in range(rounds):
            t1 = ADD(ADD(ADD(ADD(hh, S1(e)), Ch(e, f, g)), K[i]), W[i])
            t2 = ADD(S0(a), Maj(a, b, c))
            hh, g, f, e, d, c, b, a = g, f, e, ADD(d, t1), c, b, a, ADD(t1, t2)
        h = [ADD(x, y) for x, y in zip(h, (a, b, c, d, e, f, g, hh))]
    out = []
    for x in h:
        out += [T.extract(x, 8 * (w // 8 - 1 - i) + 7, 8 * (w // 8 - 1 - i)) if isinstance(x, T.Term) else (x >> (8 * (w // 8 - 1 - i))) & 0xff for i in range(w // 8)]
    return out


def expand_message_xmd(msg, dst, n, bits):
    """RFC 9380 5.3.1 / 5.3.3 with H = SHA-256 / SHA-512; msg: list of byte values, dst: bytes (concrete)"""
    hb, bs = bits // 8, (64 if bits == 256 else 128)
    dst = list(dst)
    if len(dst) > 255:
        dst = sha2(list(b"H2C-OVERSIZE-DST-") + dst, bits)
    dstp = dst + [len(dst)]
    ell = (n + hb - 1) // hb
    b0 = sha2([0] * bs + list(msg) + [n >> 8, n & 0xff, 0] + dstp, bits)
    out, bi = [], [0] * hb
    for i in range(1, ell + 1):
        bi = sha2([T.binop("xor", x, y, 8) for x, y in zip(b0, bi)] + [i] + dstp, bits)
        out += bi
    return out[:n]
