"""BLAKE2b (RFC 7693, with libsodium's salt/personal parameter block) and SipHash-2-4 / SipHashx-2-4 (64- and 128-bit
outputs, Aumasson-Bernstein) over irsym words (ints or bit-level values), independent of the code under test."""
from . import aig, terms as T

M64 = (1 << 64) - 1
IV = [0x6a09e667f3bcc908, 0xbb67ae8584caa73b, 0x3c6ef372fe94f82b, 0xa54ff53a5f1d36f1,
      0x510e527fade682d1, 0x9b05688c2b3e6c1f, 0x1f83d9abfb41bd6b, 0x5be0cd19137e2179]
SIGMA = [[0, 1, 2, 3, 4, 5, 6, 7, 8, 9, 10, 11, 12, 13, 14, 15], [14, 10, 4, 8, 9, 15, 13, 6, 1, 12, 0, 2, 11, 7, 5, 3],
         [11, 8, 12, 0, 5, 2, 15, 13, 10, 14, 3, 6, 7, 1, 9, 4], [7, 9, 3, 1, 13, 12, 11, 14, 2, 6, 5, 10, 4, 0, 15, 8],
         [9, 0, 5, 7, 2, 4, 10, 15, 14, 1, 11, 12, 6, 8, 3, 13], [2, 12, 6, 10, 0, 11, 8, 3, 4, 13, 7, 5, 15, 14, 1, 9],
         [12, 5, 1, 15, 14, 13, 4, 10, 0, 7, 6, 3, 9, 2, 8, 11], [13, 11, 7, 14, 12, 1, 3, 9, 5, 0, 15, 4, 8, 6, 2, 10],
         [6, 15, 14, 9, 11, 3, 0, 8, 12, 2, 13, 7, 1, 4, 10, 5], [10, 2, 8, 4, 7, 6, 1, 5, 15, 11, 9, 14, 3, 12, 13, 0]]


def add(a, b):
    return T.binop("add", a, b, 64)


def xor(a, b):
    return T.binop("xor", a, b, 64)


def rotr(x, n):
    return T.fsh(False, x, x, n, 64)


def rotl(x, n):
    return T.fsh(True, x, x, n, 64)


def word_le(bs):
    """8 byte values (ints or 8-bit values) -> 64-bit word"""
    acc, w = bs[0], 8
    for b in bs[1:]:
        acc = T.concat(b, acc, 8, w)
        w += 8
    return acc


def bytes_le(x, n=8):
    return [T.extract(x, 8 * i + 7, 8 * i) if isinstance(x, T.Term) else (x >> (8 * i)) & 0xff for i in range(n)]


def blake2b_F(h, m, t, last):
    v = list(h) + list(IV)
    v[12] = xor(v[12], t & M64)
    v[13] = xor(v[13], t >> 64)
    if last:
        v[14] = xor(v[14], M64)

    def G(a, b, c, d, x, y):
        v[a] = add(add(v[a], v[b]), x)
        v[d] = rotr(xor(v[d], v[a]), 32)
        v[c] = add(v[c], v[d])
        v[b] = rotr(xor(v[b], v[c]), 24)
        v[a] = add(add(v[a], v[b]), y)
        v[d] = rotr(xor(v[d], v[a]), 16)
        v[c] = add(v[c], v[d])
        v[b] = rotr(xor(v[b], v[c]), 63)
    for r in range(12):
        s = SIGMA[r % 10]
        G(0, 4, 8, 12, m[s[0]], m[s[1]])
        G(1, 5, 9, 13, m[s[2]], m[s[3]])
        G(2, 6, 10, 14, m[s[4]], m[s[5]])
        G(3, 7, 11, 15, m[s[6]], m[s[7]])
        G(0, 5, 10, 15, m[s[8]], m[s[9]])
        G(1, 6, 11, 12, m[s[10]], m[s[11]])
        G(2, 7, 8, 13, m[s[12]], m[s[13]])
        G(3, 4, 9, 14, m[s[14]], m[s[15]])
    return [xor(xor(h[i], v[i]), v[i + 8]) for i in range(8)]


def blake2b(msg, outlen, key=(), salt=None, personal=None):
    """msg/key/salt/personal: lists of byte values; returns outlen byte values"""
    kk = len(key)
    p = [outlen, kk, 1, 1] + [0] * 28 + (list(salt) if salt is not None else [0] * 16) + (list(personal) if personal is not None else [0] * 16)
    h = [xor(IV[i], word_le(p[8 * i:8 * i + 8])) for i in range(8)]
    data = (list(key) + [0] * (128 - kk) if kk else []) + list(msg)
    blocks = [data[i:i + 128] for i in range(0, len(data), 128)] or [[]]
    t = 0
    for bi, blk in enumerate(blocks):
        last = bi == len(blocks) - 1
        t += len(blk)
        blk = blk + [0] * (128 - len(blk))
        h = blake2b_F(h, [word_le(blk[8 * i:8 * i + 8]) for i in range(16)], t, last)
    out = []
    for x in h:
        out += bytes_le(x)
    return out[:outlen]


def siphash(msg, key, outlen=8):
    k0, k1 = word_le(key[:8]), word_le(key[8:16])
    v = [xor(k0, 0x736f6d6570736575), xor(k1, 0x646f72616e646f6d), xor(k0, 0x6c7967656e657261), xor(k1, 0x7465646279746573)]
    if outlen == 16:
        v[1] = xor(v[1], 0xee)

    def rnd():
        v[0] = add(v[0], v[1]); v[1] = rotl(v[1], 13); v[1] = xor(v[1], v[0]); v[0] = rotl(v[0], 32)
        v[2] = add(v[2], v[3]); v[3] = rotl(v[3], 16); v[3] = xor(v[3], v[2])
        v[0] = add(v[0], v[3]); v[3] = rotl(v[3], 21); v[3] = xor(v[3], v[0])
        v[2] = add(v[2], v[1]); v[1] = rotl(v[1], 17); v[1] = xor(v[1], v[2]); v[2] = rotl(v[2], 32)
    n = len(msg)
    for i in range(0, n - n % 8, 8):
        m = word_le(msg[i:i + 8])
        v[3] = xor(v[3], m); rnd(); rnd(); v[0] = xor(v[0], m)
    b = word_le(list(msg[n - n % 8:]) + [0] * (7 - n % 8) + [n & 0xff])
    v[3] = xor(v[3], b); rnd(); rnd(); v[0] = xor(v[0], b)
    v[2] = xor(v[2], 0xee if outlen == 16 else 0xff)
    for _ in range(4):
        rnd()
    out = bytes_le(xor(xor(v[0], v[1]), xor(v[2], v[3])))
    if outlen == 16:
        v[1] = xor(v[1], 0xdd)
        for _ in range(4):
            rnd()
        out += bytes_le(xor(xor(v[0], v[1]), xor(v[2], v[3])))
    return out
