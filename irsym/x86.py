"""Models of the x86 AES-NI / PCLMULQDQ intrinsics for irsym (Intel SDM vol. 2:
AESENC, AESENCLAST, AESKEYGENASSIST, PCLMULQDQ).  Concrete operands are
computed; bit-level (aig.AV) operands build circuits: carry-less multiplication
is an XOR of ANDs (GF(2)-affine when one operand is concrete), SubBytes is a
Shannon expansion of the S-box table.  Word-level Term operands (non-
interference mode) become opaque data-flow nodes.  Validated by irsym.selftest
(FIPS-197 C.3 and the SP 800-38D test case through the real AES-NI unit)."""
from . import terms as T


def _sbox():
    # multiplicative inverse in GF(2^8) mod x^8+x^4+x^3+x+1, then the affine map (FIPS-197 5.1.1)
    def mul(a, b):
        r = 0
        while b:
            if b & 1:
                r ^= a
            a <<= 1
            if a & 0x100:
                a ^= 0x11b
            b >>= 1
        return r
    sb = []
    for x in range(256):
        inv = 0
        if x:
            for y in range(1, 256):
                if mul(x, y) == 1:
                    inv = y
                    break
        r = 0
        for i in range(8):
            bit = ((inv >> i) ^ (inv >> ((i + 4) % 8)) ^ (inv >> ((i + 5) % 8)) ^ (inv >> ((i + 6) % 8)) ^ (inv >> ((i + 7) % 8)) ^ (0x63 >> i)) & 1
            r |= bit << i
        sb.append(r)
    return sb


SBOX = _sbox()


def _is_av(x):
    return T.AIG is not None and isinstance(x, T.AIG.AV)


def _opaque(args, w):
    t = T.mk("opaque", tuple(a for a in args if isinstance(a, T.Term)), w)
    return t


_shannon_cache = {}


def sbox_bits(bits):
    """S-box on 8 literals (LSB first) -> 8 literals"""
    A = T.AIG
    g = A.G
    if g.affine:
        return g.lut_bits(list(bits), SBOX, 8)
    key = (id(g), tuple(bits))
    r = _shannon_cache.get(key)
    if r is not None:
        return r
    out = []
    for ob in range(8):
        # Shannon expansion over x7..x0; leaves are table bits
        level = [(SBOX[x] >> ob) & 1 for x in range(256)]
        for i in range(8):
            c = bits[i]
            level = [g.MUX(c, level[2 * j + 1], level[2 * j]) for j in range(len(level) // 2)]
        out.append(level[0])
    if len(_shannon_cache) > 200000:
        _shannon_cache.clear()
    _shannon_cache[key] = out
    return out


def _bytes_of(x):
    """128-bit value (int / AV) -> list of 16 byte values (int or list of 8 literals)"""
    if _is_av(x):
        return [x.bits[8 * i:8 * i + 8] for i in range(16)]
    return [(x >> (8 * i)) & 0xff for i in range(16)]


def _sub(b):
    if isinstance(b, list):
        if all(l <= 1 for l in b):
            v = SBOX[sum(l << i for i, l in enumerate(b))]
            return [(v >> i) & 1 for i in range(8)]
        return sbox_bits(b)
    return SBOX[b]


def _bx(a, b):
    """xor of two byte values (int or literal list)"""
    if isinstance(a, list) or isinstance(b, list):
        A = T.AIG
        la = a if isinstance(a, list) else [(a >> i) & 1 for i in range(8)]
        lb = b if isinstance(b, list) else [(b >> i) & 1 for i in range(8)]
        return [A.G.XOR(x, y) for x, y in zip(la, lb)]
    return a ^ b


def _xtime(a):
    if isinstance(a, list):
        A = T.AIG
        hi = a[7]
        sh = [0] + a[:7]
        red = [hi if (0x1b >> i) & 1 else 0 for i in range(8)]
        return [A.G.XOR(x, y) for x, y in zip(sh, red)]
    a <<= 1
    return (a ^ 0x11b) & 0xff if a & 0x100 else a


def _pack(bs):
    if any(isinstance(b, list) for b in bs):
        A = T.AIG
        bits = []
        for b in bs:
            bits += b if isinstance(b, list) else [(b >> i) & 1 for i in range(8)]
        return A.mkv(bits)
    return sum(b << (8 * i) for i, b in enumerate(bs))


def _vec128(v):
    """<2 x i64> list -> one 128-bit value"""
    lo, hi = v
    if isinstance(lo, T.Term) or isinstance(hi, T.Term):
        return T.concat(hi, lo, 64, 64)
    return (hi << 64) | lo


def _unvec128(x):
    if isinstance(x, T.Term):
        return [T.extract(x, 63, 0), T.extract(x, 127, 64)]
    return [x & ((1 << 64) - 1), x >> 64]


def aesenc(state, rk, last):
    s, k = _vec128(state), _vec128(rk)
    for x in (s, k):
        if isinstance(x, T.Term) and not _is_av(x):
            return _unvec128(_opaque((s, k), 128))
    sb = _bytes_of(s)
    # ShiftRows: byte index i = 4*col + row ; new[row, col] = old[row, (col + row) % 4]
    sh = [sb[4 * ((c + r) % 4) + r] for c in range(4) for r in range(4)]
    su = [_sub(b) for b in sh]
    if last:
        mc = su
    else:
        mc = []
        for c in range(4):
            a = su[4 * c:4 * c + 4]
            for r in range(4):
                # 2*a[r] ^ 3*a[r+1] ^ a[r+2] ^ a[r+3]
                t = _bx(_xtime(a[r]), _bx(_bx(_xtime(a[(r + 1) % 4]), a[(r + 1) % 4]), _bx(a[(r + 2) % 4], a[(r + 3) % 4])))
                mc.append(t)
    kb = _bytes_of(k)
    return _unvec128(_pack([_bx(x, y) for x, y in zip(mc, kb)]))


def aeskeygenassist(src, rcon):
    s = _vec128(src)
    if isinstance(s, T.Term) and not _is_av(s):
        return _unvec128(_opaque((s,), 128))
    b = _bytes_of(s)
    x1 = [_sub(v) for v in b[4:8]]
    x3 = [_sub(v) for v in b[12:16]]

    def rot(w):
        return w[1:] + w[:1]
    rc = [rcon & 0xff, 0, 0, 0]
    out = x1 + [_bx(v, c) for v, c in zip(rot(x1), rc)] + x3 + [_bx(v, c) for v, c in zip(rot(x3), rc)]
    return _unvec128(_pack(out))


def clmul64(a, b):
    """carry-less 64x64 -> 128"""
    av, bv = _is_av(a), _is_av(b)
    if not isinstance(a, T.Term) and not isinstance(b, T.Term):
        r = 0
        i = 0
        while b >> i:
            if (b >> i) & 1:
                r ^= a << i
            i += 1
        return r
    if (isinstance(a, T.Term) and not av) or (isinstance(b, T.Term) and not bv):
        return _opaque((a, b), 128)
    A = T.AIG
    g = A.G
    ab = a.bits if av else [(a >> i) & 1 for i in range(64)]
    bb = b.bits if bv else [(b >> i) & 1 for i in range(64)]
    out = []
    for k in range(127):
        terms = []
        for i in range(max(0, k - 63), min(63, k) + 1):
            t = g.AND(ab[i], bb[k - i])
            if t:
                terms.append(t)
        out.append(g.xor_many(terms))
    out.append(0)
    return A.mkv(out)


def pclmulqdq(x, y, imm):
    a = x[1] if imm & 1 else x[0]
    b = y[1] if imm & 0x10 else y[0]
    return _unvec128(clmul64(a, b))


def dispatch(name, args):
    if name == "@llvm.x86.pclmulqdq":
        return pclmulqdq(args[0], args[1], args[2])
    if name == "@llvm.x86.aesni.aesenc":
        return aesenc(args[0], args[1], False)
    if name == "@llvm.x86.aesni.aesenclast":
        return aesenc(args[0], args[1], True)
    if name == "@llvm.x86.aesni.aeskeygenassist":
        return aeskeygenassist(args[0], args[1])
    return NotImplemented
