"""Bit-level XOR-AND graph with structural hashing for irsym's *equiv* mode.

Literals are ints: 0 = false, 1 = true, node n -> 2n (positive) / 2n+1
(negated).  Two kinds of nodes (AND, XOR), both hashed on their normalised
operands, so that two implementations with the same bit-level data flow get
the *same output literals* however differently they are vectorised: extract,
concat, zext/trunc, constant shifts/rotates, shuffles, bitcasts and byte-wise
loads of stored words are pure wiring.  What remains is closed by SAT
(kissat) with simulation-guided sweeping (see equiv.py)."""
import random

from . import terms as T


class Graph(object):
    """kinds: 1 input, 2 AND, 3 XOR (plain mode only), 4 XOR-set (canonical mode), 5 LUT (canonical mode).

    canonical mode (affine=True): every literal is kept in XOR normal form -- a constant (the literal's polarity),
    a bit mask over the inputs and a set of non-linear atoms (AND nodes, LUT nodes); XOR is computed on the forms
    and the result is looked up by its form, so two functions with the same XOR normal form are the same literal
    however and in whatever order they were computed.  LUT atoms are k-input truth tables (k <= 10) over positive
    input literals in increasing order, normalised to tt(0..0) = 0; XOR of two LUT atoms over the same inputs is
    one LUT atom (truth tables xor-ed), so table-driven AES (T-tables) and S-box + MixColumns AES meet."""

    def __init__(self, affine=False, canon_sums=False):
        self.canon_sums = canon_sums or affine
        self.kind = [0, 0]
        self.a = [0, 0]
        self.b = [0, 0]
        self.hash = {}
        self.names = {}
        self.ninputs = 0
        self.affine = affine
        self.inputs = []        # input index -> node
        self.inidx = {}         # input node -> index
        self.form = {}          # kind-4 node -> (mask, frozenset(atom nodes))
        self.form_hash = {}     # (mask, frozenset) -> node
        self.lut = {}           # kind-5 node -> (ins tuple of positive literals, tt int)
        self.lut_hash = {}
        self.sum_flatten_max = 1 << 30
        self.sums = {}          # result literals -> (sorted operand literal tuples, constant): canonical modular sums
        self.sum_cache = {}
        self._lut_cache = {}
        self._ltt_cache = {}
        self._mux_cache = {}

    def new_input(self, name):
        n = len(self.kind)
        self.kind.append(1)
        self.a.append(0)
        self.b.append(0)
        self.names[n] = name
        self.inidx[n] = self.ninputs
        self.inputs.append(n)
        self.ninputs += 1
        return 2 * n

    # ---- canonical XOR forms ----
    def form_of(self, node):
        k = self.kind[node]
        if k == 1:
            return (1 << self.inidx[node], frozenset())
        if k == 4:
            return self.form[node]
        return (0, frozenset((node,)))

    def from_form(self, mask, fs):
        if not fs:
            if mask == 0:
                return 0
            if mask & (mask - 1) == 0:
                return 2 * self.inputs[mask.bit_length() - 1]
        elif mask == 0 and len(fs) == 1:
            for n in fs:
                return 2 * n
        key = (mask, fs)
        n = self.form_hash.get(key)
        if n is None:
            n = len(self.kind)
            self.kind.append(4)
            self.a.append(0)
            self.b.append(0)
            self.form[n] = key
            self.form_hash[key] = n
        return 2 * n

    def from_mask(self, m):
        return self.from_form(m, frozenset())

    def _merge_luts(self, fs, extra):
        """symmetric difference of atom sets fs and extra; LUT atoms over the same inputs are merged"""
        out = set(fs)
        byins = None
        for a in extra:
            if a in out:
                out.discard(a)
                continue
            if self.kind[a] == 5:
                if byins is None:
                    byins = {}
                    for x in out:
                        if self.kind[x] == 5:
                            byins[self.lut[x][0]] = x
                ins, tt = self.lut[a]
                o = byins.get(ins)
                if o is not None and o in out:
                    out.discard(o)
                    ntt = self.lut[o][1] ^ tt
                    if ntt:
                        m = self._lut_node(ins, ntt)
                        # m is 2*node (tt(0) = 0 is preserved by xor)
                        out.add(m >> 1)
                        byins[ins] = m >> 1
                    else:
                        del byins[ins]
                    continue
                byins[ins] = a
            out.add(a)
        return frozenset(out)

    def xor_many(self, lits):
        if not self.affine:
            r = 0
            for l in lits:
                r = self.XOR(r, l)
            return r
        m, neg, fs = 0, 0, frozenset()
        for l in lits:
            if l <= 1:
                neg ^= l
                continue
            fm, ff = self.form_of(l >> 1)
            m ^= fm
            neg ^= l & 1
            if ff:
                fs = self._merge_luts(fs, ff) if fs else ff
        return self.from_form(m, fs) ^ neg

    # ---- LUT atoms ----
    def _lut_node(self, ins, tt):
        key = (ins, tt)
        n = self.lut_hash.get(key)
        if n is None:
            n = len(self.kind)
            self.kind.append(5)
            self.a.append(0)
            self.b.append(0)
            self.lut[n] = key
            self.lut_hash[key] = n
        return 2 * n

    def lut_bits(self, ins, table, w):
        """ins: k literals (LSB first); table: 2^k ints of w bits; returns w literals (canonical mode only)"""
        k = len(ins)
        ckey = (tuple(ins), tuple(table), w)
        r = self._lut_cache.get(ckey)
        if r is not None:
            return list(r)
        r = self._lut_bits(ins, table, w)
        if len(self._lut_cache) > 400000:
            self._lut_cache.clear()
        self._lut_cache[ckey] = tuple(r)
        return r

    def _lut_bits(self, ins, table, w):
        k = len(ins)
        # constants and negations are absorbed into the table; inputs sorted by literal
        var = []
        base = 0
        flip = 0
        for i, l in enumerate(ins):
            if l <= 1:
                base |= l << i
            else:
                var.append((l & ~1, i))
                if l & 1:
                    flip |= 1 << i
        var.sort()
        # duplicate input nodes: keep first, tie the others
        pos = [i for _, i in var]
        lits = [l for l, _ in var]
        dup = {}
        ulits, upos = [], []
        for l, i in zip(lits, pos):
            if l in dup:
                dup[l].append(i)
            else:
                dup[l] = [i]
                ulits.append(l)
                upos.append(dup[l])
        kk = len(ulits)
        if kk > 12:
            raise T_Unsupported("LUT with %d symbolic inputs" % kk)
        if kk == k and flip == 0 and all(upos[j] == [j] for j in range(kk)):
            vals = table
        else:
            vals = []
            for x in range(1 << kk):
                idx = base
                for j in range(kk):
                    if (x >> j) & 1:
                        for i in upos[j]:
                            idx |= 1 << i
                vals.append(table[idx ^ flip])
        out = []
        ins_t = tuple(ulits)
        tk = (tuple(vals), w)
        tts = _tt_cache.get(tk)
        if tts is None:
            tts = []
            full = (1 << (1 << kk)) - 1
            for bit in range(w):
                tt = 0
                for x, v in enumerate(vals):
                    if (v >> bit) & 1:
                        tt |= 1 << x
                c = tt & 1
                if c:
                    tt ^= full
                tts.append((tt, c))
            if len(_tt_cache) > 100000:
                _tt_cache.clear()
            _tt_cache[tk] = tts
        for tt, c in tts:
            if tt == 0:
                out.append(c)
                continue
            lit = None
            for j in range(kk):     # projection on one input?
                if tt == _VARTT(kk, j):
                    lit = ulits[j]
                    break
            if lit is None:
                lit = self._lut_node(ins_t, tt)
            out.append(lit ^ c)
        return out

    def local_tt(self, lit, U):
        """truth table of literal lit as a function of the positive literals U (tuple), or None if it depends on more"""
        k = len(U)
        full = (1 << (1 << k)) - 1
        if lit <= 1:
            return full if lit else 0
        ck = (lit, U)
        if ck in self._ltt_cache:
            return self._ltt_cache[ck]
        r = self._local_tt(lit, U, k, full)
        if len(self._ltt_cache) > 400000:
            self._ltt_cache.clear()
        self._ltt_cache[ck] = r
        return r

    def _local_tt(self, lit, U, k, full):
        neg = full if lit & 1 else 0
        n = lit >> 1
        if 2 * n in U:
            return _VARTT(k, U.index(2 * n)) ^ neg
        kd = self.kind[n]
        if kd == 5:
            ins, tt = self.lut[n]
            try:
                pos = [U.index(l) for l in ins]
            except ValueError:
                return None
            r = 0
            for x in range(1 << k):
                idx = 0
                for j, pj in enumerate(pos):
                    if (x >> pj) & 1:
                        idx |= 1 << j
                if (tt >> idx) & 1:
                    r |= 1 << x
            return r ^ neg
        if kd == 4:
            r = 0
            for l in self.children(n):
                t = self.local_tt(l, U)
                if t is None:
                    return None
                r ^= t
            return r ^ neg
        return None

    def support_hint(self, lit):
        """small set of positive literals lit is a LUT/XOR function of (None if it is an AND or too wide)"""
        if lit <= 1:
            return ()
        n = lit >> 1
        kd = self.kind[n]
        if kd == 1:
            return (2 * n,)
        if kd == 5:
            return self.lut[n][0]
        if kd == 4:
            out = set()
            for l in self.children(n):
                h = self.support_hint(l)
                if h is None:
                    return None
                out.update(h)
                if len(out) > 12:
                    return None
            return tuple(sorted(out))
        return None

    def mux_select(self, sel, entries):
        """sel: k literals (LSB first); entries: 2^k literals; returns the selected literal.  Canonical mode: when all
        entries are LUT/XOR functions of a small common support, the result is one LUT over support + selector"""
        k = len(sel)
        ck = (tuple(sel), tuple(entries))
        r = self._mux_cache.get(ck)
        if r is None:
            r = self._mux_select(sel, entries)
            if len(self._mux_cache) > 400000:
                self._mux_cache.clear()
            self._mux_cache[ck] = r
        return r

    def _mux_select(self, sel, entries):
        k = len(sel)
        if self.affine and all(s > 1 for s in sel):
            U = set()
            ok = True
            for e in entries:
                h = self.support_hint(e)
                if h is None:
                    ok = False
                    break
                U.update(h)
                if len(U) + k > 12:
                    ok = False
                    break
            if ok:
                U = tuple(sorted(U))
                if not (set(U) & set(s & ~1 for s in sel)):
                    tts = [self.local_tt(e, U) for e in entries]
                    if all(t is not None for t in tts):
                        tk = (tuple(tts), len(U))
                        table = _tt_cache.get(tk)
                        if table is None:
                            table = []
                            for x in range(1 << (len(U) + k)):
                                y, h = x & ((1 << len(U)) - 1), x >> len(U)
                                table.append((tts[h] >> y) & 1)
                            table = tuple(table)
                            _tt_cache[tk] = table
                        return self.lut_bits(list(U) + list(sel), table, 1)[0]
        level = list(entries)
        for c in sel:
            level = [self.MUX(c, level[2 * j + 1], level[2 * j]) for j in range(len(level) // 2)]
        return level[0]

    def AND(self, x, y):
        if x > y:
            x, y = y, x
        if x == 0:
            return 0
        if x == 1:
            return y
        if x == y:
            return x
        if x ^ 1 == y:
            return 0
        key = (2, x, y)
        r = self.hash.get(key)
        if r is None:
            n = len(self.kind)
            self.kind.append(2)
            self.a.append(x)
            self.b.append(y)
            r = 2 * n
            self.hash[key] = r
        return r

    def XOR(self, x, y):
        neg = (x & 1) ^ (y & 1)
        x &= ~1
        y &= ~1
        if x > y:
            x, y = y, x
        if x == 0:
            return y ^ neg
        if x == y:
            return neg
        if self.affine:
            mx, fx = self.form_of(x >> 1)
            my, fy = self.form_of(y >> 1)
            if fx and fy:
                fs = self._merge_luts(fx, fy)
            else:
                fs = fx or fy
            return self.from_form(mx ^ my, fs) ^ neg
        key = (3, x, y)
        r = self.hash.get(key)
        if r is None:
            n = len(self.kind)
            self.kind.append(3)
            self.a.append(x)
            self.b.append(y)
            r = 2 * n
            self.hash[key] = r
        return r ^ neg

    def OR(self, x, y):
        return self.AND(x ^ 1, y ^ 1) ^ 1

    def MUX(self, c, t, e):
        if c == 1:
            return t
        if c == 0:
            return e
        if t == e:
            return t
        # e ^ (c & (t ^ e))
        return self.XOR(e, self.AND(c, self.XOR(t, e)))

    def size(self):
        return len(self.kind)

    def children(self, n):
        """literals a node directly depends on"""
        k = self.kind[n]
        if k in (2, 3):
            return [self.a[n], self.b[n]]
        if k == 4:
            m, fs = self.form[n]
            out = [2 * x for x in fs]
            i = 0
            while m:
                if m & 1:
                    out.append(2 * self.inputs[i])
                m >>= 1
                i += 1
            return out
        if k == 5:
            return list(self.lut[n][0])
        return []


_vartt_cache = {}
_tt_cache = {}


def _VARTT(k, j):
    key = (k, j)
    r = _vartt_cache.get(key)
    if r is None:
        r = 0
        for x in range(1 << k):
            if (x >> j) & 1:
                r |= 1 << x
        _vartt_cache[key] = r
    return r


G = Graph()
T.AIG = __import__('sys').modules[__name__]


def reset(affine=False, canon_sums=False):
    global G
    G = Graph(affine, canon_sums)
    return G


class AV(T.Term):
    """bit-vector as a list of literals (LSB first); subclass of Term so that the
    interpreter's `isinstance(x, Term)` tests treat it as symbolic"""
    __slots__ = ("bits",)

    def __init__(self, bits, sec=True):
        self.op = "aig"
        self.args = ()
        self.w = len(bits)
        self.aux = None
        self.sec = sec
        self.bits = bits


def const_bits(v, w):
    return [(v >> i) & 1 for i in range(w)]


def bits_of(x, w):
    if isinstance(x, AV):
        return x.bits
    return const_bits(x, w)


def mkv(bits):
    # all-constant vectors collapse to ints
    v = 0
    for i, b in enumerate(bits):
        if b > 1:
            return AV(bits)
        v |= b << i
    return v


def var(name, w, secret=True):
    return AV([G.new_input("%s[%d]" % (name, i)) for i in range(w)], secret)


def add_bits(a, b, cin=0):
    out = []
    c = cin
    for x, y in zip(a, b):
        if x > y:
            x, y = y, x
        xy = G.XOR(x, y)
        out.append(G.XOR(xy, c))
        # carry = (x & y) | (c & (x ^ y))
        c = G.OR(G.AND(x, y), G.AND(c, xy))
    return out, c


def add_canonical(a, b, w):
    """canonical mode: modular sums are flattened to (multiset of non-sum operands, constant) and re-added in a fixed
    operand order, so a + (b + c), (a + b) + c and (c + a) + b are the same literals.  The flattening is keyed by the
    result's literals (G.sums), not by the Python object, so values that went through memory keep their form"""
    terms, const = [], 0
    for x in (a, b):
        if not isinstance(x, AV):
            const = (const + x) & ((1 << w) - 1)
            continue
        f = G.sums.get(tuple(x.bits))
        if f is None or len(f[0]) > G.sum_flatten_max:
            # long sums stay atoms: hash functions feed sums into sums round after round, and unbounded flattening
            # would re-add ever longer operand lists
            terms.append(tuple(x.bits))
        else:
            terms.extend(f[0])
            const = (const + f[1]) & ((1 << w) - 1)
    terms.sort()
    # t + t = t << 1 (exactly, mod 2^w): equal operands are folded so that z + z and 2 * z coincide
    i = 0
    while i + 1 < len(terms):
        if terms[i] == terms[i + 1]:
            t2 = (0,) + terms[i][:-1]
            del terms[i:i + 2]
            if any(t2):
                terms.append(t2)
                terms.sort()
            i = 0
        else:
            i += 1
    if not terms:
        return const
    key = (tuple(terms), const)
    r = G.sum_cache.get(key)
    if r is None:
        acc = list(terms[0])
        for t in terms[1:]:
            acc = add_bits(acc, list(t))[0]
        if const:
            acc = add_bits(acc, const_bits(const, w))[0]
        r = tuple(acc)
        G.sum_cache[key] = r
        if len(terms) > 1 or const:
            G.sums.setdefault(r, key)
    return mkv(list(r))


def binop(op, a, b, w):
    ab, bb = bits_of(a, w), bits_of(b, w)
    if op == "and":
        return mkv([G.AND(x, y) for x, y in zip(ab, bb)])
    if op == "or":
        return mkv([G.OR(x, y) for x, y in zip(ab, bb)])
    if op == "xor":
        return mkv([G.XOR(x, y) for x, y in zip(ab, bb)])
    if op == "add":
        if G.canon_sums:
            return add_canonical(a, b, w)
        return mkv(add_bits(ab, bb)[0])
    if op == "sub":
        return mkv(add_bits(ab, [y ^ 1 for y in bb], 1)[0])
    if op in ("shl", "lshr", "ashr"):
        if isinstance(b, AV):
            # barrel shifter
            cur = ab
            for k in range(max(1, (w - 1).bit_length())):
                sh = 1 << k
                if op == "shl":
                    shifted = [0] * min(sh, w) + cur[:max(0, w - sh)]
                elif op == "lshr":
                    shifted = cur[sh:] + [0] * min(sh, w)
                else:
                    shifted = cur[sh:] + [cur[-1]] * min(sh, w)
                cur = [G.MUX(bb[k], s, c) for s, c in zip(shifted, cur)]
            # shift amounts >= w: undefined in LLVM (poison); treated as the low bits only
            return mkv(cur)
        n = b
        if n >= w:
            return 0 if op != "ashr" else mkv([ab[-1]] * w)
        if op == "shl":
            return mkv([0] * n + ab[:w - n])
        if op == "lshr":
            return mkv(ab[n:] + [0] * n)
        return mkv(ab[n:] + [ab[-1]] * n)
    if op == "mul":
        # shift-and-add; cheap when one operand is constant
        if isinstance(a, AV) and not isinstance(b, AV):
            ab, bb, a, b = bb, ab, b, a
        sh = 0
        if isinstance(a, AV) and isinstance(b, AV) and G.canon_sums:
            # canonical form: common powers of two are pulled out ((2x) * y and 2 * (x * y) coincide) and the operand
            # order is fixed (commutativity)
            ab, bb = list(ab), list(bb)
            while ab and ab[0] == 0:
                ab = ab[1:] + [0]
                sh += 1
            while bb and bb[0] == 0:
                bb = bb[1:] + [0]
                sh += 1
            if sh >= w or not any(ab) or not any(bb):
                return 0
            if tuple(ab) > tuple(bb):
                ab, bb = bb, ab
        acc = [0] * w
        for i in range(w):
            if ab[i] == 0:
                continue
            part = [0] * i + [G.AND(ab[i], y) for y in bb[:w - i]]
            acc = add_bits(acc, part)[0]
        if sh:
            acc = [0] * sh + acc[:w - sh]
        return mkv(acc)
    raise T_Unsupported("aig binop " + op)


class T_Unsupported(Exception):
    pass


def icmp(pred, a, b, w):
    ab, bb = bits_of(a, w), bits_of(b, w)
    if pred in ("eq", "ne"):
        d = 0
        for x, y in zip(ab, bb):
            d = G.OR(d, G.XOR(x, y))
        r = d if pred == "ne" else d ^ 1
        return r if r <= 1 else AV([r])
    if pred in ("slt", "sle", "sgt", "sge"):
        ab = ab[:-1] + [ab[-1] ^ 1]
        bb = bb[:-1] + [bb[-1] ^ 1]
        pred = "u" + pred[1:]
    if pred in ("ugt", "ule"):
        ab, bb = bb, ab
        pred = {"ugt": "ult", "ule": "uge"}[pred]
    # a < b  <=>  no carry out of a + ~b + 1
    _, c = add_bits(ab, [y ^ 1 for y in bb], 1)
    lt = c ^ 1
    r = lt if pred == "ult" else lt ^ 1
    return r if r <= 1 else AV([r])


def select(c, a, b, w):
    if not isinstance(c, AV):
        return a if c else b
    cl = c.bits[0]
    return mkv([G.MUX(cl, x, y) for x, y in zip(bits_of(a, w), bits_of(b, w))])


def zext(a, w_from, w_to):
    return mkv(bits_of(a, w_from) + [0] * (w_to - w_from))


def sext(a, w_from, w_to):
    ab = bits_of(a, w_from)
    return mkv(ab + [ab[-1]] * (w_to - w_from))


def extract(a, hi, lo):
    bits = a.bits[lo:hi + 1]
    if lo == 0 and G.canon_sums:
        f = G.sums.get(tuple(a.bits))
        if f is not None:
            # the low k bits of a modular sum are the sum of the operands' low k bits
            k = hi + 1
            G.sums.setdefault(tuple(bits), (tuple(sorted(t[:k] for t in f[0])), f[1] & ((1 << k) - 1)))
    return mkv(bits)


def concat(hi, lo, whi, wlo):
    return mkv(bits_of(lo, wlo) + bits_of(hi, whi))


def fsh(left, a, b, c, w):
    if isinstance(c, AV):
        raise T_Unsupported("funnel shift by symbolic amount")
    c %= w
    ab, bb = bits_of(a, w), bits_of(b, w)
    if c == 0:
        return mkv(ab if left else bb)
    wide = bb + ab  # concat(a, b): b low
    if left:
        return mkv(wide[w - c:2 * w - c])
    return mkv(wide[c:c + w])


# --------------------------------------------------------------------------
def simulate(g, nwords, rnd, patterns=()):
    """random bit-parallel simulation; returns list of ints (one per node), 64*nwords patterns;
    patterns: input-name -> bool dicts placed in the low bits"""
    mask = (1 << (64 * nwords)) - 1
    val = [0] * g.size()
    np_ = len(patterns)

    def lv(l):
        return val[l >> 1] ^ (mask if l & 1 else 0)
    # inputs first (canonical nodes may precede inputs created later)
    nb = 64 * nwords
    third = nb // 3
    m_hi = ((1 << third) - 1) << (nb - third)          # top third: inputs mostly 1 (long carry chains, all-ones words)
    m_lo = ((1 << third) - 1) << (nb - 2 * third)      # middle third: inputs mostly 0
    for n in g.inputs:
        v = rnd.getrandbits(nb)
        b1, b2 = rnd.getrandbits(nb), rnd.getrandbits(nb)
        v = (v & ~(m_hi | m_lo)) | ((v | b1 | b2) & m_hi) | ((v & b1 & b2) & m_lo)
        v |= 1 << (nb - 1)                              # one all-ones and one all-zeros pattern
        v &= ~(1 << (nb - 2))
        if np_:
            nm = g.names.get(n)
            v &= ~((1 << np_) - 1)
            for j, pat in enumerate(patterns):
                if pat.get(nm, False):
                    v |= 1 << j
        val[n] = v
    order = range(2, g.size())
    if g.affine:
        order = topo(g)
    for n in order:
        k = g.kind[n]
        if k == 1:
            continue
        if k == 4:
            v = 0
            for l in g.children(n):
                v ^= val[l >> 1]
            val[n] = v
        elif k == 5:
            ins, tt = g.lut[n]
            level = [mask if (tt >> x) & 1 else 0 for x in range(1 << len(ins))]
            for l in ins:
                c = lv(l)
                nc = c ^ mask
                level = [(c & level[2 * j + 1]) | (nc & level[2 * j]) for j in range(len(level) // 2)]
            val[n] = level[0]
        else:
            x, y = g.a[n], g.b[n]
            vx = val[x >> 1] ^ (mask if x & 1 else 0)
            vy = val[y >> 1] ^ (mask if y & 1 else 0)
            val[n] = (vx & vy) if k == 2 else (vx ^ vy)
    return val, mask


def topo(g):
    """node order in which children precede parents (canonical mode creates nodes out of order)"""
    seen = [False] * g.size()
    out = []
    for r in range(2, g.size()):
        if seen[r]:
            continue
        stack = [(r, 0)]
        while stack:
            n, st = stack.pop()
            if st == 0:
                if seen[n]:
                    continue
                seen[n] = True
                stack.append((n, 1))
                for l in g.children(n):
                    c = l >> 1
                    if c > 1 and not seen[c]:
                        stack.append((c, 0))
            else:
                out.append(n)
    return out


def cone(g, roots, stop=None):
    seen = set()
    stack = [r >> 1 for r in roots if r > 1]
    while stack:
        n = stack.pop()
        if n in seen:
            continue
        seen.add(n)
        if stop is not None and n in stop:
            continue
        for l in g.children(n):
            if l > 1:
                stack.append(l >> 1)
    return seen


def to_cnf(g, lits_true, any_of=(), stop=None):
    """CNF asserting every literal in lits_true and at least one literal of any_of;
    returns (nvars, clauses, varmap node->var).  stop: cut points -- these nodes become free variables (an UNSAT
    answer is still a proof; a model may be spurious)"""
    nodes = sorted(cone(g, list(lits_true) + list(any_of), stop))
    vm = {n: i + 1 for i, n in enumerate(nodes)}

    def L(l):
        v = vm[l >> 1]
        return -v if l & 1 else v
    cl = []
    nextvar = [len(nodes)]

    def xor3(z, x, y):
        cl.append((-z, x, y)); cl.append((-z, -x, -y)); cl.append((z, -x, y)); cl.append((z, x, -y))
    for n in nodes:
        k = g.kind[n]
        if stop is not None and n in stop:
            continue
        if k == 4:
            ins = [vm[l >> 1] for l in g.children(n)]
            acc = ins[0]
            for j, v in enumerate(ins[1:]):
                if j == len(ins) - 2:
                    z = vm[n]
                else:
                    nextvar[0] += 1
                    z = nextvar[0]
                xor3(z, acc, v)
                acc = z
            continue
        if k == 5:
            ins, tt = g.lut[n]
            z = vm[n]
            for x in range(1 << len(ins)):
                c = [(-vm[l >> 1] if (x >> j) & 1 else vm[l >> 1]) for j, l in enumerate(ins)]
                c.append(z if (tt >> x) & 1 else -z)
                cl.append(tuple(c))
            continue
        if k == 2:
            x, y, z = L(g.a[n]), L(g.b[n]), vm[n]
            cl.append((-z, x)); cl.append((-z, y)); cl.append((z, -x, -y))
        elif k == 3:
            x, y, z = L(g.a[n]), L(g.b[n]), vm[n]
            cl.append((-z, x, y)); cl.append((-z, -x, -y)); cl.append((z, -x, y)); cl.append((z, x, -y))
    for l in lits_true:
        if l == 0:
            cl.append(())
        elif l > 1:
            cl.append((L(l),))
    if any_of:
        if not any(l == 1 for l in any_of):
            cl.append(tuple(L(l) for l in any_of if l > 1))
    return nextvar[0], cl, vm
