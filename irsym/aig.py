"""Bit-level XOR-AND graph with structural hashing for irsym's *equiv* mode.

Literals are ints: 0 = false, 1 = true, node n -> 2n (positive) / 2n+1
(negated).  Two kinds of nodes (AND, XOR), both hashed on their normalised
operands, so that two implementations with the same bit-level data flow get
the *same output literals* however differently they are vectorised: extract,
concat, zext/trunc, constant shifts/rotates, shuffles, bitcasts and byte-wise
loads of stored words are pure wiring.  What remains is closed by SAT
(kissat) with simulation-guided sweeping (see equiv.py)."""
import random

from . import terms as T


class Graph(object):
    def __init__(self, affine=False):
        self.kind = [0, 0]      # node 0 reserved (constants); kind: 1 input, 2 and, 3 xor, 4 affine (XOR of a set of inputs)
        self.a = [0, 0]
        self.b = [0, 0]
        self.hash = {}
        self.names = {}
        self.ninputs = 0
        # affine mode: every literal that is a GF(2)-affine function of the inputs is kept in canonical form
        # (bit mask over input indices, constant = literal polarity), so two affine-equal functions are the same
        # literal however they were computed; XOR of non-affine operands falls back to hashed XOR nodes
        self.affine = affine
        self.mask = {}          # node -> int bit mask over input indices (inputs and kind-4 nodes)
        self.inputs = []        # input index -> node
        self.aff_hash = {}      # mask -> node

    def new_input(self, name):
        n = len(self.kind)
        self.kind.append(1)
        self.a.append(0)
        self.b.append(0)
        self.names[n] = name
        if self.affine:
            m = 1 << self.ninputs
            self.mask[n] = m
            self.aff_hash[m] = n
        self.inputs.append(n)
        self.ninputs += 1
        return 2 * n

    def from_mask(self, m):
        """literal of the canonical node for the XOR of the inputs in mask m"""
        if m == 0:
            return 0
        n = self.aff_hash.get(m)
        if n is None:
            n = len(self.kind)
            self.kind.append(4)
            self.a.append(0)
            self.b.append(0)
            self.mask[n] = m
            self.aff_hash[m] = n
        return 2 * n

    def xor_many(self, lits):
        """XOR of many literals; in affine mode affine operands are folded on masks first"""
        if not self.affine:
            r = 0
            for l in lits:
                r = self.XOR(r, l)
            return r
        m, neg, rest = 0, 0, 0
        for l in lits:
            if l <= 1:
                neg ^= l
                continue
            fm = self.mask.get(l >> 1)
            if fm is None:
                rest = self.XOR(rest, l)
            else:
                m ^= fm
                neg ^= l & 1
        r = self.from_mask(m) ^ neg
        return self.XOR(r, rest) if rest else r

    def AND(self, x, y):
        if x > y:
            x, y = y, x
        if x == 0:
            return 0
        if x == 1:
            return y
        if x == y:
            return x
        if x ^ 1 == y:
            return 0
        key = (2, x, y)
        r = self.hash.get(key)
        if r is None:
            n = len(self.kind)
            self.kind.append(2)
            self.a.append(x)
            self.b.append(y)
            r = 2 * n
            self.hash[key] = r
        return r

    def XOR(self, x, y):
        neg = (x & 1) ^ (y & 1)
        x &= ~1
        y &= ~1
        if x > y:
            x, y = y, x
        if x == 0:
            return y ^ neg
        if x == y:
            return neg
        if self.affine:
            mx = self.mask.get(x >> 1)
            if mx is not None:
                my = self.mask.get(y >> 1)
                if my is not None:
                    return self.from_mask(mx ^ my) ^ neg
        key = (3, x, y)
        r = self.hash.get(key)
        if r is None:
            n = len(self.kind)
            self.kind.append(3)
            self.a.append(x)
            self.b.append(y)
            r = 2 * n
            self.hash[key] = r
        return r ^ neg

    def OR(self, x, y):
        return self.AND(x ^ 1, y ^ 1) ^ 1

    def MUX(self, c, t, e):
        if c == 1:
            return t
        if c == 0:
            return e
        if t == e:
            return t
        # e ^ (c & (t ^ e))
        return self.XOR(e, self.AND(c, self.XOR(t, e)))

    def size(self):
        return len(self.kind)


G = Graph()
T.AIG = __import__('sys').modules[__name__]


def reset(affine=False):
    global G
    G = Graph(affine)
    return G


class AV(T.Term):
    """bit-vector as a list of literals (LSB first); subclass of Term so that the
    interpreter's `isinstance(x, Term)` tests treat it as symbolic"""
    __slots__ = ("bits",)

    def __init__(self, bits, sec=True):
        self.op = "aig"
        self.args = ()
        self.w = len(bits)
        self.aux = None
        self.sec = sec
        self.bits = bits


def const_bits(v, w):
    return [(v >> i) & 1 for i in range(w)]


def bits_of(x, w):
    if isinstance(x, AV):
        return x.bits
    return const_bits(x, w)


def mkv(bits):
    # all-constant vectors collapse to ints
    v = 0
    for i, b in enumerate(bits):
        if b > 1:
            return AV(bits)
        v |= b << i
    return v


def var(name, w, secret=True):
    return AV([G.new_input("%s[%d]" % (name, i)) for i in range(w)], secret)


def add_bits(a, b, cin=0):
    out = []
    c = cin
    for x, y in zip(a, b):
        if x > y:
            x, y = y, x
        xy = G.XOR(x, y)
        out.append(G.XOR(xy, c))
        # carry = (x & y) | (c & (x ^ y))
        c = G.OR(G.AND(x, y), G.AND(c, xy))
    return out, c


def binop(op, a, b, w):
    ab, bb = bits_of(a, w), bits_of(b, w)
    if op == "and":
        return mkv([G.AND(x, y) for x, y in zip(ab, bb)])
    if op == "or":
        return mkv([G.OR(x, y) for x, y in zip(ab, bb)])
    if op == "xor":
        return mkv([G.XOR(x, y) for x, y in zip(ab, bb)])
    if op == "add":
        return mkv(add_bits(ab, bb)[0])
    if op == "sub":
        return mkv(add_bits(ab, [y ^ 1 for y in bb], 1)[0])
    if op in ("shl", "lshr", "ashr"):
        if isinstance(b, AV):
            # barrel shifter
            cur = ab
            for k in range(max(1, (w - 1).bit_length())):
                sh = 1 << k
                if op == "shl":
                    shifted = [0] * min(sh, w) + cur[:max(0, w - sh)]
                elif op == "lshr":
                    shifted = cur[sh:] + [0] * min(sh, w)
                else:
                    shifted = cur[sh:] + [cur[-1]] * min(sh, w)
                cur = [G.MUX(bb[k], s, c) for s, c in zip(shifted, cur)]
            # shift amounts >= w: undefined in LLVM (poison); treated as the low bits only
            return mkv(cur)
        n = b
        if n >= w:
            return 0 if op != "ashr" else mkv([ab[-1]] * w)
        if op == "shl":
            return mkv([0] * n + ab[:w - n])
        if op == "lshr":
            return mkv(ab[n:] + [0] * n)
        return mkv(ab[n:] + [ab[-1]] * n)
    if op == "mul":
        # shift-and-add; cheap when one operand is constant
        if isinstance(a, AV) and not isinstance(b, AV):
            ab, bb, a, b = bb, ab, b, a
        acc = [0] * w
        for i in range(w):
            if ab[i] == 0:
                continue
            part = [0] * i + [G.AND(ab[i], y) for y in bb[:w - i]]
            acc = add_bits(acc, part)[0]
        return mkv(acc)
    raise T_Unsupported("aig binop " + op)


class T_Unsupported(Exception):
    pass


def icmp(pred, a, b, w):
    ab, bb = bits_of(a, w), bits_of(b, w)
    if pred in ("eq", "ne"):
        d = 0
        for x, y in zip(ab, bb):
            d = G.OR(d, G.XOR(x, y))
        r = d if pred == "ne" else d ^ 1
        return r if r <= 1 else AV([r])
    if pred in ("slt", "sle", "sgt", "sge"):
        ab = ab[:-1] + [ab[-1] ^ 1]
        bb = bb[:-1] + [bb[-1] ^ 1]
        pred = "u" + pred[1:]
    if pred in ("ugt", "ule"):
        ab, bb = bb, ab
        pred = {"ugt": "ult", "ule": "uge"}[pred]
    # a < b  <=>  no carry out of a + ~b + 1
    _, c = add_bits(ab, [y ^ 1 for y in bb], 1)
    lt = c ^ 1
    r = lt if pred == "ult" else lt ^ 1
    return r if r <= 1 else AV([r])


def select(c, a, b, w):
    if not isinstance(c, AV):
        return a if c else b
    cl = c.bits[0]
    return mkv([G.MUX(cl, x, y) for x, y in zip(bits_of(a, w), bits_of(b, w))])


def zext(a, w_from, w_to):
    return mkv(bits_of(a, w_from) + [0] * (w_to - w_from))


def sext(a, w_from, w_to):
    ab = bits_of(a, w_from)
    return mkv(ab + [ab[-1]] * (w_to - w_from))


def extract(a, hi, lo):
    return mkv(a.bits[lo:hi + 1])


def concat(hi, lo, whi, wlo):
    return mkv(bits_of(lo, wlo) + bits_of(hi, whi))


def fsh(left, a, b, c, w):
    if isinstance(c, AV):
        raise T_Unsupported("funnel shift by symbolic amount")
    c %= w
    ab, bb = bits_of(a, w), bits_of(b, w)
    if c == 0:
        return mkv(ab if left else bb)
    wide = bb + ab  # concat(a, b): b low
    if left:
        return mkv(wide[w - c:2 * w - c])
    return mkv(wide[c:c + w])


# --------------------------------------------------------------------------
def simulate(g, nwords, rnd, patterns=()):
    """random bit-parallel simulation; returns list of ints (one per node), 64*nwords patterns;
    patterns: input-name -> bool dicts placed in the low bits"""
    mask = (1 << (64 * nwords)) - 1
    val = [0] * g.size()
    np_ = len(patterns)
    for n in range(2, g.size()):
        k = g.kind[n]
        if k == 1:
            v = rnd.getrandbits(64 * nwords)
            if np_:
                nm = g.names.get(n)
                v &= ~((1 << np_) - 1)
                for j, pat in enumerate(patterns):
                    if pat.get(nm, False):
                        v |= 1 << j
            val[n] = v
        elif k == 4:
            v, m, i = 0, g.mask[n], 0
            while m:
                if m & 1:
                    v ^= val[g.inputs[i]]
                m >>= 1
                i += 1
            val[n] = v
        else:
            x, y = g.a[n], g.b[n]
            vx = val[x >> 1] ^ (mask if x & 1 else 0)
            vy = val[y >> 1] ^ (mask if y & 1 else 0)
            val[n] = (vx & vy) if k == 2 else (vx ^ vy)
    return val, mask


def cone(g, roots):
    seen = set()
    stack = [r >> 1 for r in roots if r > 1]
    while stack:
        n = stack.pop()
        if n in seen:
            continue
        seen.add(n)
        if g.kind[n] in (2, 3):
            for l in (g.a[n], g.b[n]):
                if l > 1:
                    stack.append(l >> 1)
        elif g.kind[n] == 4:
            m, i = g.mask[n], 0
            while m:
                if m & 1:
                    seen.add(g.inputs[i])
                m >>= 1
                i += 1
    return seen


def to_cnf(g, lits_true, any_of=()):
    """CNF asserting every literal in lits_true and at least one literal of any_of;
    returns (nvars, clauses, varmap node->var)"""
    nodes = sorted(cone(g, list(lits_true) + list(any_of)))
    vm = {n: i + 1 for i, n in enumerate(nodes)}

    def L(l):
        v = vm[l >> 1]
        return -v if l & 1 else v
    cl = []
    nextvar = [len(nodes)]

    def xor3(z, x, y):
        cl.append((-z, x, y)); cl.append((-z, -x, -y)); cl.append((z, -x, y)); cl.append((z, x, -y))
    for n in nodes:
        k = g.kind[n]
        if k == 4:
            # chain of XORs over the inputs of the mask, fresh auxiliary variables
            ins, m, i = [], g.mask[n], 0
            while m:
                if m & 1:
                    ins.append(vm[g.inputs[i]])
                m >>= 1
                i += 1
            acc = ins[0]
            for j, v in enumerate(ins[1:]):
                if j == len(ins) - 2:
                    z = vm[n]
                else:
                    nextvar[0] += 1
                    z = nextvar[0]
                xor3(z, acc, v)
                acc = z
            continue
        if k == 2:
            x, y, z = L(g.a[n]), L(g.b[n]), vm[n]
            cl.append((-z, x)); cl.append((-z, y)); cl.append((z, -x, -y))
        elif k == 3:
            x, y, z = L(g.a[n]), L(g.b[n]), vm[n]
            cl.append((-z, x, y)); cl.append((-z, -x, -y)); cl.append((z, -x, y)); cl.append((z, x, -y))
    for l in lits_true:
        if l == 0:
            cl.append(())
        elif l > 1:
            cl.append((L(l),))
    if any_of:
        if not any(l == 1 for l in any_of):
            cl.append(tuple(L(l) for l in any_of if l > 1))
    return nextvar[0], cl, vm
