"""E2 ring mode: the X25519 Montgomery ladder of the real unit (LLVM IR) against RFC 7748 section 5, for ALL scalars
and ALL u-coordinates, by induction over the loop.

The field kernels of the unit are replaced by exact ring operations on polynomials over GF(2^255-19) (the kernels
themselves are decided by limb mode); the scalar is a vector of symbolic bits (bit-level graph), so the selection bit
of every conditional swap is a literal.  At every loop-iteration boundary (recognised by the first conditional swap of
the iteration) the working state (x2, z2, x3, z3) the code has computed from the previous boundary's state -- four
polynomials of degree <= 8 in (x1, x2, z2, x3, z3, s) -- is compared, as polynomials mod p, with RFC 7748's step
applied to that state, the selection literal is compared with RFC 7748's swap ^ k_t computed from the clamped scalar,
and the state is replaced by fresh variables.  255 identical inductive steps + initialisation + the final swap,
inversion and multiplication cover the whole function.  Separately: fe25519_invert raises to the power p - 2
(exponent arithmetic over the same kernel calls)."""
import json
import os
import sys
import time
import traceback

from . import aig, build, interp, ir, terms as T
from .nonint import _name

P = (1 << 255) - 19


def padd(a, b, sb=1):
    out = dict(a)
    for m, c in b.items():
        v = (out.get(m, 0) + sb * c) % P
        if v:
            out[m] = v
        else:
            out.pop(m, None)
    return out


def pmul(a, b):
    out = {}
    for m1, c1 in a.items():
        for m2, c2 in b.items():
            m = tuple(sorted(m1 + m2))
            v = (out.get(m, 0) + c1 * c2) % P
            if v:
                out[m] = v
            else:
                out.pop(m, None)
    return out


def pconst(c):
    c %= P
    return {(): c} if c else {}


def pvar(n):
    return {(n,): 1}


class RT(T.Term):
    """a field element held in a 40-byte fe25519 object"""
    __slots__ = ("poly",)

    def __init__(self, poly):
        self.op = "ring"
        self.args = ()
        self.w = 320
        self.aux = None
        self.sec = True
        self.poly = poly


class Mismatch(Exception):
    pass


def get_module(workroot, tag, units):
    """build (once, atomically: parallel obligations share the directory) and parse a module"""
    wd = os.path.join(workroot, tag)
    ll = os.path.join(wd, "linked.ll")
    if not os.path.exists(ll):
        tmp = wd + ".tmp%d" % os.getpid()
        build.build_module(tmp, units, opt=build.OPT + ["-fno-inline-functions"])
        try:
            os.rename(tmp, wd)
        except OSError:
            import shutil
            shutil.rmtree(tmp, ignore_errors=True)
    return ir.parse_module(open(ll).read())


X25519_UNITS = ["crypto_scalarmult/curve25519/ref10/x25519_ref10.c", "sodium/utils.c"]
ED25519_UNITS = ["crypto_core/ed25519/ref10/ed25519_ref10.c", "sodium/utils.c"]


def xname(it, base):
    """defined or merely declared (external) function of the module"""
    for cand in ("@" + base, "@_sodium_" + base):
        if cand in it.mod.functions or cand in it.mod.declared:
            return cand
    return _name(it, base)


class Ladder(object):
    def __init__(self, it, scalar_bits):
        self.it = it
        self.kbits = scalar_bits        # clamped per RFC 7748 by the *specification* side (list of 255 literals, bit 0 first)
        self.calls = 0
        self.ptrs = {}
        self.prev = None                # state at the previous boundary (polys) and its selection variable
        self.swap_lit = 0               # RFC 7748's `swap` literal
        self.fresh = 0
        self.inv_arg = None
        self.result = None
        self.steps_checked = 0
        self.x1 = pvar("U")

    # ---- memory helpers ----
    def get(self, p):
        cell = self.it.objs[p.obj].bytes.get(p.off)
        if isinstance(cell, tuple) and isinstance(cell[0], RT) and cell[1] == 0:
            return cell[0].poly
        raise Mismatch("field element expected at %r" % (p,))

    def put(self, p, poly):
        self.it.store_bytes(p, RT(poly), 40, "ring")

    # ---- RFC 7748 ----
    def spec_step(self, st, sel):
        x2, z2, x3, z3 = st
        if sel is not None:
            x2, x3 = self.cswap_poly(x2, x3, sel)
            z2, z3 = self.cswap_poly(z2, z3, sel)
        A = padd(x2, z2); AA = pmul(A, A); B = padd(x2, z2, -1); BB = pmul(B, B); E = padd(AA, BB, -1)
        Cc = padd(x3, z3); D = padd(x3, z3, -1); DA = pmul(D, A); CB = pmul(Cc, B)
        t = padd(DA, CB); nx3 = pmul(t, t)
        t = padd(DA, CB, -1); nz3 = pmul(self.x1, pmul(t, t))
        nx2 = pmul(AA, BB)
        nz2 = pmul(E, padd(AA, pmul(pconst(121665), E)))
        return [nx2, nz2, nx3, nz3]

    @staticmethod
    def cswap_poly(a, b, sel):
        if sel == 0:
            return a, b
        if sel == 1:
            return b, a
        s = pvar(sel)
        d = pmul(s, padd(b, a, -1))
        return padd(a, d), padd(b, d, -1)

    def sel_of(self, b):
        """selection argument of fe25519_cswap -> 0 / 1 / name of the literal"""
        if isinstance(b, aig.AV):
            if any(l > 1 for l in b.bits[1:]):
                raise Mismatch("conditional swap selector has more than one live bit")
            l = b.bits[0]
        else:
            l = b & 1
            if b >> 1:
                raise Mismatch("conditional swap selector is not 0/1")
        return l

    def lit_name(self, l):
        return l if l <= 1 else "s%d" % l

    # ---- stubs ----
    def boundary(self, f, g, sel_lit):
        k = self.calls // 2
        if k == 0:
            self.ptrs["x2"], self.ptrs["x3"] = f, g
        cur = None
        if k >= 1:
            cur = [self.get(self.ptrs[n]) for n in ("x2", "z2", "x3", "z3")]
            exp = self.spec_step(self.prev[0], self.prev[1])
            for nm, a, b in zip(("x2", "z2", "x3", "z3"), cur, exp):
                if a != b:
                    raise Mismatch("ladder step %d: %s differs from RFC 7748's step (as polynomials over GF(2^255-19))" % (k, nm))
            self.steps_checked += 1
        # RFC 7748: swap ^= k_t for t = 254 - k (loop) ; after the loop the pending swap is applied as is
        if k < 255:
            kt = self.kbits[254 - k]
            self.swap_lit = aig.G.XOR(self.swap_lit, kt)
            want = self.swap_lit
            self.swap_lit = kt
        else:
            want = self.swap_lit
        if sel_lit != want:
            raise Mismatch("boundary %d: the swap selector is not RFC 7748's swap ^ k_t of the clamped scalar" % k)
        return cur

    def cswap(self, it, args):
        f, g, b = args
        sel_lit = self.sel_of(b)
        first = self.calls % 2 == 0
        k = self.calls // 2
        if first:
            self.boundary(f, g, sel_lit)
            self.pending = (f, g, sel_lit)
        else:
            if k == 0:
                self.ptrs["z2"], self.ptrs["z3"] = f, g
            if sel_lit != self.pending[2]:
                raise Mismatch("the two conditional swaps of one iteration use different selectors")
            # both swaps of the iteration seen: re-abstract the state, then apply the swaps
            names = ("x2", "z2", "x3", "z3")
            if k == 0:
                st = [self.get(self.ptrs[n]) for n in names]
                init = [pconst(1), pconst(0), self.x1, pconst(1)]
                if st != init:
                    raise Mismatch("initial state is not (1, 0, u, 1)")
            else:
                self.fresh += 1
                st = [pvar("%s_%d" % (n.upper(), self.fresh)) for n in names]
            sel = self.lit_name(sel_lit)
            self.prev = (st, None if sel == 0 else sel)
            x2, x3 = self.cswap_poly(st[0], st[2], sel)
            z2, z3 = self.cswap_poly(st[1], st[3], sel)
            for n, v in zip(names, (x2, z2, x3, z3)):
                self.put(self.ptrs[n], v)
        self.calls += 1
        return None

    def install(self):
        it = self.it
        N = lambda n: xname(it, n)
        it.stubs[N("fe25519_cswap")] = self.cswap
        it.stubs[N("fe25519_frombytes")] = lambda it_, a: self.put(a[0], self.x1)
        it.stubs[N("fe25519_1")] = lambda it_, a: self.put(a[0], pconst(1))
        it.stubs[N("fe25519_0")] = lambda it_, a: self.put(a[0], pconst(0))
        it.stubs[N("fe25519_copy")] = lambda it_, a: self.put(a[0], self.get(a[1]))
        it.stubs[N("fe25519_add")] = lambda it_, a: self.put(a[0], padd(self.get(a[1]), self.get(a[2])))
        it.stubs[N("fe25519_sub")] = lambda it_, a: self.put(a[0], padd(self.get(a[1]), self.get(a[2]), -1))
        it.stubs[N("fe25519_mul")] = lambda it_, a: self.put(a[0], pmul(self.get(a[1]), self.get(a[2])))
        it.stubs[N("fe25519_sq")] = lambda it_, a: self.put(a[0], pmul(self.get(a[1]), self.get(a[1])))
        # fe25519_mul32 is specialised by the compiler to its only constant argument: the constant is read off the
        # compiled function itself (run concretely on the field element 1) before it is replaced by the ring operation
        m32 = N("fe25519_mul32")
        one = it.new_buffer(40, "one", False, [1] + [0] * 39)
        res = it.new_buffer(40, "res", False, [0] * 40)
        it.call(m32, [res, one, 121666])
        limbs = [it.load_bytes(interp.Ptr(res.obj, res.off + 8 * i), 8, "const") for i in range(5)]
        self.a24x = sum(int(v) << (51 * i) for i, v in enumerate(limbs)) % P
        it.stubs[m32] = lambda it_, a: self.put(a[0], pmul(self.get(a[1]), pconst(self.a24x)))
        it.stubs[N("fe25519_invert")] = self.invert
        it.stubs[N("fe25519_tobytes")] = self.tobytes
        it.stubs[N("has_small_order")] = lambda it_, a: 0

    def invert(self, it, a):
        self.inv_arg = self.get(a[1])
        self.put(a[0], pvar("INV"))

    def tobytes(self, it, a):
        self.result = self.get(a[1])

    def finish(self):
        if self.calls != 512:
            raise Mismatch("expected 256 pairs of conditional swaps (255 iterations + the final one), saw %d calls" % self.calls)
        st, sel = self.prev
        x2, _ = self.cswap_poly(st[0], st[2], sel if sel is not None else 0)
        z2, _ = self.cswap_poly(st[1], st[3], sel if sel is not None else 0)
        if self.inv_arg != z2:
            raise Mismatch("the inverted value is not z2 after the final swap")
        if self.result != pmul(x2, pvar("INV")):
            raise Mismatch("the output is not x2 * z2^-1 after the final swap")


def mulmod_mod(mod):
    """the multiplication constant the compiled fe25519_mul32 was specialised to (interprocedural constant propagation)"""
    for name, fn in mod.functions.items():
        if name.startswith("@fe25519_mul32"):
            return len(fn.params)
    return None


def check_ladder(workroot):
    mod = get_module(workroot, "ladder-x25519", X25519_UNITS)
    T.MODE = "aig"
    aig.reset()
    it = interp.Interp(mod, None)
    n_bytes = [aig.var("n%d" % i, 8) for i in range(32)]
    # RFC 7748 decodeScalar25519: k[0] &= 248; k[31] &= 127; k[31] |= 64
    kb = []
    for t in range(255):
        l = n_bytes[t // 8].bits[t % 8]
        if t < 3:
            l = 0
        if t == 254:
            l = 1
        kb.append(l)
    lad = Ladder(it, kb)
    lad.install()
    q = it.new_buffer(32, "q", False, [0] * 32)
    n = it.new_buffer(32, "n", False, [0] * 32)
    b = it.objs[n.obj].bytes
    for i, v in enumerate(n_bytes):
        b[n.off + i] = (v, 0)
    p = it.new_buffer(32, "p", False, [9] + [0] * 31)
    r = it.call(_name(it, "crypto_scalarmult_curve25519_ref10"), [q, n, p])
    if r != 0:
        raise Mismatch("return value %r" % (r,))
    lad.finish()
    return dict(steps_checked=lad.steps_checked, ir_steps=it.steps, swaps=lad.calls)


def check_invert(workroot):
    """fe25519_invert(out, z) == z^(p-2): the kernel calls are interpreted on exponents of z"""
    mod = get_module(workroot, "ladder-ed25519", ED25519_UNITS)
    T.MODE = "term"
    it = interp.Interp(mod, None)

    class E(T.Term):
        __slots__ = ("e",)

        def __init__(self, e):
            self.op = "exp"; self.args = (); self.w = 320; self.aux = None; self.sec = True; self.e = e

    def get(p):
        cell = it.objs[p.obj].bytes.get(p.off)
        if isinstance(cell, tuple) and isinstance(cell[0], E):
            return cell[0].e
        raise Mismatch("exponent value expected")

    def put(p, e):
        it.store_bytes(p, E(e), 40, "exp")
    N = lambda nm: xname(it, nm)
    it.stubs[N("fe25519_mul")] = lambda it_, a: put(a[0], get(a[1]) + get(a[2]))
    it.stubs[N("fe25519_sq")] = lambda it_, a: put(a[0], 2 * get(a[1]))
    it.stubs[N("fe25519_copy")] = lambda it_, a: put(a[0], get(a[1]))
    z = it.new_buffer(40, "z", False, [0] * 40)
    out = it.new_buffer(40, "out", False, [0] * 40)
    put(z, 1)
    it.call(N("fe25519_invert"), [out, z])
    e = get(out)
    if e != P - 2:
        raise Mismatch("fe25519_invert computes z^%d, not z^(p-2)" % e)
    return dict(exponent="p-2", ir_steps=it.steps)


def check_sc_invert(workroot):
    """sc25519_invert(recip, s) == s^(L-2) mod L: sc25519_mul / sc25519_sq are interpreted on exponents of s (the helper
    sc25519_sqmul runs as real code on top of them)"""
    L = (1 << 252) + 27742317777372353535851937790883648493
    mod = get_module(workroot, "ladder-ed25519", ED25519_UNITS)
    T.MODE = "term"
    it = interp.Interp(mod, None)

    class E(T.Term):
        __slots__ = ("e",)

        def __init__(self, e):
            self.op = "exp"; self.args = (); self.w = 256; self.aux = None; self.sec = True; self.e = e

    def get(p):
        cell = it.objs[p.obj].bytes.get(p.off)
        if isinstance(cell, tuple) and isinstance(cell[0], E):
            return cell[0].e
        raise Mismatch("exponent value expected")

    def put(p, e):
        it.store_bytes(p, E(e), 32, "exp")
    N = lambda nm: xname(it, nm)
    it.stubs[N("sc25519_mul")] = lambda it_, a: put(a[0], get(a[1]) + get(a[2]))
    it.stubs[N("sc25519_sq")] = lambda it_, a: put(a[0], 2 * get(a[1]))
    z = it.new_buffer(32, "s", False, [0] * 32)
    out = it.new_buffer(32, "recip", False, [0] * 32)
    put(z, 1)
    it.call(N("sc25519_invert"), [out, z])
    e = get(out)
    if e != L - 2:
        raise Mismatch("sc25519_invert computes s^%d, not s^(L-2)" % e)
    return dict(exponent="L-2", ir_steps=it.steps)


class _Done(Exception):
    pass


def check_bounds(workroot):
    """limb bounds along the ladder (inductive): with every limb of the working state at most TIGHT at an iteration
    boundary, one whole iteration of the REAL kernels (limb mode: polynomials + intervals) never wraps a machine word
    and ends with every limb of the state at most TIGHT again; the initial state satisfies the bound"""
    from . import limb
    TIGHT = (1 << 51) + (1 << 13)
    mod = get_module(workroot, "ladder-x25519", X25519_UNITS)
    T.MODE = "term"
    limb.reset()
    it = interp.Interp(mod, None)
    state = {"calls": 0, "ptrs": [], "fresh": 0, "worst": 0}

    def limbs_of(p):
        return [limb.lift(it.load_bytes(interp.Ptr(p.obj, p.off + 8 * i), 8, "bounds"), 64) for i in range(5)]

    def set_fresh(p, tag):
        state["fresh"] += 1
        for i in range(5):
            it.store_bytes(interp.Ptr(p.obj, p.off + 8 * i), limb.var("%s%d_%d" % (tag, state["fresh"], i), 64, 0, TIGHT), 8, "bounds")

    def cswap(it_, a):
        f, g = a[0], a[1]
        k = state["calls"] // 2
        if k <= 1:
            if state["calls"] % 2 == 0 and k == 0:
                state["ptrs"] = [f, g]
            elif k == 0:
                state["ptrs"] += [f, g]
        if state["calls"] % 2 == 0 and k >= 1:
            for p in state["ptrs"]:
                for x in limbs_of(p):
                    if x.mod or x.lo < 0 or x.hi > TIGHT:
                        raise Mismatch("limb bound not re-established at the iteration boundary: [%d, %d] > %d" % (x.lo, x.hi, TIGHT))
                    state["worst"] = max(state["worst"], x.hi)
            if k == 2:
                raise _Done()
        if state["calls"] % 2 == 1:
            # both swaps seen: continue from an arbitrary state within the bound (a swap only exchanges the elements)
            for j, p in enumerate(state["ptrs"]):
                set_fresh(p, "s%d_" % j)
        state["calls"] += 1
        return None
    N = lambda n: xname(it, n)
    it.stubs[N("fe25519_cswap")] = cswap
    it.stubs[N("has_small_order")] = lambda it_, a: 0

    def frombytes(it_, a):
        # fe25519_frombytes yields limbs below 2^51 (C05 fe-bytes obligation)
        for i in range(5):
            it.store_bytes(interp.Ptr(a[0].obj, a[0].off + 8 * i), limb.var("u%d" % i, 64, 0, (1 << 51) - 1), 8, "bounds")
    it.stubs[N("fe25519_frombytes")] = frombytes
    q = it.new_buffer(32, "q", False, [0] * 32)
    n = it.new_buffer(32, "n", False, [0x40] * 32)
    p = it.new_buffer(32, "p", False, [9] + [0] * 31)
    try:
        it.call(_name(it, "crypto_scalarmult_curve25519_ref10"), [q, n, p])
        raise Mismatch("the ladder finished before two iteration boundaries were seen")
    except _Done:
        pass
    if limb.C.wraps:
        raise Mismatch("a kernel may wrap a machine word inside a ladder step: %r" % (limb.C.wraps[:2],))
    return dict(iterations_checked=2, worst_boundary_limb=hex(state["worst"]), bound=hex(TIGHT), ir_steps=it.steps)


def run(which, workroot):
    res = {"target": which, "status": "inconclusive", "detail": "", "wall_s": 0.0}
    t0 = time.time()
    try:
        info = {"x25519-ladder-rfc7748": check_ladder, "x25519-invert": check_invert, "x25519-ladder-bounds": check_bounds, "sc25519-invert": check_sc_invert}[which](workroot)
        res.update(info)
        res["status"] = "ok"
    except Mismatch as e:
        res["status"] = "violation"
        res["detail"] = str(e)
    except (interp.Unsupported, interp.Violation, build.IRBuildError, SyntaxError, KeyError) as e:
        res["detail"] = "%s: %s" % (type(e).__name__, str(e)[:500])
    except Exception:
        res["detail"] = "exception: " + traceback.format_exc()[-900:]
    res["wall_s"] = round(time.time() - t0, 2)
    return res


if __name__ == "__main__":
    print(json.dumps(run(sys.argv[1], sys.argv[2]), default=str))
