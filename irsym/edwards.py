"""E2 ring mode: the Edwards25519 group operations of ed25519_ref10.c (LLVM IR) against the twisted Edwards addition law
-x^2 + y^2 = 1 + d x^2 y^2, d = -121665/121666, as polynomial identities over GF(2^255-19).

The field kernels (decided by limb mode) are exact ring operations on polynomials; a projective input point is
(x Z : y Z : Z : x y Z) for affine variables x, y and an arbitrary Z, so every representation is covered.  For each
operation the output (completed P1xP1 point (X:Y:Z:T) with x3 = X/Z, y3 = Y/T, or P2/P3 point) is compared with the
affine law by cross-multiplication:
   addition    x3 (1 + d x1 x2 y1 y2) = x1 y2 + y1 x2,   y3 (1 - d x1 x2 y1 y2) = y1 y2 + x1 x2      (identically)
   doubling    x3 (y1^2 - x1^2) = 2 x1 y1,   y3 (2 - y1^2 + x1^2) = y1^2 + x1^2   (the law for points ON the curve, where
               1 + d x^2 y^2 = y^2 - x^2; this is the form dbl-2008-hwcd implements)
   conversions keep the affine point and establish T Z = X Y."""
import json
import os
import sys
import time
import traceback

from . import build, interp, ir, terms as T
from .ladder import P, RT, Mismatch, padd, pmul, pconst, pvar, xname

D = (-121665 * pow(121666, P - 2, P)) % P


class Env(object):
    def __init__(self, it):
        self.it = it
        N = lambda n: xname(it, n)
        g, p = self.get, self.put
        it.stubs[N("fe25519_add")] = lambda it_, a: p(a[0], padd(g(a[1]), g(a[2])))
        it.stubs[N("fe25519_sub")] = lambda it_, a: p(a[0], padd(g(a[1]), g(a[2]), -1))
        it.stubs[N("fe25519_mul")] = lambda it_, a: p(a[0], pmul(g(a[1]), g(a[2])))
        it.stubs[N("fe25519_sq")] = lambda it_, a: p(a[0], pmul(g(a[1]), g(a[1])))
        it.stubs[N("fe25519_sq2")] = lambda it_, a: p(a[0], pmul(pconst(2), pmul(g(a[1]), g(a[1]))))
        it.stubs[N("fe25519_neg")] = lambda it_, a: p(a[0], padd({}, g(a[1]), -1))
        it.stubs[N("fe25519_copy")] = lambda it_, a: p(a[0], g(a[1]))
        it.stubs[N("fe25519_1")] = lambda it_, a: p(a[0], pconst(1))
        it.stubs[N("fe25519_0")] = lambda it_, a: p(a[0], pconst(0))

    def get(self, ptr):
        b = self.it.objs[ptr.obj].bytes
        cell = b.get(ptr.off)
        if isinstance(cell, tuple) and isinstance(cell[0], RT) and cell[1] == 0:
            return cell[0].poly
        # a constant field element of the unit (e.g. 2d): 5 concrete 51-bit limbs
        limbs = []
        for i in range(5):
            v = self.it.load_bytes(interp.Ptr(ptr.obj, ptr.off + 8 * i), 8, "const")
            if isinstance(v, T.Term):
                raise Mismatch("field element expected")
            limbs.append(v)
        return pconst(sum(v << (51 * i) for i, v in enumerate(limbs)))

    def put(self, ptr, poly):
        self.it.store_bytes(ptr, RT(poly), 40, "ring")

    def struct(self, name, fields):
        buf = self.it.new_buffer(40 * len(fields), name, False, [0] * (40 * len(fields)))
        for i, f in enumerate(fields):
            if f is not None:
                self.put(interp.Ptr(buf.obj, buf.off + 40 * i), f)
        return buf

    def fields(self, buf, n):
        return [self.get(interp.Ptr(buf.obj, buf.off + 40 * i)) for i in range(n)]


def eq(a, b, what):
    if padd(a, b, -1):
        raise Mismatch(what)


def point(tag):
    """projective point (x Z, y Z, Z, x y Z) and its affine coordinates"""
    x, y, z = pvar("x" + tag), pvar("y" + tag), pvar("Z" + tag)
    return (pmul(x, z), pmul(y, z), z, pmul(pmul(x, y), z)), (x, y)


def check_add_law(X, Y, Z, Tt, a1, a2, sub=False):
    (x1, y1), (x2, y2) = a1, a2
    if sub:
        x2 = padd({}, x2, -1)
    dxxyy = pmul(pconst(D), pmul(pmul(x1, x2), pmul(y1, y2)))
    eq(pmul(X, padd(pconst(1), dxxyy)), pmul(Z, padd(pmul(x1, y2), pmul(y1, x2))), "x-coordinate of the sum does not satisfy the addition law")
    eq(pmul(Y, padd(pconst(1), dxxyy, -1)), pmul(Tt, padd(pmul(y1, y2), pmul(x1, x2))), "y-coordinate of the sum does not satisfy the addition law")


def check_dbl_law(X, Y, Z, Tt, a1):
    x1, y1 = a1
    xx, yy = pmul(x1, x1), pmul(y1, y1)
    eq(pmul(X, padd(yy, xx, -1)), pmul(Z, pmul(pconst(2), pmul(x1, y1))), "x-coordinate of the double does not satisfy the doubling law")
    eq(pmul(Y, padd(padd(pconst(2), yy, -1), xx)), pmul(Tt, padd(yy, xx)), "y-coordinate of the double does not satisfy the doubling law")


def run_case(which, workroot):
    from .ladder import get_module, ED25519_UNITS
    mod = get_module(workroot, "ladder-ed25519", ED25519_UNITS)
    T.MODE = "term"
    it = interp.Interp(mod, None)
    env = Env(it)
    N = lambda n: xname(it, n)
    (P1, a1), (P2, a2) = point("1"), point("2")
    x2, y2 = a2
    d2 = pconst(2 * D)
    if which in ("add_cached", "sub_cached"):
        p = env.struct("p", P1)
        q = env.struct("q", [padd(P2[1], P2[0]), padd(P2[1], P2[0], -1), P2[2], pmul(d2, P2[3])])
        r = env.struct("r", [None] * 4)
        it.call(N("ge25519_" + which), [r, p, q])
        X, Y, Z, Tt = env.fields(r, 4)
        check_add_law(X, Y, Z, Tt, a1, a2, sub=which.startswith("sub"))
    elif which in ("add_precomp", "sub_precomp"):
        p = env.struct("p", P1)
        q = env.struct("q", [padd(y2, x2), padd(y2, x2, -1), pmul(d2, pmul(x2, y2))])
        r = env.struct("r", [None] * 4)
        it.call(N("ge25519_" + which), [r, p, q])
        X, Y, Z, Tt = env.fields(r, 4)
        check_add_law(X, Y, Z, Tt, a1, a2, sub=which.startswith("sub"))
    elif which == "p2_dbl":
        p = env.struct("p", P1[:3])
        r = env.struct("r", [None] * 4)
        it.call(N("ge25519_p2_dbl"), [r, p])
        X, Y, Z, Tt = env.fields(r, 4)
        check_dbl_law(X, Y, Z, Tt, a1)
    elif which == "p3_dbl":
        p = env.struct("p", P1)
        r = env.struct("r", [None] * 4)
        it.call(N("ge25519_p3_dbl"), [r, p])
        X, Y, Z, Tt = env.fields(r, 4)
        check_dbl_law(X, Y, Z, Tt, a1)
    elif which in ("p1p1_to_p3", "p1p1_to_p2"):
        c = [pvar("X"), pvar("Y"), pvar("Z"), pvar("T")]
        p = env.struct("p", c)
        n = 4 if which.endswith("p3") else 3
        r = env.struct("r", [None] * n)
        it.call(N("ge25519_" + which), [r, p])
        f = env.fields(r, n)
        # affine point x = X/Z, y = Y/T is kept: X3/Z3 = X/Z, Y3/Z3 = Y/T
        eq(pmul(f[0], c[2]), pmul(f[2], c[0]), "conversion changes the x-coordinate")
        eq(pmul(f[1], c[3]), pmul(f[2], c[1]), "conversion changes the y-coordinate")
        if n == 4:
            eq(pmul(f[3], f[2]), pmul(f[0], f[1]), "conversion does not establish T Z = X Y")
    elif which == "p3_to_cached":
        p = env.struct("p", P1)
        r = env.struct("r", [None] * 4)
        it.call(N("ge25519_p3_to_cached"), [r, p])
        f = env.fields(r, 4)
        eq(f[0], padd(P1[1], P1[0]), "cached Y+X")
        eq(f[1], padd(P1[1], P1[0], -1), "cached Y-X")
        eq(f[2], P1[2], "cached Z")
        eq(f[3], pmul(d2, P1[3]), "cached 2dT (the unit's curve constant must be 2d = -2*121665/121666)")
    elif which == "p3_to_p2":
        p = env.struct("p", P1)
        r = env.struct("r", [None] * 3)
        it.call(N("ge25519_p3_to_p2"), [r, p])
        f = env.fields(r, 3)
        for i in range(3):
            eq(f[i], P1[i], "p3_to_p2 coordinate %d" % i)
    elif which == "p3_0":
        r = env.struct("r", [None] * 4)
        it.call(N("ge25519_p3_0"), [r])
        f = env.fields(r, 4)
        if f != [pconst(0), pconst(1), pconst(1), pconst(0)]:
            raise Mismatch("neutral element is not (0 : 1 : 1 : 0)")
    elif which == "has_small_order":
        # ge25519_has_small_order(P) on a point as ge25519_frombytes produces it (Z = 1, T = x y): the function tests four
        # field elements for zero and ORs the answers.  (a) the four tested elements, as polynomials in the affine x, y:
        # their product must be  x y (x^2 + y^2)  up to sign (with sqrtm1^2 = -1): on the curve, x = 0 <=> order 1 or 2,
        # y = 0 <=> order 4, x^2 = -y^2 <=> order 8 -- i.e. x(4P) = 0 (doubling law: x(2P) ~ 2xy, y(2P) ~ x^2 + y^2);
        # (b) the combination: for each of the 16 patterns of zero-test answers the function returns their OR.
        x, y = pvar("x"), pvar("y")
        want = pmul(pmul(x, y), padd(pmul(x, x), pmul(y, y)))
        tested_ref = None
        for pattern in range(16):
            it = interp.Interp(mod, None)
            env = Env(it)
            N = lambda n: xname(it, n)
            tested = []

            def inv(it_, a, env=env):
                if env.get(a[1]) != pconst(1):
                    raise Mismatch("fe25519_invert of something other than Z = 1")
                env.put(a[0], pconst(1))

            def iszero(it_, a, env=env, tested=tested, pattern=pattern):
                tested.append(env.get(a[0]))
                return (pattern >> (len(tested) - 1)) & 1
            it.stubs[N("fe25519_invert")] = inv
            it.stubs[N("fe25519_iszero")] = iszero
            pt = env.struct("p", [x, y, pconst(1), pmul(x, y)])
            r = it.call(N("ge25519_has_small_order"), [pt])
            if len(tested) != 4:
                raise Mismatch("expected four zero tests, saw %d" % len(tested))
            if (r & 0xffffffff) != (1 if pattern else 0):
                raise Mismatch("zero-test answers %s give %r, not their OR" % (bin(pattern), r))
            if tested_ref is None:
                tested_ref = tested
            elif tested != tested_ref:
                raise Mismatch("the tested field elements depend on earlier answers")
        prod = pconst(1)
        for t in tested_ref:
            prod = pmul(prod, t)
        if padd(prod, want, -1) and padd(prod, want):
            raise Mismatch("the four tested field elements are not x, y and the two factors of x^2 + y^2 (product %r ...)" % (sorted(prod.items())[:3],))
        if not all(any(not padd(t, c, sg) for t in tested_ref for sg in (-1, 1)) for c in (x, y)):
            raise Mismatch("x and y themselves are not among the tested field elements")
        return dict(ir_steps=it.steps, tested=4)
    else:
        raise KeyError(which)
    return dict(ir_steps=it.steps)


CASES = ["add_cached", "sub_cached", "add_precomp", "sub_precomp", "p2_dbl", "p3_dbl", "p1p1_to_p3", "p1p1_to_p2", "p3_to_cached", "p3_to_p2", "p3_0", "has_small_order"]


def run(which, workroot):
    res = {"target": "edwards-" + which, "status": "inconclusive", "detail": "", "wall_s": 0.0}
    t0 = time.time()
    try:
        res.update(run_case(which, workroot))
        res["status"] = "ok"
    except Mismatch as e:
        res["status"] = "violation"
        res["detail"] = str(e)
    except (interp.Unsupported, interp.Violation, build.IRBuildError, SyntaxError, KeyError) as e:
        res["detail"] = "%s: %s" % (type(e).__name__, str(e)[:500])
    except Exception:
        res["detail"] = "exception: " + traceback.format_exc()[-900:]
    res["wall_s"] = round(time.time() - t0, 2)
    return res


if __name__ == "__main__":
    for c in (CASES if sys.argv[1] == "all" else [sys.argv[1]]):
        print(json.dumps(run(c, sys.argv[2]), default=str))
