"""C11 non-interference obligations for irsym: one obligation = one entry
point at fixed public parameters (lengths, block sizes, public inputs), all
secret bytes symbolic.  Decided by symbolic execution of clang-14 -O1 LLVM IR of
the real units with z3 behind every non-concrete observation."""
import os
import sys
import time
import traceback

from . import build, interp, ir, terms as T

BASEPOINT = [9] + [0] * 31


def _z3():
    import z3
    return z3


# ---- target table --------------------------------------------------------
# each target: name, units, undefs, entry, params(list of dict), setup(it, p) -> args, post(optional)
def t_buf2(entry):
    def setup(it, p):
        n = p["len"]
        return [it.new_buffer(n, "a", True), it.new_buffer(n, "b", True), n]
    return setup


def t_verify(it, p):
    n = p["n"]
    return [it.new_buffer(n, "x", True), it.new_buffer(n, "y", True)]


def t_is_zero(it, p):
    return [it.new_buffer(p["len"], "a", True), p["len"]]


def t_increment(it, p):
    return [it.new_buffer(p["len"], "a", True), p["len"]]


def t_bin2hex(it, p):
    n = p["len"]
    return [it.new_buffer(2 * n + 1, "hex", False, [0] * (2 * n + 1)), 2 * n + 1, it.new_buffer(n, "bin", True), n]


def t_bin2base64(it, p):
    n, v = p["len"], p["variant"]
    need = ((n + 2) // 3) * 4 + 1
    return [it.new_buffer(need, "b64", False, [0] * need), need, it.new_buffer(n, "bin", True), n, v]


def t_unpad(it, p):
    return [it.new_buffer(8, "outlen", False, [0] * 8), it.new_buffer(p["len"], "buf", True), p["len"], p["bs"]]


def t_stream_xor_ic(it, p):
    n = p["len"]
    return [it.new_buffer(n, "c", False, [0] * n), it.new_buffer(n, "m", True), n,
            it.new_buffer(p.get("nlen", 8), "nonce", False, list(range(1, p.get("nlen", 8) + 1))), 7, it.new_buffer(32, "key", True)]


def t_onetimeauth(it, p):
    n = p["len"]
    return [it.new_buffer(16, "out", False, [0] * 16), it.new_buffer(n, "m", True), n, it.new_buffer(32, "key", True)]


def t_hash(outlen):
    def setup(it, p):
        n = p["len"]
        return [it.new_buffer(outlen, "out", False, [0] * outlen), it.new_buffer(n, "m", True), n]
    return setup


def t_generichash(it, p):
    n = p["len"]
    return [it.new_buffer(32, "out", False, [0] * 32), 32, it.new_buffer(n, "m", True), n, it.new_buffer(32, "key", True), 32]


def t_shorthash(it, p):
    n = p["len"]
    return [it.new_buffer(p["out"], "out", False, [0] * p["out"]), it.new_buffer(n, "m", True), n, it.new_buffer(16, "key", True)]


def t_x25519(it, p):
    return [it.new_buffer(32, "q", False, [0] * 32), it.new_buffer(32, "n", True), it.new_buffer(32, "p", False, BASEPOINT)]


def t_x25519_base(it, p):
    return [it.new_buffer(32, "q", False, [0] * 32), it.new_buffer(32, "n", True)]


def t_sc_reduce(it, p):
    return [it.new_buffer(64, "s", True)]


def t_sc_muladd(it, p):
    return [it.new_buffer(32, "s", False, [0] * 32), it.new_buffer(32, "a", True), it.new_buffer(32, "b", True), it.new_buffer(32, "c", True)]


def t_sc_mul(it, p):
    return [it.new_buffer(32, "s", False, [0] * 32), it.new_buffer(32, "a", True), it.new_buffer(32, "b", True)]


def t_sc_invert(it, p):
    return [it.new_buffer(32, "recip", False, [0] * 32), it.new_buffer(32, "s", True)]


def t_core_scalar2(it, p):
    return [it.new_buffer(32, "z", False, [0] * 32), it.new_buffer(32, "x", True), it.new_buffer(32, "y", True)]


def t_core_scalar1(it, p):
    return [it.new_buffer(32, "z", False, [0] * 32), it.new_buffer(p.get("inlen", 32), "x", True)]


def t_ristretto_scalarmult(it, p):
    # public point: the Ristretto255 generator encoding (RFC 9496); secret scalar
    gen = bytes.fromhex("e2f2ae0a6abc4e71a884a961c500515f58e30b6aa582dd8db6a65945e08d2d76")
    return [it.new_buffer(32, "q", False, [0] * 32), it.new_buffer(32, "n", True), it.new_buffer(32, "p", False, list(gen))]


def t_ed25519_scalarmult(it, p):
    base = bytes.fromhex("5866666666666666666666666666666666666666666666666666666666666666")
    return [it.new_buffer(32, "q", False, [0] * 32), it.new_buffer(32, "n", True), it.new_buffer(32, "p", False, list(base))]


def t_ristretto_base(it, p):
    return [it.new_buffer(32, "q", False, [0] * 32), it.new_buffer(32, "n", True)]


def t_ge_base(it, p):
    return [it.new_buffer(160, "h", False, [0] * 160), it.new_buffer(32, "a", True)]


def t_ge_scalarmult(it, p):
    # public point: 5*B computed concretely by the same code
    five = it.new_buffer(32, "five", False, [5] + [0] * 31)
    pt = it.new_buffer(160, "P", False, [0] * 160)
    it.call(_name(it, "ge25519_scalarmult_base"), [pt, five])
    it.steps = 0
    return [it.new_buffer(160, "h", False, [0] * 160), it.new_buffer(32, "a", True), pt]


def t_sign(it, p):
    n = p["len"]
    # sk = seed(secret) || pk(public)
    sk = it.new_buffer(64, "sk", True)
    b = it.objs[sk.obj].bytes
    for i in range(32, 64):
        b[i] = (i * 7 + 3) & 0xff
    return [it.new_buffer(64, "sig", False, [0] * 64), 0, it.new_buffer(n, "m", False, [(i * 13) & 0xff for i in range(n)]), n, sk]


def t_seed_keypair(it, p):
    return [it.new_buffer(32, "pk", False, [0] * 32), it.new_buffer(64, "sk", False, [0] * 64), it.new_buffer(32, "seed", True)]


def t_aead_enc(klen, nlen, abytes, impl=None):
    """crypto_aead_*_encrypt_detached(c, mac, maclen_p, m, mlen, ad, adlen, nsec, npub, k): key and message secret"""
    def setup(it, p):
        n, a = p["len"], p.get("adlen", 5)
        if impl:
            gp = [g for g in it.mod.globals if g.startswith("@implementation")]
            it.store_bytes(it.global_ptr(gp[0]), it.global_ptr("@" + impl), 8, "select back end")
        return [it.new_buffer(n, "c", False, [0] * n), it.new_buffer(abytes, "mac", False, [0] * abytes), 0,
                it.new_buffer(n, "m", True), n, it.new_buffer(a, "ad", False, [(3 * i + 1) & 0xff for i in range(a)]), a, 0,
                it.new_buffer(nlen, "npub", False, [(7 * i + 2) & 0xff for i in range(nlen)]), it.new_buffer(klen, "key", True)]
    return setup


def t_aead_dec(klen, nlen, abytes, impl=None):
    """crypto_aead_*_decrypt_detached(m, nsec, c, clen, mac, ad, adlen, npub, k): key secret, ciphertext/tag public;
    the verification verdict is a public result (declassified by the accept/reject branch being on public data only
    after the constant-time comparison)"""
    def setup(it, p):
        n, a = p["len"], p.get("adlen", 5)
        if impl:
            gp = [g for g in it.mod.globals if g.startswith("@implementation")]
            it.store_bytes(it.global_ptr(gp[0]), it.global_ptr("@" + impl), 8, "select back end")
        return [it.new_buffer(n, "m", False, [0] * n), 0, it.new_buffer(n, "c", False, [(5 * i + 1) & 0xff for i in range(n)]), n,
                it.new_buffer(abytes, "mac", False, [0] * abytes), it.new_buffer(a, "ad", False, [(3 * i + 1) & 0xff for i in range(a)]), a,
                it.new_buffer(nlen, "npub", False, [(7 * i + 2) & 0xff for i in range(nlen)]), it.new_buffer(klen, "key", True)]
    return setup


def _aegis_units(alg):
    d = "crypto_aead/%s/" % alg
    return [d + "aead_%s.c" % alg, d + "%s_aesni.c" % alg, d + "%s_soft.c" % alg, "crypto_core/softaes/softaes.c", "crypto_verify/verify.c", "sodium/utils.c"]


def _name(it, base):
    for cand in ("@" + base, "@_sodium_" + base):
        if cand in it.mod.functions:
            return cand
    for n in it.mod.functions:
        if n.startswith("@" + base + ".") or n.startswith("@_sodium_" + base + "."):
            return n
    raise KeyError(base)


ED = ["crypto_core/ed25519/ref10/ed25519_ref10.c", "sodium/utils.c"]
LENS = [0, 1, 15, 16, 17, 63, 64, 65, 129]
TARGETS = [
    dict(name="crypto_verify_16", units=["crypto_verify/verify.c"], entry="crypto_verify_16", setup=t_verify, params=[{"n": 16}]),
    dict(name="crypto_verify_32", units=["crypto_verify/verify.c"], entry="crypto_verify_32", setup=t_verify, params=[{"n": 32}]),
    dict(name="crypto_verify_64", units=["crypto_verify/verify.c"], entry="crypto_verify_64", setup=t_verify, params=[{"n": 64}]),
    dict(name="crypto_verify_32-generic", units=["crypto_verify/verify.c"], undefs=["HAVE_EMMINTRIN_H"], entry="crypto_verify_32", setup=t_verify, params=[{"n": 32}]),
    dict(name="sodium_memcmp", units=["sodium/utils.c"], entry="sodium_memcmp", setup=t_buf2("x"), params=[{"len": n} for n in (0, 1, 16, 33, 64)]),
    dict(name="sodium_compare", units=["sodium/utils.c"], entry="sodium_compare", setup=t_buf2("x"), params=[{"len": n} for n in (0, 1, 16, 33)]),
    dict(name="sodium_is_zero", units=["sodium/utils.c"], entry="sodium_is_zero", setup=t_is_zero, params=[{"len": n} for n in (0, 1, 32)]),
    dict(name="sodium_increment", units=["sodium/utils.c"], entry="sodium_increment", setup=t_increment, params=[{"len": n} for n in (1, 8, 12, 24, 17)]),
    dict(name="sodium_add", units=["sodium/utils.c"], entry="sodium_add", setup=t_buf2("x"), params=[{"len": n} for n in (1, 8, 12, 24, 64, 17)]),
    dict(name="sodium_sub", units=["sodium/utils.c"], entry="sodium_sub", setup=t_buf2("x"), params=[{"len": n} for n in (1, 64, 17)]),
    dict(name="sodium_add-portable", units=["sodium/utils.c"], undefs=["HAVE_AMD64_ASM"], entry="sodium_add", setup=t_buf2("x"), params=[{"len": n} for n in (12, 64)]),
    dict(name="sodium_unpad", units=["sodium/utils.c"], entry="sodium_unpad", setup=t_unpad, params=[{"len": 32, "bs": 16}, {"len": 7, "bs": 7}, {"len": 48, "bs": 13}]),
    dict(name="sodium_bin2hex", units=["sodium/codecs.c", "sodium/utils.c"], entry="sodium_bin2hex", setup=t_bin2hex, params=[{"len": n} for n in (0, 1, 32)]),
    dict(name="sodium_bin2base64", units=["sodium/codecs.c", "sodium/utils.c"], entry="sodium_bin2base64", setup=t_bin2base64,
         params=[{"len": n, "variant": v} for n in (0, 1, 2, 3, 32) for v in (1, 3, 5, 7)]),
    dict(name="chacha20-ref", units=["crypto_stream/chacha20/ref/chacha20_ref.c", "sodium/utils.c"], entry="stream_ref_xor_ic", setup=t_stream_xor_ic,
         params=[{"len": n} for n in (1, 63, 64, 65, 200)]),
    dict(name="salsa20-ref", units=["crypto_stream/salsa20/ref/salsa20_ref.c", "crypto_core/salsa/ref/core_salsa_ref.c", "sodium/utils.c"],
         undefs=["HAVE_AMD64_ASM"], entry="stream_ref_xor_ic", setup=t_stream_xor_ic, params=[{"len": n} for n in (1, 64, 65, 130)]),
    dict(name="poly1305-donna", units=["crypto_onetimeauth/poly1305/donna/poly1305_donna.c", "sodium/utils.c", "crypto_verify/verify.c"],
         entry="crypto_onetimeauth_poly1305_donna", setup=t_onetimeauth, params=[{"len": n} for n in (0, 1, 15, 16, 17, 64, 65)]),
    dict(name="sha256", units=["crypto_hash/sha256/cp/hash_sha256_cp.c", "sodium/utils.c"], entry="crypto_hash_sha256", setup=t_hash(32),
         params=[{"len": n} for n in (0, 1, 55, 56, 64, 119, 129)]),
    dict(name="sha512", units=["crypto_hash/sha512/cp/hash_sha512_cp.c", "sodium/utils.c"], entry="crypto_hash_sha512", setup=t_hash(64),
         params=[{"len": n} for n in (0, 1, 111, 112, 128, 257)]),
    dict(name="blake2b", units=["crypto_generichash/blake2b/ref/blake2b-ref.c", "crypto_generichash/blake2b/ref/generichash_blake2b.c",
                                "crypto_generichash/blake2b/ref/blake2b-compress-ref.c", "sodium/utils.c"],
         entry="crypto_generichash_blake2b", setup=t_generichash, params=[{"len": n} for n in (0, 1, 127, 128, 129, 257)]),
    dict(name="siphash24", units=["crypto_shorthash/siphash24/ref/shorthash_siphash24_ref.c"], entry="crypto_shorthash_siphash24", setup=t_shorthash,
         params=[{"len": n, "out": 8} for n in (0, 1, 7, 8, 9, 24)]),
    dict(name="siphashx24", units=["crypto_shorthash/siphash24/ref/shorthash_siphashx24_ref.c"], entry="crypto_shorthash_siphashx24", setup=t_shorthash,
         params=[{"len": n, "out": 16} for n in (0, 7, 8, 17)]),
    dict(name="sc25519_reduce", units=ED, entry="sc25519_reduce", setup=t_sc_reduce, params=[{}]),
    dict(name="sc25519_muladd", units=ED, entry="sc25519_muladd", setup=t_sc_muladd, params=[{}]),
    dict(name="x25519-ladder", units=["crypto_scalarmult/curve25519/ref10/x25519_ref10.c"] + ED, entry="crypto_scalarmult_curve25519_ref10",
         setup=t_x25519, params=[{}], heavy=True),
    dict(name="x25519-base", units=["crypto_scalarmult/curve25519/ref10/x25519_ref10.c"] + ED, entry="crypto_scalarmult_curve25519_ref10_base",
         setup=t_x25519_base, params=[{}], heavy=True),
    dict(name="ge25519_scalarmult_base", units=ED, entry="ge25519_scalarmult_base", setup=t_ge_base, params=[{}], heavy=True),
    dict(name="ge25519_scalarmult", units=ED, entry="ge25519_scalarmult", setup=t_ge_scalarmult, params=[{}], heavy=True),
    dict(name="aes256gcm-aesni-encrypt", units=["crypto_aead/aes256gcm/aesni/aead_aes256gcm_aesni.c", "crypto_verify/verify.c", "sodium/utils.c"],
         entry="crypto_aead_aes256gcm_encrypt_detached", setup=t_aead_enc(32, 12, 16), params=[{"len": n, "adlen": a} for n, a in ((0, 0), (1, 5), (17, 16), (113, 33), (225, 225), (449, 1))]),
    dict(name="aegis128l-aesni-encrypt", units=_aegis_units("aegis128l"), entry="crypto_aead_aegis128l_encrypt_detached",
         setup=t_aead_enc(16, 16, 32, "aegis128l_aesni_implementation"), params=[{"len": n, "adlen": a} for n, a in ((0, 0), (1, 5), (33, 32), (65, 65))]),
    dict(name="aegis256-aesni-encrypt", units=_aegis_units("aegis256"), entry="crypto_aead_aegis256_encrypt_detached",
         setup=t_aead_enc(32, 32, 32, "aegis256_aesni_implementation"), params=[{"len": n, "adlen": a} for n, a in ((0, 0), (1, 5), (17, 16), (33, 33))]),
    dict(name="sc25519_mul", units=ED, entry="sc25519_mul", setup=t_sc_mul, params=[{}]),
    dict(name="sc25519_invert", units=ED, entry="sc25519_invert", setup=t_sc_invert, params=[{}], heavy=True),
    dict(name="core-ed25519-scalar-add", units=["crypto_core/ed25519/core_ed25519.c"] + ED, entry="crypto_core_ed25519_scalar_add", setup=t_core_scalar2, params=[{}]),
    dict(name="core-ed25519-scalar-sub", units=["crypto_core/ed25519/core_ed25519.c"] + ED, entry="crypto_core_ed25519_scalar_sub", setup=t_core_scalar2, params=[{}]),
    dict(name="core-ed25519-scalar-mul", units=["crypto_core/ed25519/core_ed25519.c"] + ED, entry="crypto_core_ed25519_scalar_mul", setup=t_core_scalar2, params=[{}]),
    dict(name="core-ed25519-scalar-negate", units=["crypto_core/ed25519/core_ed25519.c"] + ED, entry="crypto_core_ed25519_scalar_negate", setup=t_core_scalar1, params=[{}]),
    dict(name="core-ed25519-scalar-complement", units=["crypto_core/ed25519/core_ed25519.c"] + ED, entry="crypto_core_ed25519_scalar_complement", setup=t_core_scalar1, params=[{}]),
    dict(name="core-ed25519-scalar-reduce", units=["crypto_core/ed25519/core_ed25519.c"] + ED, entry="crypto_core_ed25519_scalar_reduce", setup=t_core_scalar1, params=[{"inlen": 64}]),
    dict(name="ristretto255-scalarmult", units=["crypto_scalarmult/ristretto255/ref10/scalarmult_ristretto255_ref10.c"] + ED,
         entry="crypto_scalarmult_ristretto255", setup=t_ristretto_scalarmult, params=[{}], heavy=True),
    dict(name="ristretto255-scalarmult-base", units=["crypto_scalarmult/ristretto255/ref10/scalarmult_ristretto255_ref10.c"] + ED,
         entry="crypto_scalarmult_ristretto255_base", setup=t_ristretto_base, params=[{}], heavy=True),
    dict(name="ed25519-scalarmult-noclamp", units=["crypto_scalarmult/ed25519/ref10/scalarmult_ed25519_ref10.c"] + ED,
         entry="crypto_scalarmult_ed25519_noclamp", setup=t_ed25519_scalarmult, params=[{}], heavy=True,
         declassify=["_crypto_scalarmult_ed25519"]),     # the identity-result / zero-scalar error status is a public result
    dict(name="ed25519-scalarmult-clamp", units=["crypto_scalarmult/ed25519/ref10/scalarmult_ed25519_ref10.c"] + ED,
         entry="crypto_scalarmult_ed25519", setup=t_ed25519_scalarmult, params=[{}], heavy=True, declassify=["_crypto_scalarmult_ed25519"]),
    dict(name="ed25519-seed-keypair", units=["crypto_sign/ed25519/ref10/keypair.c", "crypto_hash/sha512/cp/hash_sha512_cp.c"] + ED,
         entry="crypto_sign_ed25519_seed_keypair", setup=t_seed_keypair, params=[{}], heavy=True),
    dict(name="ed25519-sign", units=["crypto_sign/ed25519/ref10/sign.c", "crypto_hash/sha512/cp/hash_sha512_cp.c"] + ED,
         entry="crypto_sign_ed25519_detached", setup=t_sign, params=[{"len": n} for n in (0, 33)], heavy=True),
]


def run_one(tname, pidx, workroot, opaque_mul=True):
    """run one obligation in this process; returns result dict"""
    t = [x for x in TARGETS if x["name"] == tname][0]
    p = t["params"][pidx]
    res = {"target": tname, "params": p, "status": "inconclusive", "detail": "", "steps": 0, "observations": 0,
           "obs_solver": 0, "solver_s": 0.0, "wall_s": 0.0, "functions": 0}
    t0 = time.time()
    try:
        wd = os.path.join(workroot, "ir-" + tname.replace("/", "_"))
        ll = os.path.join(wd, "linked.ll")
        if not os.path.exists(ll):
            build.build_module(wd + ".tmp%d" % os.getpid(), t["units"], undefs=t.get("undefs", ()))
            try:
                os.rename(wd + ".tmp%d" % os.getpid(), wd)
            except OSError:
                pass
        mod = ir.parse_module(open(ll).read())
        it = interp.Interp(mod, _z3(), opaque_mul=opaque_mul and t.get("heavy", False))
        args = t["setup"](it, p)
        for f in t.get("declassify", ()):
            it.declassified.add(_name(it, f))
        entry = _name(it, t["entry"])
        res["functions"] = len(mod.functions)
        it.call(entry, args)
        res.update(status="ok", steps=it.steps, observations=it.observations, obs_solver=it.obs_solver,
                   solver_s=round(it.solver_time, 3), solver_notes=it.obs_log[:5], terms=T.NTERMS[0])
    except interp.Violation as v:
        res.update(status="violation" if v.kind == "nonint" else "inconclusive", detail=str(v)[:600], model=v.model, kind=v.kind)
    except (interp.Unsupported, build.IRBuildError, SyntaxError, KeyError) as e:
        res.update(status="inconclusive", detail="%s: %s" % (type(e).__name__, str(e)[:500]))
    except Exception as e:  # pragma: no cover
        res.update(status="inconclusive", detail="exception: " + traceback.format_exc()[-700:])
    res["wall_s"] = round(time.time() - t0, 2)
    return res


def replay(tname, pidx, workroot, model_path):
    """concrete re-execution of the IR on the two secret assignments of a counterexample:
    prints REPLAY-FAIL when the control-flow / address traces differ"""
    import json
    t = [x for x in TARGETS if x["name"] == tname][0]
    p = t["params"][pidx]
    wd = os.path.join(workroot, "ir-" + tname.replace("/", "_"))
    if not os.path.exists(os.path.join(wd, "linked.ll")):
        build.build_module(wd, t["units"], undefs=t.get("undefs", ()))
    mod = ir.parse_module(open(os.path.join(wd, "linked.ll")).read())
    models = json.load(open(model_path))
    traces = []
    for m in models:
        it = interp.Interp(mod, None)
        it.concrete_secrets = m
        it.trace = []
        args = t["setup"](it, p)
        it.trace = []
        it.call(_name(it, t["entry"]), args)
        traces.append(it.trace)
    if traces[0] != traces[1]:
        k = 0
        while k < min(len(traces[0]), len(traces[1])) and traces[0][k] == traces[1][k]:
            k += 1
        print("REPLAY-FAIL: traces of the two secrets diverge at step %d: %r vs %r" % (
            k, traces[0][k] if k < len(traces[0]) else None, traces[1][k] if k < len(traces[1]) else None))
        return 1
    print("REPLAY-END-REACHED: identical traces (%d events)" % len(traces[0]))
    return 0


if __name__ == "__main__":
    import json
    if sys.argv[1] == "build":
        t = [x for x in TARGETS if x["name"] == sys.argv[2]][0]
        wd = os.path.join(sys.argv[3], "ir-" + t["name"].replace("/", "_"))
        build.build_module(wd, t["units"], undefs=t.get("undefs", ()))
    elif sys.argv[1] == "replay":
        sys.exit(replay(sys.argv[2], int(sys.argv[3]), sys.argv[4], sys.argv[5]))
    else:
        print(json.dumps(run_one(sys.argv[1], int(sys.argv[2]), sys.argv[3]), default=str))
