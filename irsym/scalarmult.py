"""E2 multiples mode: the Ed25519 scalar-multiplication ALGORITHMS of ed25519_ref10.c (LLVM IR) compute a * P for ALL
scalars a < 2^255 -- signed radix-16 recoding, table of small multiples, doublings -- given correct group operations
(decided by edwards.py) and table look-ups.

A point is represented by the integer multiple of the (abstract) point P it stands for -- an integer polynomial in the
scalar's bytes (limb mode: polynomials + intervals + quotient variables), so the group operations of the unit are
additions / doublings of multiples.  The recoding runs as REAL code in limb mode on the symbolic scalar bytes; the
look-up ge25519_cmov8_cached(t, pi, b) is specified as "b * P for -8 <= b <= 8" and checked against the table pi[] the
code has built (pi[j] must be (j+1) * P) and against the digit's interval; ge25519_cmov8_base(t, pos, b) as
"b * 256^pos * B" (the constant table base[pos][j] = (j+1) 256^pos B and the constant-time selection are separate
obligations).  Claim: the multiple held by the result == sum a[i] 256^i, as a polynomial identity (all quotient
variables of the recoding cancel)."""
import json
import os
import sys
import time
import traceback

from . import build, interp, ir, limb, terms as T
from .ladder import Mismatch, xname, get_module, ED25519_UNITS


class MT(T.Term):
    """multiple of P held by a group-element object (any of the point structs)"""
    __slots__ = ("poly",)

    def __init__(self, poly, nbytes):
        self.op = "multiple"; self.args = (); self.w = 8 * nbytes; self.aux = None; self.sec = True
        self.poly = poly


SIZES = {"p2": 120, "p3": 160, "p1p1": 160, "precomp": 120, "cached": 160}


def run_case(which, workroot):
    mod = get_module(workroot, "ladder-ed25519", ED25519_UNITS)
    T.MODE = "term"
    limb.reset()
    it = interp.Interp(mod, None)
    N = lambda n: xname(it, n)
    digits = []

    def get(p):
        cell = it.objs[p.obj].bytes.get(p.off)
        if isinstance(cell, tuple) and isinstance(cell[0], MT) and cell[1] == 0:
            return cell[0].poly
        raise Mismatch("group element expected")

    def put(p, poly, kind):
        it.store_bytes(p, MT(poly, SIZES[kind]), SIZES[kind], "multiple")

    def digit(b, where):
        d = limb.lift(b, 8)
        if d.mod or d.lo < -8 or d.hi > 8:
            raise Mismatch("%s: digit range [%d, %d] is not within -8..8" % (where, d.lo, d.hi))
        digits.append((d.lo, d.hi))
        return d.poly
    it.stubs[N("ge25519_p3_0")] = lambda it_, a: put(a[0], {}, "p3")
    it.stubs[N("ge25519_add_precomp")] = lambda it_, a: put(a[0], limb.padd(get(a[1]), get(a[2])), "p1p1")
    it.stubs[N("ge25519_add_cached")] = lambda it_, a: put(a[0], limb.padd(get(a[1]), get(a[2])), "p1p1")
    it.stubs[N("ge25519_p1p1_to_p3")] = lambda it_, a: put(a[0], get(a[1]), "p3")
    it.stubs[N("ge25519_p1p1_to_p2")] = lambda it_, a: put(a[0], get(a[1]), "p2")
    it.stubs[N("ge25519_p3_dbl")] = lambda it_, a: put(a[0], limb.pscale(get(a[1]), 2), "p1p1")
    it.stubs[N("ge25519_p2_dbl")] = lambda it_, a: put(a[0], limb.pscale(get(a[1]), 2), "p1p1")
    it.stubs[N("ge25519_p3_to_cached")] = lambda it_, a: put(a[0], get(a[1]), "cached")
    it.stubs[N("ge25519_cmov8_base")] = lambda it_, a: put(a[0], limb.pscale(digit(a[2], "cmov8_base"), 256 ** int(a[1])), "precomp")

    def cmov8_cached(it_, a):
        t, pi, b = a
        for j in range(8):
            if get(interp.Ptr(pi.obj, pi.off + SIZES["cached"] * j)) != limb.pconst(j + 1):
                raise Mismatch("table entry pi[%d] is not %d * P" % (j, j + 1))
        put(t, digit(b, "cmov8_cached"), "cached")
    it.stubs[N("ge25519_cmov8_cached")] = cmov8_cached
    a = [limb.var("a%d" % i, 8, 0, 255 if i < 31 else 127) for i in range(32)]
    ab = it.new_buffer(32, "a", False, [0] * 32)
    for i, v in enumerate(a):
        it.store_bytes(interp.Ptr(ab.obj, ab.off + i), v, 1, "setup")
    h = it.new_buffer(160, "h", False, [0] * 160)
    if which == "mul_l":
        # the fixed addition chain of ge25519_mul_l (main-subgroup test): the multiple it returns must be the group order
        p = it.new_buffer(160, "p", False, [0] * 160)
        put(p, limb.pconst(1), "p3")
        it.call(N("ge25519_mul_l"), [h, p])
        got = get(h)
        L = 2 ** 252 + 27742317777372353535851937790883648493
        if got != limb.pconst(L):
            raise Mismatch("ge25519_mul_l(P) is not L * P: multiple %r" % (sorted(got.items())[:2],))
        return dict(ir_steps=it.steps, multiple="L = 2^252 + 27742317777372353535851937790883648493")
    if which == "scalarmult_base":
        it.call(N("ge25519_scalarmult_base"), [h, ab])
    else:
        p = it.new_buffer(160, "p", False, [0] * 160)
        put(p, limb.pconst(1), "p3")
        it.call(N("ge25519_scalarmult"), [h, ab, p])
    got = get(h)
    want = {}
    for i, v in enumerate(a):
        want = limb.padd(want, limb.pscale(v.poly, 256 ** i))
    diff = limb.padd(got, want, -1)
    if limb.C.wraps:
        raise Mismatch("the digit recoding may overflow its machine type: %r" % (limb.C.wraps[:2],))
    if diff:
        raise Mismatch("the result is not a * P: residual %r" % (sorted(diff.items())[:3],))
    return dict(ir_steps=it.steps, lookups=len(digits), fresh_quotients=limb.C.nfresh)


def check_base_table(workroot):
    """the constant table of ge25519_cmov8_base: base[i][j] == (j+1) * 256^i * B in precomputed form (y+x, y-x, 2dxy),
    all 256 entries, against big-integer Edwards arithmetic from the curve definition (exhaustive over a finite constant)"""
    P = (1 << 255) - 19
    d = (-121665 * pow(121666, P - 2, P)) % P
    By = 4 * pow(5, P - 2, P) % P
    # x from the curve equation, even root (RFC 8032)
    u, v = (By * By - 1) % P, (d * By * By + 1) % P
    x2 = u * pow(v, P - 2, P) % P
    Bx = pow(x2, (P + 3) // 8, P)
    if (Bx * Bx - x2) % P:
        Bx = Bx * pow(2, (P - 1) // 4, P) % P
    if Bx & 1:
        Bx = P - Bx

    def add(p1, p2):
        (x1, y1), (x2_, y2) = p1, p2
        t = d * x1 * x2_ * y1 * y2 % P
        return ((x1 * y2 + y1 * x2_) * pow(1 + t, P - 2, P) % P, (y1 * y2 + x1 * x2_) * pow(1 - t, P - 2, P) % P)
    mod = get_module(workroot, "ladder-ed25519", ED25519_UNITS)
    T.MODE = "term"
    it = interp.Interp(mod, None)
    gname = [g for g in mod.globals if "cmov8_base" in g and "base" in g.split(".")[-1]]
    if not gname:
        raise Mismatch("base table global not found")
    tab = it.global_ptr(gname[0])

    def fe(off):
        return sum(int(it.load_bytes(interp.Ptr(tab.obj, tab.off + off + 8 * k), 8, "table")) << (51 * k) for k in range(5)) % P
    cur = (Bx, By)                      # 256^i * B
    for i in range(32):
        q = cur
        for j in range(8):
            off = (i * 8 + j) * 120
            x, y = q
            if (fe(off), fe(off + 40), fe(off + 80)) != ((y + x) % P, (y - x) % P, 2 * d * x * y % P):
                raise Mismatch("base[%d][%d] is not %d * 256^%d * B" % (i, j, j + 1, i))
            q = add(q, cur)
        for _ in range(8):
            cur = add(cur, cur)
    return dict(entries=256)


def run(which, workroot):
    res = {"target": "ed25519-" + which, "status": "inconclusive", "detail": "", "wall_s": 0.0}
    t0 = time.time()
    try:
        res.update(check_base_table(workroot) if which == "base_table" else run_case(which, workroot))
        res["status"] = "ok"
    except Mismatch as e:
        res["status"] = "violation"
        res["detail"] = str(e)
    except (interp.Unsupported, interp.Violation, build.IRBuildError, SyntaxError, KeyError, limb.LimbError) as e:
        res["detail"] = "%s: %s" % (type(e).__name__, str(e)[:500])
    except Exception:
        res["detail"] = "exception: " + traceback.format_exc()[-900:]
    res["wall_s"] = round(time.time() - t0, 2)
    return res


if __name__ == "__main__":
    for c in (("scalarmult_base", "scalarmult", "base_table", "mul_l") if sys.argv[1] == "all" else [sys.argv[1]]):
        print(json.dumps(run(c, sys.argv[2]), default=str))
