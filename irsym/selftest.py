"""Validate the IR interpreter by pushing known-answer vectors through it concretely
(the way Serval validated its interpreters): SHA-256/512 'abc', ChaCha20 RFC 8439
2.3.2 block, X25519 RFC 7748 5.2 vector, Ed25519 RFC 8032 test 1 public key."""
import hashlib
import os
import shutil
import sys

from . import build, interp, ir
from .nonint import _name

VERIF = os.path.dirname(os.path.dirname(os.path.abspath(__file__)))


def run(mod, entry, bufs, extra=()):
    it = interp.Interp(mod, None)
    ptrs = []
    for b in bufs:
        if isinstance(b, int):
            ptrs.append(b)
        else:
            ptrs.append(it.new_buffer(len(b), "b%d" % len(ptrs), False, list(b)))
    it.call(_name(it, entry), ptrs)
    return it, ptrs


def main():
    wd = os.path.join(VERIF, ".work", "irsym-selftest-%d" % os.getpid())
    ok = True
    try:
        ll = build.build_module(os.path.join(wd, "a"), ["crypto_hash/sha256/cp/hash_sha256_cp.c", "crypto_hash/sha512/cp/hash_sha512_cp.c", "sodium/utils.c"])
        mod = ir.parse_module(open(ll).read())
        for fn, n, h in (("crypto_hash_sha256", 32, hashlib.sha256), ("crypto_hash_sha512", 64, hashlib.sha512)):
            for msg in (b"abc", b"", bytes(range(200))):
                it, p = run(mod, fn, [bytes(n), msg, len(msg)])
                got = bytes(it.read_buffer(p[0], n))
                if got != h(msg).digest():
                    print("irsym selftest MISMATCH", fn, len(msg)); ok = False
        ll = build.build_module(os.path.join(wd, "b"), ["crypto_stream/chacha20/ref/chacha20_ref.c", "sodium/utils.c"])
        mod = ir.parse_module(open(ll).read())
        key = bytes(range(32)); nonce = bytes([0, 0, 0, 9, 0, 0, 0, 0x4a, 0, 0, 0, 0])
        it, p = run(mod, "stream_ietf_ext_ref_xor_ic", [bytes(64), bytes(64), 64, nonce, 1, key])
        exp = bytes.fromhex("10f1e7e4d13b5915500fdd1fa32071c4c7d1f4c733c068030422aa9ac3d46c4ed2826446079faa0914c2d705d98b02a2b5129cd1de164eb9cbd083e8a2503c4e")
        if bytes(it.read_buffer(p[0], 64)) != exp:
            print("irsym selftest MISMATCH chacha20 block"); ok = False
        ll = build.build_module(os.path.join(wd, "c"), ["crypto_scalarmult/curve25519/ref10/x25519_ref10.c", "crypto_core/ed25519/ref10/ed25519_ref10.c", "sodium/utils.c"])
        mod = ir.parse_module(open(ll).read())
        sc = bytes.fromhex("a546e36bf0527c9d3b16154b82465edd62144c0ac1fc5a18506a2244ba449ac4")
        pt = bytes.fromhex("e6db6867583030db3594c1a424b15f7c726624ec26b3353b10a903a6d0ab1c4c")
        it, p = run(mod, "crypto_scalarmult_curve25519_ref10", [bytes(32), sc, pt])
        if bytes(it.read_buffer(p[0], 32)) != bytes.fromhex("c3da55379de9c6908e94ea4df28d084f32eccf03491c71f754b4075577a28552"):
            print("irsym selftest MISMATCH x25519"); ok = False
        steps = it.steps
        # AES-NI / PCLMULQDQ intrinsic models: SP 800-38D (McGrew-Viega) test case 16 through the real AES-NI unit, and
        # the independent specification model (irsym/gcm_spec.py) on the same vector
        ll = build.build_module(os.path.join(wd, "d"), ["crypto_aead/aes256gcm/aesni/aead_aes256gcm_aesni.c", "crypto_verify/verify.c", "sodium/utils.c"])
        mod = ir.parse_module(open(ll).read())
        key = bytes.fromhex("feffe9928665731c6d6a8f9467308308feffe9928665731c6d6a8f9467308308")
        iv = bytes.fromhex("cafebabefacedbaddecaf888")
        pt = bytes.fromhex("d9313225f88406e5a55909c5aff5269a86a7a9531534f7da2e4c303d8a318a721c3c0c95956809532fcf0e2449a6b525b16aedf5aa0de657ba637b39")
        ad = bytes.fromhex("feedfacedeadbeeffeedfacedeadbeefabaddad2")
        ect = bytes.fromhex("522dc1f099567d07f47f37a32a84427d643a8cdcbfe5c0c97598a2bd2555d1aa8cb08e48590dbb3da7b08b1056828838c5f61e6393ba7a0abcc9f662")
        etag = bytes.fromhex("76fc6ece0f4e1768cddf8853bb2d551b")
        it, p = run(mod, "crypto_aead_aes256gcm_encrypt_detached", [bytes(len(pt)), bytes(16), bytes(8), pt, len(pt), ad, len(ad), 0, iv, key])
        if bytes(it.read_buffer(p[0], len(pt))) != ect or bytes(it.read_buffer(p[1], 16)) != etag:
            print("irsym selftest MISMATCH aes256gcm (AES-NI / PCLMULQDQ models)"); ok = False
        from . import aig, gcm_spec
        aig.reset(True)
        B = lambda bs: [gcm_spec.cbyte(x) for x in bs]
        c2, t2 = gcm_spec.gcm_encrypt(B(key), B(iv), B(pt), B(ad))
        V = lambda bs: bytes(sum(l << i for i, l in enumerate(b)) for b in bs)
        if V(c2) != ect or V(t2) != etag:
            print("irsym selftest MISMATCH gcm_spec"); ok = False
        from . import hash_spec, aegis_spec
        for n in (0, 1, 128, 129, 300):
            msg = bytes((i * 7 + 1) & 0xff for i in range(n))
            if bytes(hash_spec.blake2b(list(msg), 32, list(range(17)), list(b"0123456789abcdef"), list(b"ABCDEFGHIJKLMNOP"))) != \
                    hashlib.blake2b(msg, digest_size=32, key=bytes(range(17)), salt=b"0123456789abcdef", person=b"ABCDEFGHIJKLMNOP").digest():
                print("irsym selftest MISMATCH blake2b spec model"); ok = False
        if bytes(hash_spec.siphash(list(range(15)), list(range(16)), 8)).hex() != "e545be4961ca29a1":
            print("irsym selftest MISMATCH siphash spec model"); ok = False
        # draft-irtf-cfrg-aegis-aead test vector (AEGIS-128L, 16 zero bytes, no ad; 128-bit tag = xor of the two halves)
        B = lambda bs: [gcm_spec.cbyte(x) for x in bs]
        c3, t3 = aegis_spec.aegis128l_encrypt(B(bytes.fromhex("10010000000000000000000000000000")), B(bytes.fromhex("10000200000000000000000000000000")), B(bytes(16)), [])
        if V(c3).hex() != "c1c0e58bd913006feba00f4b3cc3594e" or V(t3).hex() != "25835bfbb21632176cf03840687cb968cace4617af1bd0f7d064c639a5c79ee4":
            print("irsym selftest MISMATCH aegis128l spec model", V(c3).hex(), V(t3).hex()); ok = False
        print("irsym AES-NI/PCLMULQDQ models and the SP 800-38D specification model: test case 16 reproduced")
        print("irsym interpreter: SHA-256/512, ChaCha20 and X25519 known-answer vectors reproduced (%d IR steps for the ladder)" % steps)
    finally:
        shutil.rmtree(wd, ignore_errors=True)
    return 0 if ok else 1


if __name__ == "__main__":
    sys.exit(main())
