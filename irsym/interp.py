"""Symbolic interpreter for LLVM IR (engine E2 `irsym`).

Control flow and memory addresses must be concrete for the chosen public
parameters.  Every conditional branch / switch condition, every memory
address and every division operand is an *observation*: if it is a symbolic
term, the solver (z3) is asked whether it can take two different values; if it
can and a secret is in its support, that is a non-interference violation
(reported with the two satisfying secret assignments); if it is provably
constant the interpreter continues with that value."""
import re
import sys
import time

from . import terms as T
from .ir import Parser, tokenize, Ty, VOID

sys.setrecursionlimit(20000)


class Ptr(object):
    __slots__ = ("obj", "off")

    def __init__(self, obj, off):
        self.obj = obj
        self.off = off

    def __repr__(self):
        return "Ptr(%s,%s)" % (self.obj, self.off)


class FnPtr(object):
    __slots__ = ("name",)

    def __init__(self, name):
        self.name = name


class Obj(object):
    __slots__ = ("size", "bytes", "name", "const")

    def __init__(self, size, name="", const=False):
        self.size = size
        self.bytes = {}
        self.name = name
        self.const = const


class Violation(Exception):
    def __init__(self, kind, where, detail, model=None):
        Exception.__init__(self, "%s at %s: %s" % (kind, where, detail))
        self.kind, self.where, self.detail, self.model = kind, where, detail, model


class Unsupported(Exception):
    pass


class Interp(object):
    def __init__(self, mod, z3=None, max_steps=50000000, opaque_mul=False):
        self.mod = mod
        self.z3 = z3
        self.objs = {}
        self.nobj = 0
        self.gobj = {}
        self.steps = 0
        self.max_steps = max_steps
        self.cache = {}
        self.observations = 0       # observation points executed
        self.obs_concrete = 0       # ... that were concrete values
        self.obs_solver = 0         # ... that needed the solver
        self.solver_time = 0.0
        self.obs_log = []
        self.declassified = set()
        self.stubs = {}
        self.opaque_mul = opaque_mul
        self.fn_steps = {}
        self.callstack = []
        self.assume_lits = []          # bit-level mode: literals assumed true (input constraints)
        self.sat_dir = None
        self.sat_calls = 0
        self.concrete_secrets = None   # replay mode: dict var name -> value
        self.trace = None              # replay mode: list of control-flow / address observations

    # ---------------- memory ----------------
    def alloc(self, size, name="", const=False):
        self.nobj += 1
        self.objs[self.nobj] = Obj(size, name, const)
        return Ptr(self.nobj, 0)

    def store_bytes(self, ptr, val, nbytes, where=""):
        off = self.addr(ptr, nbytes, where, True)
        o = self.objs[ptr.obj]
        b = o.bytes
        if isinstance(val, T.Term):
            for k in range(nbytes):
                b[off + k] = (val, k)
        elif isinstance(val, (Ptr, FnPtr)):
            for k in range(nbytes):
                b[off + k] = (val, k)
        else:
            for k in range(nbytes):
                b[off + k] = (val >> (8 * k)) & 0xff

    def load_symbolic(self, ptr, nbytes, where):
        """bit-level mode: load through an address with k symbolic offset bits = selection among the 2^k candidate
        cells (every candidate must be in bounds); constant tables become LUT nodes, tables of LUT values compose"""
        A = T.AIG
        g = A.G
        bits = ptr.off.bits
        sel = [(i, l) for i, l in enumerate(bits) if l > 1]
        base = sum(l << i for i, l in enumerate(bits) if l <= 1)
        if base >> 63:
            base -= 1 << 64
        if len(sel) > 10:
            raise Unsupported("address with %d symbolic bits at %s" % (len(sel), where))
        self.observations += 1
        cands = []
        for x in range(1 << len(sel)):
            off = base + sum(1 << i for j, (i, _) in enumerate(sel) if (x >> j) & 1)
            v = self.load_bytes(Ptr(ptr.obj, off), nbytes, where)    # bounds-checked
            if isinstance(v, (Ptr, FnPtr)):
                raise Unsupported("pointer table indexed by symbolic value at " + where)
            cands.append(v)
        w = 8 * nbytes
        sl = [l for _, l in sel]
        if all(not isinstance(v, T.Term) for v in cands) and g.affine:
            return A.mkv(g.lut_bits(sl, cands, w))
        cb = [A.bits_of(v, w) for v in cands]
        return A.mkv([g.mux_select(sl, [c[j] for c in cb]) for j in range(w)])

    def load_bytes(self, ptr, nbytes, where=""):
        if T.AIG is not None and isinstance(ptr, Ptr) and isinstance(ptr.off, T.AIG.AV):
            return self.load_symbolic(ptr, nbytes, where)
        off = self.addr(ptr, nbytes, where, False)
        o = self.objs[ptr.obj]
        b = o.bytes
        if self.trace is not None and not o.name.startswith("@") and ":" not in o.name:
            self.trace.append(("load", o.name, off))
        first = b.get(off, 0)
        if isinstance(first, tuple):
            node = first[0]
            ok = first[1] == 0
            if ok:
                for k in range(1, nbytes):
                    x = b.get(off + k, 0)
                    if not (isinstance(x, tuple) and x[0] is node and x[1] == k):
                        ok = False
                        break
            if ok:
                if isinstance(node, (Ptr, FnPtr)):
                    if nbytes == 8:
                        return node
                elif node.w == 8 * nbytes:
                    return node
                elif node.w > 8 * nbytes:
                    return T.extract(node, 8 * nbytes - 1, 0)
        # general: assemble little endian
        acc = None
        accw = 0
        for k in range(nbytes):
            x = b.get(off + k, 0)
            if isinstance(x, tuple):
                node, idx = x
                if isinstance(node, (Ptr, FnPtr)):
                    raise Unsupported("partial pointer load at " + where)
                x = T.extract(node, 8 * idx + 7, 8 * idx)
            if acc is None:
                acc, accw = x, 8
            else:
                acc = T.concat(x, acc, 8, accw)
                accw += 8
        return acc

    def addr(self, ptr, nbytes, where, write):
        if not isinstance(ptr, Ptr):
            raise Violation("memory", where, "access through non-pointer value %r" % (ptr,))
        off = ptr.off
        if isinstance(off, T.Term):
            off = self.observe(off, "address", where)
        o = self.objs.get(ptr.obj)
        if o is None:
            raise Violation("memory", where, "dangling object")
        if off < 0 or off + nbytes > o.size:
            raise Violation("memory", where, "out-of-bounds %s of %d bytes at offset %d of object %s (size %d)"
                            % ("write" if write else "read", nbytes, off, o.name, o.size))
        if write and o.const:
            raise Violation("memory", where, "write to constant " + o.name)
        return off

    # ---------------- observations ----------------
    def observe(self, v, kind, where):
        """v is an observation term (branch condition, address offset, divisor...).
        returns its concrete value, or raises Violation"""
        self.observations += 1
        if not isinstance(v, T.Term):
            self.obs_concrete += 1
            return v
        self.obs_solver += 1
        if T.AIG is not None and isinstance(v, T.AIG.AV):
            return self.observe_aig(v, kind, where)
        if self.z3 is None:
            raise Violation("nonint", where, "%s depends on symbolic data (no solver)" % kind)
        z3 = self.z3
        t0 = time.time()
        e = T.to_z3(v, z3)
        s = z3.Solver()
        s.set("timeout", 60000)
        r = s.check()
        m1 = s.model()
        v1 = m1.eval(e, model_completion=True)
        if v.sec and kind == "branch condition" and any(where.startswith(f + ":") for f in self.declassified):
            # explicitly public result (success / failure status computed from the secret): the branch is followed on one
            # side only; everything executed before it has been checked
            self.solver_time += time.time() - t0
            val = v1.as_long()
            self.obs_log.append((kind, where, "declassified status branch, followed with value %d" % val))
            return val
        s.add(e != v1)
        r2 = s.check()
        self.solver_time += time.time() - t0
        if r2 == z3.unsat:
            val = v1.as_long()
            self.obs_log.append((kind, where, "solver-proved constant %d (dag %d)" % (val, T.dag_size(v))))
            return val
        if r2 == z3.unknown:
            raise Unsupported("solver timeout on %s at %s" % (kind, where))
        m2 = s.model()
        if v.sec and kind == "branch condition" and any(where.startswith(f + ":") for f in self.declassified):
            # explicitly public result (success / failure status computed from the secret): the branch is followed on the
            # first model's side only; everything executed before it has been checked
            val = v1.as_long()
            self.obs_log.append((kind, where, "declassified status branch, followed with value %d" % val))
            return val
        if v.sec:
            def show(m):
                return {str(d): m[d].as_long() for d in m.decls()}
            raise Violation("nonint", where, "%s takes different values for different secrets (%s vs %s)"
                            % (kind, v1, m2.eval(e, model_completion=True)), model=(show(m1), show(m2)))
        raise Unsupported("public symbolic %s at %s" % (kind, where))

    def observe_aig(self, v, kind, where):
        """bit-level mode: an observed value must be constant under self.assume_lits for the chosen public shape;
        each non-constant literal is decided by two SAT queries (kissat)"""
        from . import equiv
        A = T.AIG
        g = A.G
        val = 0
        for i, l in enumerate(v.bits):
            if l <= 1:
                val |= l << i
                continue
            res = {}
            models = []
            # random simulation first: a polarity seen in simulation is satisfiable without asking the solver
            import random
            sv, smask = A.simulate(g, 2, random.Random(7))
            sl = sv[l >> 1] ^ (smask if l & 1 else 0)
            ok_pat = smask
            for al in self.assume_lits:
                if al > 1:
                    ok_pat &= sv[al >> 1] ^ (smask if al & 1 else 0)
            seen1, seen0 = bool(sl & ok_pat), bool((sl ^ smask) & ok_pat)
            for pol in (0, 1):
                if (pol == 1 and seen1) or (pol == 0 and seen0):
                    res[pol] = "sat"
                    want = sl if pol else (sl ^ smask)
                    bit = ((want & ok_pat) & -(want & ok_pat)).bit_length() - 1
                    models.append({g.names[k]: bool((sv[k] >> bit) & 1) for k in g.inputs})
                    continue
                t0 = time.time()
                nv, cl, vm = A.to_cnf(g, list(self.assume_lits) + [l ^ 1 ^ pol])
                r, mdl = equiv.kissat(nv, cl, 25, self.sat_dir)
                self.solver_time += time.time() - t0
                self.sat_calls += 1
                res[pol] = r
                if r == "sat":
                    models.append({g.names[k]: mdl.get(x, False) for k, x in vm.items() if g.kind[k] == 1})
            if res[1] == "unsat" and res[0] == "sat":
                pass
            elif res[0] == "unsat" and res[1] == "sat":
                val |= 1 << i
            elif res[0] == "unsat" and res[1] == "unsat":
                raise Unsupported("assumptions unsatisfiable at %s" % where)
            elif "unknown" in res.values():
                # undecided: hand a few concrete inputs to the caller, which re-executes both sides on them and reports
                # a violation only if the outputs really differ (otherwise the obligation stays inconclusive)
                import random
                rnd = random.Random(1)
                for _ in range(3):
                    models.append({g.names[k]: bool(rnd.getrandbits(1)) for k in g.inputs})
                raise Violation("symbolic-control", where, "solver timeout deciding %s (not shown to be fixed by the public shape)" % kind,
                                model=models)
            else:
                raise Violation("symbolic-control", where, "%s is not determined by the public shape (depends on symbolic input)" % kind,
                                model=models)
        self.obs_log.append((kind, where, "SAT-proved constant %d" % val))
        return val

    # ---------------- globals ----------------
    def global_ptr(self, name):
        if name in self.gobj:
            return self.gobj[name]
        if name in self.mod.functions or name in self.mod.declared:
            return FnPtr(name)
        if name not in self.mod.globals:
            raise Unsupported("unknown global " + name)
        ty, init, const = self.mod.globals[name]
        size = self.mod.size_align(ty)[0]
        p = self.alloc(size, name, False)
        self.gobj[name] = p
        if init is not None:
            self.init_const(p, ty, init)
        self.objs[p.obj].const = const
        return p

    def init_const(self, ptr, ty, init):
        ty = self.mod.resolve(ty)
        kind = init[0]
        if kind == "zero" or kind == "undef":
            return
        if kind == "bytes":
            o = self.objs[ptr.obj]
            for k, bv in enumerate(init[1]):
                o.bytes[ptr.off + k] = bv
            return
        if kind == "agg" or kind == "vecc":
            if ty.k == "arr" or ty.k == "vec":
                es = self.mod.size_align(ty.b)[0]
                elems = init[1]
                for k, e in enumerate(elems):
                    ev = e[1] if kind == "agg" else e
                    self.init_const(Ptr(ptr.obj, ptr.off + k * es), ty.b, ev)
                return
            if ty.k == "struct":
                for k, (fty, ev) in enumerate(init[1]):
                    off, _ = self.mod.field_offset(ty, k)
                    self.init_const(Ptr(ptr.obj, ptr.off + off), fty, ev)
                return
        v = self.const_value(ty, init)
        n = self.mod.size_align(ty)[0]
        self.store_bytes(ptr, v, n, "init")

    def const_value(self, ty, d, frame=None):
        k = d[0]
        if k == "c":
            rty = self.mod.resolve(ty)
            w = rty.a if rty.k == "int" else 64
            return d[1] & T.mask(w)
        if k == "l":
            return frame[d[1]]
        if k == "g":
            return self.global_ptr(d[1])
        if k == "zero" or k == "undef":
            rty = self.mod.resolve(ty)
            if rty.k == "vec":
                return [0] * rty.a
            if rty.k in ("struct", "arr"):
                n = len(rty.a) if rty.k == "struct" else rty.a
                return [self.const_value(rty.a[i] if rty.k == "struct" else rty.b, d, frame) for i in range(n)]
            return 0
        if k == "vecc":
            ety = None
            if ty is not None:
                rty = self.mod.resolve(ty)
                if rty.k == "vec":
                    ety = rty.b
            out = []
            for e in d[1]:
                if e[0] == "c":
                    out.append(self.const_value(ety, e, frame) if ety is not None else e[1])
                elif e[0] in ("zero", "undef"):
                    out.append(0)
                else:
                    out.append(self.const_value(ety, e, frame))
            return out
        if k == "cgep":
            base = self.const_value(None, d[2], frame)
            return self.gep(base, d[1], [(ity, self.const_value(ity, iv, frame)) for ity, iv in d[3]], "constexpr")
        if k == "ccast":
            v = self.const_value(d[2], d[3], frame)
            if d[1] in ("bitcast", "addrspacecast", "inttoptr", "ptrtoint"):
                return v
            raise Unsupported("constexpr cast " + d[1])
        if k == "agg":
            return [self.const_value(t2, v2, frame) for t2, v2 in d[1]]
        raise Unsupported("const value %r" % (d,))

    # ---------------- GEP ----------------
    def gep(self, base, sty, idx, where):
        if not isinstance(base, Ptr):
            if base == 0:
                base = Ptr(0, 0)
            else:
                raise Unsupported("gep on non-pointer at " + where)
        off = base.off
        ty = sty
        first = True
        for ity, iv in idx:
            if isinstance(iv, T.Term):
                iw = self.mod.resolve(ity).a
                if iw < 64:
                    iv = T.sext(iv, iw, 64)
            else:
                iw = self.mod.resolve(ity).a if ity is not None else 64
                iv = T.to_signed(iv & T.mask(iw), iw)
            if first:
                es = self.mod.size_align(ty)[0]
                off = self._addoff(off, iv, es)
                first = False
                continue
            rty = self.mod.resolve(ty)
            if rty.k == "struct":
                fo, fty = self.mod.field_offset(rty, iv)
                off = self._addoff(off, fo, 1)
                ty = fty
            elif rty.k in ("arr", "vec"):
                es = self.mod.size_align(rty.b)[0]
                off = self._addoff(off, iv, es)
                ty = rty.b
            else:
                raise Unsupported("gep into %r" % (rty,))
        return Ptr(base.obj, off)

    def _addoff(self, off, iv, scale):
        if isinstance(iv, T.Term) or isinstance(off, T.Term):
            return T.binop("add", off if isinstance(off, T.Term) else off & T.mask(64),
                           T.binop("mul", iv if isinstance(iv, T.Term) else iv & T.mask(64), scale, 64), 64)
        return off + iv * scale

    # ---------------- calls ----------------
    def call(self, fname, args, where=""):
        if fname in self.stubs:
            return self.stubs[fname](self, args)
        fn = self.mod.functions.get(fname)
        if fn is None:
            return self.external(fname, args, where)
        frame = {}
        for (ty, nm), a in zip(fn.params, args):
            frame[nm] = a
        self.callstack.append(fname)
        try:
            return self.run(fn, frame)
        finally:
            self.callstack.pop()

    def external(self, fname, args, where):
        n = fname
        if n.startswith("@llvm.lifetime") or n.startswith("@llvm.dbg") or n in ("@llvm.assume", "@llvm.prefetch") \
                or n.startswith("@llvm.prefetch") or n.startswith("@llvm.experimental.noalias") or n == "@llvm.donothing":
            return None
        if n.startswith("@llvm.memcpy") or n.startswith("@llvm.memmove") or n in ("@memcpy", "@memmove"):
            ln = self.observe(args[2], "memcpy length", where)
            dst, src = args[0], args[1]
            tmp = [self.objs[src.obj].bytes.get(self.addr(src, ln, where, False) + k, 0) for k in range(ln)] if ln else []
            if ln:
                base = self.addr(dst, ln, where, True)
                b = self.objs[dst.obj].bytes
                for k in range(ln):
                    b[base + k] = tmp[k]
            return dst
        if n.startswith("@llvm.memset") or n in ("@memset", "@explicit_bzero"):
            if n == "@explicit_bzero":
                dst, val, ln = args[0], 0, args[1]
            else:
                dst, val, ln = args[0], args[1], args[2]
            ln = self.observe(ln, "memset length", where)
            if ln:
                base = self.addr(dst, ln, where, True)
                b = self.objs[dst.obj].bytes
                for k in range(ln):
                    b[base + k] = (val, 0) if isinstance(val, T.Term) else val
            return dst
        m = re.match(r"^@llvm\.(fshl|fshr)\.(v(\d+))?i(\d+)$", n)
        if m:
            w = int(m.group(4))
            left = m.group(1) == "fshl"
            if m.group(2):
                return [T.fsh(left, a, b, c, w) for a, b, c in zip(*args)]
            return T.fsh(left, args[0], args[1], args[2], w)
        m = re.match(r"^@llvm\.(umax|umin|smax|smin)\.i(\d+)$", n)
        if m:
            w = int(m.group(2))
            pred = {"umax": "ugt", "umin": "ult", "smax": "sgt", "smin": "slt"}[m.group(1)]
            return T.select(T.icmp(pred, args[0], args[1], w), args[0], args[1], w)
        m = re.match(r"^@llvm\.bswap\.i(\d+)$", n)
        if m:
            w = int(m.group(1))
            out = None
            for k in range(w // 8):
                byte = T.extract(args[0], 8 * k + 7, 8 * k)
                out = byte if out is None else T.concat(out, byte, 8 * k, 8)
            return out
        m = re.match(r"^@llvm\.(uadd|usub|umul)\.with\.overflow\.i(\d+)$", n)
        if m:
            w = int(m.group(2))
            a, b = T.zext(args[0], w, 2 * w), T.zext(args[1], w, 2 * w)
            op = {"uadd": "add", "usub": "sub", "umul": "mul"}[m.group(1)]
            wide = T.binop(op, a, b, 2 * w)
            lo = T.trunc(wide, w)
            ov = T.icmp("ne", T.binop("lshr", wide, w, 2 * w), 0, 2 * w)
            return [lo, ov]
        m = re.match(r"^@llvm\.ctpop\.i(\d+)$", n)
        if m and not isinstance(args[0], T.Term):
            return bin(args[0]).count("1")
        if n.startswith("@llvm.x86."):
            from . import x86
            r = x86.dispatch(n, args)
            if r is not NotImplemented:
                return r
        if n == "@strlen":
            p_, k = args[0], 0
            while True:
                v = self.load_bytes(Ptr(p_.obj, self._addoff(p_.off, k, 1)), 1, where)
                if isinstance(v, T.Term):
                    raise Unsupported("strlen over symbolic bytes at " + where)
                if v == 0:
                    return k
                k += 1
        if n in ("@sodium_misuse", "@abort", "@__assert_fail"):
            raise Violation("abort", where, "%s reached" % n)
        if n.startswith("@_sodium_dummy_symbol"):
            return None
        raise Unsupported("external call %s at %s" % (n, where))

    # ---------------- instruction parsing ----------------
    def parse_inst(self, line):
        c = self.cache.get(line)
        if c is not None:
            return c
        s = re.sub(r",\s*![A-Za-z0-9_.]+\s+![0-9]+", "", line)
        s = re.sub(r",\s*!srcloc\s+![0-9]+", "", s)
        dest = None
        m = re.match(r'^(%"[^"]*"|%[A-Za-z0-9_.$-]+)\s*=\s*(.*)$', s)
        if m:
            dest, s = m.group(1), m.group(2)
        toks = tokenize(s)
        p = Parser(toks, self.mod)
        op = p.next()
        if op == "tail" or op == "musttail" or op == "notail":
            op = p.next()
        inst = self._parse(op, p, dest, s)
        self.cache[line] = inst
        return inst

    def _parse(self, op, p, dest, raw):
        BIN = ("add", "sub", "mul", "and", "or", "xor", "shl", "lshr", "ashr", "udiv", "urem", "sdiv", "srem")
        if op in BIN:
            while p.peek() in ("nuw", "nsw", "exact"):
                p.next()
            ty = p.type()
            a = p.value(ty)
            p.expect(",")
            b = p.value(ty)
            return ("bin", dest, op, ty, a, b)
        if op == "icmp":
            pred = p.next()
            ty = p.type()
            a = p.value(ty)
            p.expect(",")
            b = p.value(ty)
            return ("icmp", dest, pred, ty, a, b)
        if op in ("zext", "sext", "trunc", "bitcast", "ptrtoint", "inttoptr", "addrspacecast", "freeze"):
            ty = p.type()
            v = p.value(ty)
            if op == "freeze":
                return ("cast", dest, "bitcast", ty, v, ty)
            p.expect("to")
            ty2 = p.type()
            return ("cast", dest, op, ty, v, ty2)
        if op == "load":
            p.accept("volatile"); p.accept("atomic")
            ty = p.type()
            p.expect(",")
            pty = p.type()
            ptr = p.value(pty)
            return ("load", dest, ty, ptr)
        if op == "store":
            p.accept("volatile"); p.accept("atomic")
            ty = p.type()
            v = p.value(ty)
            p.expect(",")
            pty = p.type()
            ptr = p.value(pty)
            return ("store", ty, v, ptr)
        if op == "getelementptr":
            p.accept("inbounds")
            sty = p.type()
            p.expect(",")
            pty = p.type()
            base = p.value(pty)
            idx = []
            while p.accept(","):
                ity = p.type()
                idx.append((ity, p.value(ity)))
            return ("gep", dest, sty, base, idx)
        if op == "alloca":
            ty = p.type()
            cnt = None
            if p.accept(","):
                if p.peek() != "align":
                    cty = p.type()
                    cnt = p.value(cty)
            return ("alloca", dest, ty, cnt)
        if op == "br":
            if p.peek() == "label":
                p.next()
                return ("br", p.next())
            ty = p.type()
            c = p.value(ty)
            p.expect(","); p.expect("label"); t = p.next()
            p.expect(","); p.expect("label"); f = p.next()
            return ("cbr", c, t, f)
        if op == "switch":
            ty = p.type()
            v = p.value(ty)
            p.expect(","); p.expect("label"); default = p.next()
            p.expect("[")
            cases = []
            while not p.accept("]"):
                cty = p.type()
                cv = p.value(cty)
                p.expect(","); p.expect("label")
                cases.append((cv[1], p.next()))
            return ("switch", ty, v, default, cases)
        if op == "ret":
            ty = p.type()
            if ty.k == "void":
                return ("ret", None, None)
            return ("ret", ty, p.value(ty))
        if op == "phi":
            ty = p.type()
            inc = []
            while True:
                p.expect("[")
                v = p.value(ty)
                p.expect(",")
                lab = p.next()
                p.expect("]")
                inc.append((v, lab))
                if not p.accept(","):
                    break
            return ("phi", dest, ty, inc)
        if op == "select":
            cty = p.type()
            c = p.value(cty)
            p.expect(",")
            ty = p.type()
            a = p.value(ty)
            p.expect(",")
            ty2 = p.type()
            b = p.value(ty2)
            return ("select", dest, cty, c, ty, a, b)
        if op == "call":
            while p.peek() in ("fastcc", "ccc", "coldcc", "noundef", "zeroext", "signext", "noalias", "nonnull", "nnan", "fast"):
                p.next()
            p.skip_attrs()
            rty = p.type()
            # rty may have swallowed a function type: "i32 (i8*, ...)* %fp" handled by type() as ptr to func
            if p.peek() == "asm":
                p.next()
                while p.peek() in ("sideeffect", "alignstack", "inteldialect", "unwind"):
                    p.next()
                tmpl = p.next()
                p.expect(",")
                cons = p.next()
                p.expect("(")
                args = []
                if not p.accept(")"):
                    while True:
                        aty = p.type()
                        p.skip_attrs()
                        args.append((aty, p.value(aty)))
                        if p.accept(")"):
                            break
                        p.expect(",")
                return ("asm", dest, rty, tmpl, cons, args)
            callee = p.next()
            p.expect("(")
            args = []
            if not p.accept(")"):
                while True:
                    aty = p.type()
                    p.skip_attrs()
                    if aty.k == "metadata":
                        # metadata operand: skip tokens until , or )
                        depth = 0
                        while not (depth == 0 and p.peek() in (",", ")")):
                            t = p.next()
                            if t == "(":
                                depth += 1
                            elif t == ")":
                                depth -= 1
                        args.append((aty, ("c", 0)))
                    else:
                        args.append((aty, p.value(aty)))
                    if p.accept(")"):
                        break
                    p.expect(",")
            if rty.k == "ptr" and rty.a.k == "func":
                rty = rty.a.a
            return ("call", dest, rty, callee, args)
        if op in ("extractvalue", "insertvalue"):
            ty = p.type()
            agg = p.value(ty)
            if op == "insertvalue":
                p.expect(",")
                ety = p.type()
                ev = p.value(ety)
            idx = []
            while p.accept(","):
                idx.append(int(p.next()))
            if op == "extractvalue":
                return ("extractvalue", dest, ty, agg, idx)
            return ("insertvalue", dest, ty, agg, ety, ev, idx)
        if op in ("extractelement", "insertelement"):
            ty = p.type()
            v = p.value(ty)
            if op == "insertelement":
                p.expect(",")
                ety = p.type()
                ev = p.value(ety)
            p.expect(",")
            ity = p.type()
            iv = p.value(ity)
            if op == "extractelement":
                return ("extractelement", dest, ty, v, iv)
            return ("insertelement", dest, ty, v, ev, iv)
        if op == "shufflevector":
            ty = p.type(); a = p.value(ty); p.expect(",")
            ty2 = p.type(); b = p.value(ty2); p.expect(",")
            mty = p.type(); m = p.value(mty)
            return ("shuffle", dest, ty, a, b, mty, m)
        if op == "unreachable":
            return ("unreachable",)
        if op == "fence":
            return ("nop",)
        raise Unsupported("instruction %s: %s" % (op, raw[:80]))

    # ---------------- evaluation ----------------
    def val(self, ty, d, frame):
        k = d[0]
        if k == "l":
            try:
                return frame[d[1]]
            except KeyError:
                raise Unsupported("use of undefined %s" % d[1])
        if k == "c":
            rty = ty if ty.k != "named" else self.mod.resolve(ty)
            if rty.k == "int":
                return d[1] & ((1 << rty.a) - 1)
            return d[1]
        return self.const_value(ty, d, frame)

    def width(self, ty):
        ty = self.mod.resolve(ty)
        if ty.k == "int":
            return ty.a
        if ty.k == "ptr":
            return 64
        if ty.k == "vec":
            return self.width(ty.b)
        raise Unsupported("width of %r" % (ty,))

    def elementwise(self, ty, f, *vals):
        rty = self.mod.resolve(ty)
        if rty.k == "vec":
            return [f(*xs) for xs in zip(*vals)]
        return f(*vals)

    def run(self, fn, frame):
        mod = self.mod
        cur = fn.entry
        prev = None
        while True:
            insts = fn.blocks[cur]
            # phis are evaluated simultaneously
            pending = None
            for line in insts:
                self.steps += 1
                if self.steps > self.max_steps:
                    raise Unsupported("step budget exceeded")
                inst = self.cache.get(line)
                if inst is None:
                    inst = self.parse_inst(line)
                k = inst[0]
                if k == "phi":
                    if pending is None:
                        pending = {}
                    for v, lab in inst[3]:
                        if lab == prev:
                            pending[inst[1]] = self.val(inst[2], v, frame)
                            break
                    else:
                        raise Unsupported("phi without incoming for %s in %s" % (prev, fn.name))
                    continue
                if pending:
                    frame.update(pending)
                    pending = None
                if k == "bin":
                    _, dest, op, ty, a, b = inst
                    w = self.width(ty)
                    av, bv = self.val(ty, a, frame), self.val(ty, b, frame)
                    where = "%s:%s" % (fn.name, dest)
                    if op in ("udiv", "urem", "sdiv", "srem"):
                        def dv(x, y):
                            if isinstance(y, T.Term):
                                y = self.observe(y, "divisor", where)
                            if isinstance(x, T.Term) and (y & (y - 1)) != 0:
                                # division by a non-power-of-two constant compiles to multiply+shift: not an observation
                                pass
                            return T.binop(op, x, y, w)
                        frame[dest] = self.elementwise(ty, dv, av, bv)
                    elif op == "mul" and self.opaque_mul:
                        def mu(x, y):
                            if isinstance(x, T.Term) and isinstance(y, T.Term) and w >= 64:
                                return T.mk("opaque", (x, y), w)
                            return T.binop(op, x, y, w)
                        frame[dest] = self.elementwise(ty, mu, av, bv)
                    elif isinstance(av, Ptr) or isinstance(bv, Ptr):
                        # integer arithmetic on a pointer value ((uintptr_t) p + n): stays a pointer into the same object
                        if op == "add":
                            pp, ii = (av, bv) if isinstance(av, Ptr) else (bv, av)
                            if isinstance(ii, Ptr):
                                raise Unsupported("pointer + pointer at %s" % fn.name)
                            frame[dest] = Ptr(pp.obj, self._addoff(pp.off, ii, 1))
                        elif op == "sub" and isinstance(av, Ptr) and not isinstance(bv, Ptr):
                            frame[dest] = Ptr(av.obj, self._addoff(av.off, T.binop("sub", 0, bv, 64), 1))
                        elif op == "sub" and isinstance(av, Ptr) and isinstance(bv, Ptr) and av.obj == bv.obj:
                            frame[dest] = T.binop("sub", av.off, bv.off, 64)
                        else:
                            raise Unsupported("integer %s on pointer values in %s" % (op, fn.name))
                    else:
                        frame[dest] = self.elementwise(ty, lambda x, y: T.binop(op, x, y, w), av, bv)
                elif k == "load":
                    _, dest, ty, ptr = inst
                    rty = mod.resolve(ty)
                    p = self.val(None, ptr, frame) if ptr[0] != "c" else 0
                    frame[dest] = self.load_typed(p, rty, "%s:%s" % (fn.name, dest))
                elif k == "store":
                    _, ty, v, ptr = inst
                    rty = mod.resolve(ty)
                    self.store_typed(self.val(None, ptr, frame), rty, self.val(ty, v, frame), fn.name + ":store")
                elif k == "gep":
                    _, dest, sty, base, idx = inst
                    frame[dest] = self.gep(self.val(None, base, frame), sty,
                                           [(ity, self.val(ity, iv, frame)) for ity, iv in idx], "%s:%s" % (fn.name, dest))
                elif k == "icmp":
                    _, dest, pred, ty, a, b = inst
                    av, bv = self.val(ty, a, frame), self.val(ty, b, frame)
                    rty = mod.resolve(ty)
                    if rty.k == "ptr" or isinstance(av, (Ptr, FnPtr)) or isinstance(bv, (Ptr, FnPtr)):
                        frame[dest] = self.ptr_cmp(pred, av, bv, "%s:%s" % (fn.name, dest))
                    else:
                        w = self.width(ty)
                        frame[dest] = self.elementwise(ty, lambda x, y: T.icmp(pred, x, y, w), av, bv)
                elif k == "cast":
                    _, dest, op, ty, v, ty2 = inst
                    x = self.val(ty, v, frame)
                    if op in ("bitcast", "addrspacecast"):
                        frame[dest] = self.bitcast(x, mod.resolve(ty), mod.resolve(ty2))
                    elif op == "ptrtoint" or op == "inttoptr":
                        frame[dest] = x
                    else:
                        w1, w2 = self.width(ty), self.width(ty2)
                        f = {"zext": lambda y: T.zext(y, w1, w2), "sext": lambda y: T.sext(y, w1, w2),
                             "trunc": lambda y: T.trunc(y, w2)}[op]
                        frame[dest] = self.elementwise(ty, f, x)
                elif k == "select":
                    _, dest, cty, c, ty, a, b = inst
                    cv = self.val(cty, c, frame)
                    av, bv = self.val(ty, a, frame), self.val(ty, b, frame)
                    rty = mod.resolve(ty)
                    if rty.k == "vec":
                        w = self.width(ty)
                        if isinstance(cv, list):
                            frame[dest] = [T.select(ci, x, y, w) for ci, x, y in zip(cv, av, bv)]
                        else:
                            frame[dest] = [T.select(cv, x, y, w) for x, y in zip(av, bv)]
                    elif rty.k == "ptr" or isinstance(av, (Ptr, FnPtr)) or isinstance(bv, (Ptr, FnPtr)):
                        if isinstance(cv, T.Term):
                            # select between pointers on a symbolic condition: address depends on it
                            cv = self.observe(cv, "pointer select", "%s:%s" % (fn.name, dest))
                        frame[dest] = av if cv else bv
                    else:
                        frame[dest] = T.select(cv, av, bv, self.width(ty))
                elif k == "call":
                    _, dest, rty, callee, args = inst
                    avs = [self.val(aty, av, frame) for aty, av in args]
                    if callee.startswith("%"):
                        target = frame[callee]
                        if not isinstance(target, FnPtr):
                            raise Unsupported("indirect call through %r" % (target,))
                        callee = target.name
                    r = self.call(callee, avs, "%s:call %s" % (fn.name, callee))
                    if dest is not None:
                        frame[dest] = r
                elif k == "asm":
                    _, dest, rty, tmpl, cons, args = inst
                    avs = [self.val(aty, av, frame) for aty, av in args]
                    if tmpl.strip('"') not in ("", "pause"):
                        raise Unsupported("inline asm %s" % tmpl)
                    if dest is not None:
                        frame[dest] = avs[0] if avs else 0
                elif k == "alloca":
                    _, dest, ty, cnt = inst
                    n = 1
                    if cnt is not None:
                        n = self.observe(self.val(Ty("int", 64), cnt, frame), "alloca size", fn.name)
                    frame[dest] = self.alloc(mod.size_align(ty)[0] * n, "%s:%s" % (fn.name, dest))
                elif k == "br":
                    prev, cur = cur, inst[1]
                    break
                elif k == "cbr":
                    c = self.val(Ty("int", 1), inst[1], frame)
                    if isinstance(c, T.Term):
                        c = self.observe(c, "branch condition", "%s:%s" % (fn.name, cur))
                    else:
                        self.observations += 1
                        self.obs_concrete += 1
                    if self.trace is not None:
                        self.trace.append((fn.name, cur, int(bool(c))))
                    prev, cur = cur, (inst[2] if c else inst[3])
                    break
                elif k == "switch":
                    _, ty, v, default, cases = inst
                    x = self.val(ty, v, frame)
                    x = self.observe(x, "switch value", "%s:%s" % (fn.name, cur))
                    w = self.width(ty)
                    tgt = default
                    for cv, lab in cases:
                        if (cv & T.mask(w)) == x:
                            tgt = lab
                            break
                    prev, cur = cur, tgt
                    break
                elif k == "ret":
                    if inst[1] is None:
                        return None
                    return self.val(inst[1], inst[2], frame)
                elif k == "extractvalue":
                    _, dest, ty, agg, idx = inst
                    v = self.val(ty, agg, frame)
                    for i in idx:
                        v = v[i]
                    frame[dest] = v
                elif k == "insertvalue":
                    _, dest, ty, agg, ety, ev, idx = inst
                    v = self.val(ty, agg, frame)
                    v = self._copyagg(v)
                    t = v
                    for i in idx[:-1]:
                        t = t[i]
                    t[idx[-1]] = self.val(ety, ev, frame)
                    frame[dest] = v
                elif k == "extractelement":
                    _, dest, ty, v, iv = inst
                    i = self.observe(self.val(Ty("int", 64), iv, frame), "vector index", fn.name)
                    frame[dest] = self.val(ty, v, frame)[i]
                elif k == "insertelement":
                    _, dest, ty, v, ev, iv = inst
                    i = self.observe(self.val(Ty("int", 64), iv, frame), "vector index", fn.name)
                    vec = list(self.val(ty, v, frame))
                    vec[i] = self.val(mod.resolve(ty).b, ev, frame)
                    frame[dest] = vec
                elif k == "shuffle":
                    _, dest, ty, a, b, mty, m = inst
                    av, bv = self.val(ty, a, frame), self.val(ty, b, frame)
                    n = mod.resolve(mty).a
                    if m[0] in ("zero", "undef"):
                        mask = [0] * n
                    else:
                        mask = [e[1] if e[0] == "c" else 0 for e in m[1]]
                    both = list(av) + list(bv)
                    frame[dest] = [both[i] for i in mask]
                elif k == "nop":
                    pass
                elif k == "unreachable":
                    raise Violation("abort", fn.name, "unreachable executed")
                else:
                    raise Unsupported("inst kind " + k)
            else:
                raise Unsupported("block %s of %s fell through" % (cur, fn.name))

    def _copyagg(self, v):
        return [self._copyagg(x) if isinstance(x, list) else x for x in v]

    def ptr_cmp(self, pred, a, b, where):
        def key(x):
            if isinstance(x, Ptr):
                off = x.off
                if isinstance(off, T.Term):
                    off = self.observe(off, "pointer comparison", where)
                return (x.obj, off)
            if isinstance(x, FnPtr):
                return (-1, hash(x.name))
            if isinstance(x, T.Term):
                raise Unsupported("symbolic pointer compare at " + where)
            return (0, x)
        ka, kb = key(a), key(b)
        if pred == "eq":
            return int(ka == kb)
        if pred == "ne":
            return int(ka != kb)
        if ka[0] != kb[0]:
            # relational comparison of pointers into different objects: order by object id
            return int({"ult": ka < kb, "ule": ka <= kb, "ugt": ka > kb, "uge": ka >= kb}[pred])
        return T.icmp(pred, ka[1] & T.mask(64), kb[1] & T.mask(64), 64)

    def bitcast(self, x, t1, t2):
        if t1.k == "vec" or t2.k == "vec":
            w1 = self.width(t1) if t1.k == "vec" else None
            # flatten to one wide value (little endian lanes), then split
            if t1.k == "vec":
                acc, accw = None, 0
                for e in x:
                    if acc is None:
                        acc, accw = e, w1
                    else:
                        acc = T.concat(e, acc, w1, accw)
                        accw += w1
            else:
                acc, accw = x, self.width(t1)
            if t2.k == "vec":
                w2 = self.width(t2)
                return [T.extract(acc, w2 * (i + 1) - 1, w2 * i) for i in range(t2.a)]
            return acc
        return x

    def load_typed(self, p, rty, where):
        k = rty.k
        if k == "int":
            n = (rty.a + 7) // 8
            v = self.load_bytes(p, n, where)
            if rty.a % 8:
                v = T.trunc(v, rty.a)
            return v
        if k == "ptr":
            v = self.load_bytes(p, 8, where)
            return v
        if k == "vec":
            es = self.mod.size_align(rty.b)[0]
            el = self.mod.resolve(rty.b)
            return [self.load_typed(Ptr(p.obj, self._addoff(p.off, i * es, 1)), el, where) for i in range(rty.a)]
        if k in ("struct", "arr"):
            out = []
            if k == "arr":
                es = self.mod.size_align(rty.b)[0]
                for i in range(rty.a):
                    out.append(self.load_typed(Ptr(p.obj, self._addoff(p.off, i * es, 1)), self.mod.resolve(rty.b), where))
            else:
                for i, f in enumerate(rty.a):
                    off, _ = self.mod.field_offset(rty, i)
                    out.append(self.load_typed(Ptr(p.obj, self._addoff(p.off, off, 1)), self.mod.resolve(f), where))
            return out
        raise Unsupported("load of %r" % (rty,))

    def store_typed(self, p, rty, v, where):
        k = rty.k
        if k == "int":
            n = (rty.a + 7) // 8
            self.store_bytes(p, v, n, where)
        elif k == "ptr":
            self.store_bytes(p, v, 8, where)
        elif k == "vec":
            es = self.mod.size_align(rty.b)[0]
            el = self.mod.resolve(rty.b)
            if isinstance(p.off, T.Term):
                p = Ptr(p.obj, self.observe(p.off, "address", where))
            for i in range(rty.a):
                self.store_typed(Ptr(p.obj, self._addoff(p.off, i * es, 1)), el, v[i], where)
        elif k in ("struct", "arr"):
            if k == "arr":
                es = self.mod.size_align(rty.b)[0]
                for i in range(rty.a):
                    self.store_typed(Ptr(p.obj, self._addoff(p.off, i * es, 1)), self.mod.resolve(rty.b), v[i], where)
            else:
                for i, f in enumerate(rty.a):
                    off, _ = self.mod.field_offset(rty, i)
                    self.store_typed(Ptr(p.obj, self._addoff(p.off, off, 1)), self.mod.resolve(f), v[i], where)
        else:
            raise Unsupported("store of %r" % (rty,))

    # ---------------- helpers for drivers ----------------
    def new_buffer(self, n, name, secret=False, concrete=None):
        p = self.alloc(max(n, 0), name)
        b = self.objs[p.obj].bytes
        for i in range(n):
            if concrete is not None:
                b[i] = concrete[i] & 0xff
            elif self.concrete_secrets is not None:
                b[i] = self.concrete_secrets.get("%s_%d" % (name, i), 0) & 0xff
            else:
                b[i] = (T.var("%s_%d" % (name, i), 8, secret), 0)
        return p

    def read_buffer(self, p, n):
        return [self.load_bytes(Ptr(p.obj, p.off + i), 1, "read") for i in range(n)]
