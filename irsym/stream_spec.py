"""ChaCha20 (RFC 8439 / original 64-bit counter), HChaCha20, XChaCha20 (draft-irtf-cfrg-xchacha), Salsa20/r (Bernstein),
HSalsa20, XSalsa20 keystream specifications over irsym words; bytes in, bytes out."""
from . import terms as T

SIGMA = [0x61707865, 0x3320646e, 0x79622d32, 0x6b206574]


def add(a, b):
    return T.binop("add", a, b, 32)


def xor(a, b):
    return T.binop("xor", a, b, 32)


def rotl(x, n):
    return T.fsh(True, x, x, n, 32)


def w32(bs):
    acc, w = bs[0], 8
    for b in bs[1:]:
        acc = T.concat(b, acc, 8, w)
        w += 8
    return acc


def b32(x):
    return [T.extract(x, 8 * i + 7, 8 * i) if isinstance(x, T.Term) else (x >> (8 * i)) & 0xff for i in range(4)]


def split64(x):
    """64-bit word -> (lo32, hi32)"""
    if isinstance(x, T.Term):
        return T.extract(x, 31, 0), T.extract(x, 63, 32)
    return x & 0xffffffff, (x >> 32) & 0xffffffff


def chacha_rounds(x, rounds=20):
    x = list(x)

    def qr(a, b, c, d):
        x[a] = add(x[a], x[b]); x[d] = rotl(xor(x[d], x[a]), 16)
        x[c] = add(x[c], x[d]); x[b] = rotl(xor(x[b], x[c]), 12)
        x[a] = add(x[a], x[b]); x[d] = rotl(xor(x[d], x[a]), 8)
        x[c] = add(x[c], x[d]); x[b] = rotl(xor(x[b], x[c]), 7)
    for _ in range(rounds // 2):
        qr(0, 4, 8, 12); qr(1, 5, 9, 13); qr(2, 6, 10, 14); qr(3, 7, 11, 15)
        qr(0, 5, 10, 15); qr(1, 6, 11, 12); qr(2, 7, 8, 13); qr(3, 4, 9, 14)
    return x


def chacha_block(key, w12_15):
    st = SIGMA + [w32(key[4 * i:4 * i + 4]) for i in range(8)] + list(w12_15)
    out = [add(a, b) for a, b in zip(chacha_rounds(st), st)]
    return sum((b32(w) for w in out), [])


def chacha20_stream(key, nonce, ic, n, ietf):
    """ietf: 32-bit counter (ic is a 32-bit word) + 96-bit nonce; else 64-bit counter + 64-bit nonce"""
    out = []
    if not ietf:
        lo, hi = split64(ic)
    for bi in range((n + 63) // 64):
        if ietf:
            ctr = T.binop("add", ic, bi, 32)
            tail = [ctr] + [w32(nonce[4 * i:4 * i + 4]) for i in range(3)]
        else:
            # "the 64-bit block counter in words 12-13 (little endian) is incremented by one after each block"
            if bi:
                lo = T.binop("add", lo, 1, 32)
                hi = T.binop("add", hi, T.zext(T.icmp("eq", lo, 0, 32), 1, 32), 32)
            tail = [lo, hi, w32(nonce[0:4]), w32(nonce[4:8])]
        out += chacha_block(key, tail)
    return out[:n]


def hchacha20(key, n16):
    st = SIGMA + [w32(key[4 * i:4 * i + 4]) for i in range(8)] + [w32(n16[4 * i:4 * i + 4]) for i in range(4)]
    x = chacha_rounds(st)
    return sum((b32(w) for w in x[0:4] + x[12:16]), [])


def xchacha20_stream(key, nonce24, ic, n):
    return chacha20_stream(hchacha20(key, nonce24[:16]), nonce24[16:24], ic, n, False)


def salsa_rounds(x, rounds):
    x = list(x)

    def qr(a, b, c, d):
        x[b] = xor(x[b], rotl(add(x[a], x[d]), 7))
        x[c] = xor(x[c], rotl(add(x[b], x[a]), 9))
        x[d] = xor(x[d], rotl(add(x[c], x[b]), 13))
        x[a] = xor(x[a], rotl(add(x[d], x[c]), 18))
    for _ in range(rounds // 2):
        qr(0, 4, 8, 12); qr(5, 9, 13, 1); qr(10, 14, 2, 6); qr(15, 3, 7, 11)
        qr(0, 1, 2, 3); qr(5, 6, 7, 4); qr(10, 11, 8, 9); qr(15, 12, 13, 14)
    return x


def salsa_state(key, in16):
    k = [w32(key[4 * i:4 * i + 4]) for i in range(8)]
    i = [w32(in16[4 * j:4 * j + 4]) for j in range(4)]
    return [SIGMA[0], k[0], k[1], k[2], k[3], SIGMA[1], i[0], i[1], i[2], i[3], SIGMA[2], k[4], k[5], k[6], k[7], SIGMA[3]]


def salsa20_stream(key, nonce8, ic, n, rounds=20):
    out = []
    for bi in range((n + 63) // 64):
        lo, hi = split64(T.binop("add", ic, bi, 64))
        st = salsa_state(key, list(nonce8) + b32(lo) + b32(hi))
        o = [add(a, b) for a, b in zip(salsa_rounds(st, rounds), st)]
        out += sum((b32(w) for w in o), [])
    return out[:n]


def hsalsa20(key, n16):
    x = salsa_rounds(salsa_state(key, n16), 20)
    return sum((b32(x[j]) for j in (0, 5, 10, 15, 6, 7, 8, 9)), [])


def xsalsa20_stream(key, nonce24, ic, n):
    return salsa20_stream(hsalsa20(key, nonce24[:16]), nonce24[16:24], ic, n)
