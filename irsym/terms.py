"""Symbolic bit-vector terms for irsym (engine E2).

Values are Python ints (concrete, already reduced modulo 2^w) or Term nodes.
Terms are built lazily during interpretation with constant folding and a few
local simplifications; they are translated to z3 only when a solver query is
needed (an observation -- branch condition, address, divisor -- that is not
concrete).  Every Term carries `sec`: whether a secret input is in its
structural support (over-approximation of dependence)."""


class Term(object):
    __slots__ = ("op", "args", "w", "sec", "aux")

    def __init__(self, op, args, w, aux=None):
        self.op = op
        self.args = args
        self.w = w
        self.aux = aux
        s = False
        for a in args:
            if isinstance(a, Term) and a.sec:
                s = True
                break
        self.sec = s

    def __repr__(self):
        return "<%s/%d%s>" % (self.op, self.w, "*" if self.sec else "")


AIG = None      # set by irsym.aig on import (bit-level mode)
LIMB = None     # set by irsym.limb on import (polynomial mode)


def _lv(*xs):
    if LIMB is None:
        return False
    for x in xs:
        if isinstance(x, LIMB.LV):
            return True
    return False

MODE = "term"   # "term" (word-level DAG + z3) or "aig" (bit-level XOR-AND graph)


def _av(*xs):
    if AIG is None:
        return False
    for x in xs:
        if isinstance(x, AIG.AV):
            return True
    return False


def var(name, w, secret=True):
    if MODE == "aig":
        return AIG.var(name, w, secret)
    t = Term("var", (), w, aux=name)
    t.sec = secret
    return t


def mask(w):
    return (1 << w) - 1


def is_c(x):
    return not isinstance(x, Term)


def to_signed(x, w):
    return x - (1 << w) if x >> (w - 1) else x


NTERMS = [0]


def mk(op, args, w, aux=None):
    NTERMS[0] += 1
    return Term(op, args, w, aux)


def binop(op, a, b, w):
    m = mask(w)
    if is_c(a) and is_c(b):
        if op == "add":
            return (a + b) & m
        if op == "sub":
            return (a - b) & m
        if op == "mul":
            return (a * b) & m
        if op == "and":
            return a & b
        if op == "or":
            return a | b
        if op == "xor":
            return a ^ b
        if op == "shl":
            return (a << b) & m if b < w else 0
        if op == "lshr":
            return a >> b if b < w else 0
        if op == "ashr":
            return (to_signed(a, w) >> min(b, w - 1)) & m
        if op == "udiv":
            return a // b if b else 0
        if op == "urem":
            return a % b if b else 0
        if op == "sdiv":
            sa, sb = to_signed(a, w), to_signed(b, w)
            if sb == 0:
                return 0
            q = abs(sa) // abs(sb)
            return (q if (sa < 0) == (sb < 0) else -q) & m
        if op == "srem":
            sa, sb = to_signed(a, w), to_signed(b, w)
            if sb == 0:
                return 0
            r = abs(sa) % abs(sb)
            return (r if sa >= 0 else -r) & m
        raise ValueError(op)
    if _av(a, b):
        return AIG.binop(op, a, b, w)
    if _lv(a, b):
        return LIMB.binop(op, a, b, w)
    # local simplifications
    if op in ("and", "mul"):
        if (is_c(a) and a == 0) or (is_c(b) and b == 0):
            return 0
    if op == "and":
        if is_c(a) and a == m:
            return b
        if is_c(b) and b == m:
            return a
        if a is b:
            return a
    if op == "or":
        if is_c(a) and a == 0:
            return b
        if is_c(b) and b == 0:
            return a
        if (is_c(a) and a == m) or (is_c(b) and b == m):
            return m
        if a is b:
            return a
    if op in ("xor", "sub"):
        if a is b:
            return 0
    if op in ("add", "xor", "sub", "shl", "lshr", "ashr"):
        if is_c(b) and b == 0:
            return a
    if op in ("add", "xor", "or"):
        if is_c(a) and a == 0:
            return b
    if op == "mul":
        if is_c(a) and a == 1:
            return b
        if is_c(b) and b == 1:
            return a
    if op in ("shl", "lshr") and is_c(b) and b >= w:
        return 0
    return mk(op, (a, b), w)


def icmp(pred, a, b, w):
    if is_c(a) and is_c(b):
        if pred in ("slt", "sle", "sgt", "sge"):
            a, b = to_signed(a, w), to_signed(b, w)
        return int({"eq": a == b, "ne": a != b, "ult": a < b, "ule": a <= b, "ugt": a > b, "uge": a >= b,
                    "slt": a < b, "sle": a <= b, "sgt": a > b, "sge": a >= b}[pred])
    if a is b:
        return int(pred in ("eq", "ule", "uge", "sle", "sge"))
    if _av(a, b):
        return AIG.icmp(pred, a, b, w)
    return mk("icmp", (a, b), 1, aux=(pred, w))


def select(c, a, b, w):
    if is_c(c):
        return a if c else b
    if a is b or (is_c(a) and is_c(b) and a == b):
        return a
    if _av(c, a, b):
        return AIG.select(c, a, b, w)
    return mk("select", (c, a, b), w)


def zext(a, w_from, w_to):
    if is_c(a):
        return a
    if _av(a):
        return AIG.zext(a, w_from, w_to)
    if _lv(a):
        return LIMB.zext(a, w_from, w_to)
    return mk("zext", (a,), w_to, aux=w_from)


def sext(a, w_from, w_to):
    if is_c(a):
        return to_signed(a, w_from) & mask(w_to)
    if _av(a):
        return AIG.sext(a, w_from, w_to)
    if _lv(a):
        return LIMB.sext(a, w_from, w_to)
    return mk("sext", (a,), w_to, aux=w_from)


def extract(a, hi, lo):
    """bits hi..lo inclusive"""
    w = hi - lo + 1
    if is_c(a):
        return (a >> lo) & mask(w)
    if lo == 0 and w == a.w:
        return a
    if _av(a):
        return AIG.extract(a, hi, lo)
    if _lv(a):
        return LIMB.extract(a, hi, lo)
    if a.op == "zext" and hi < a.aux:
        return extract(a.args[0], hi, lo)
    if a.op == "zext" and lo >= a.aux:
        return 0
    if a.op == "concat":
        # args: (hi_part, lo_part)
        lo_part = a.args[1]
        lw = lo_part.w if isinstance(lo_part, Term) else a.aux
        if hi < lw:
            return extract(lo_part, hi, lo)
        if lo >= lw:
            return extract(a.args[0], hi - lw, lo - lw)
    if a.op == "extract":
        return extract(a.args[0], hi + a.aux[1], lo + a.aux[1])
    return mk("extract", (a,), w, aux=(hi, lo))


def trunc(a, w_to):
    return extract(a, w_to - 1, 0)


def concat(hi, lo, whi, wlo):
    if is_c(hi) and is_c(lo):
        return (hi << wlo) | lo
    if _av(hi, lo):
        return AIG.concat(hi, lo, whi, wlo)
    if _lv(hi, lo):
        return LIMB.concat(hi, lo, whi, wlo)
    if is_c(hi) and hi == 0 and not is_c(lo):
        return zext(lo, wlo, whi + wlo)
    # re-fuse adjacent extracts of the same node
    if isinstance(hi, Term) and isinstance(lo, Term) and hi.op == "extract" and lo.op == "extract" \
            and hi.args[0] is lo.args[0] and hi.aux[1] == lo.aux[0] + 1:
        return extract(hi.args[0], hi.aux[0], lo.aux[1])
    if isinstance(hi, Term) and hi.op == "extract" and isinstance(lo, Term) and lo is hi.args[0] is None:
        pass
    t = mk("concat", (hi, lo), whi + wlo, aux=wlo)
    return t


def fsh(left, a, b, c, w):
    """funnel shift: concat(a,b) shifted by c mod w"""
    if _av(a, b, c):
        return AIG.fsh(left, a, b, c, w)
    if is_c(c):
        c %= w
        if c == 0:
            return a if left else b
        if left:
            return binop("or", binop("shl", a, c, w), binop("lshr", b, w - c, w), w)
        return binop("or", binop("lshr", b, c, w), binop("shl", a, w - c, w), w)
    return mk("fshl" if left else "fshr", (a, b, c), w)


# --------------------------------------------------------------------------
def to_z3(root, z3):
    """translate a Term DAG to a z3 expression (iterative, memoised)"""
    memo = {}
    stack = [root]
    while stack:
        t = stack[-1]
        if id(t) in memo:
            stack.pop()
            continue
        if not isinstance(t, Term):
            stack.pop()
            continue
        pend = [a for a in t.args if isinstance(a, Term) and id(a) not in memo]
        if pend:
            stack.extend(pend)
            continue
        stack.pop()

        def g(x, w):
            return memo[id(x)] if isinstance(x, Term) else z3.BitVecVal(x, w)
        op = t.op
        if op == "var":
            e = z3.BitVec(t.aux, t.w)
        elif op in ("add", "sub", "mul", "and", "or", "xor", "shl", "lshr", "ashr", "udiv", "urem", "sdiv", "srem"):
            a, b = g(t.args[0], t.w), g(t.args[1], t.w)
            e = {"add": lambda: a + b, "sub": lambda: a - b, "mul": lambda: a * b, "and": lambda: a & b,
                 "or": lambda: a | b, "xor": lambda: a ^ b, "shl": lambda: a << b, "lshr": lambda: z3.LShR(a, b),
                 "ashr": lambda: a >> b, "udiv": lambda: z3.UDiv(a, b), "urem": lambda: z3.URem(a, b),
                 "sdiv": lambda: a / b, "srem": lambda: z3.SRem(a, b)}[op]()
        elif op == "icmp":
            pred, w = t.aux
            a, b = g(t.args[0], w), g(t.args[1], w)
            c = {"eq": lambda: a == b, "ne": lambda: a != b, "ult": lambda: z3.ULT(a, b), "ule": lambda: z3.ULE(a, b),
                 "ugt": lambda: z3.UGT(a, b), "uge": lambda: z3.UGE(a, b), "slt": lambda: a < b, "sle": lambda: a <= b,
                 "sgt": lambda: a > b, "sge": lambda: a >= b}[pred]()
            e = z3.If(c, z3.BitVecVal(1, 1), z3.BitVecVal(0, 1))
        elif op == "select":
            e = z3.If(g(t.args[0], 1) == 1, g(t.args[1], t.w), g(t.args[2], t.w))
        elif op == "zext":
            e = z3.ZeroExt(t.w - t.aux, g(t.args[0], t.aux))
        elif op == "sext":
            e = z3.SignExt(t.w - t.aux, g(t.args[0], t.aux))
        elif op == "extract":
            a = t.args[0]
            e = z3.Extract(t.aux[0], t.aux[1], g(a, a.w))
        elif op == "concat":
            e = z3.Concat(g(t.args[0], t.w - t.aux), g(t.args[1], t.aux))
        elif op in ("fshl", "fshr"):
            a, b, c = g(t.args[0], t.w), g(t.args[1], t.w), g(t.args[2], t.w)
            cc = z3.URem(c, z3.BitVecVal(t.w, t.w))
            wide = z3.Concat(a, b)
            if op == "fshl":
                e = z3.Extract(2 * t.w - 1, t.w, wide << z3.ZeroExt(t.w, cc))
            else:
                e = z3.Extract(t.w - 1, 0, z3.LShR(wide, z3.ZeroExt(t.w, cc)))
        elif op == "opaque":
            e = z3.BitVec("opaque_%d" % id(t), t.w)
        else:
            raise ValueError("to_z3: " + op)
        memo[id(t)] = e
    return memo[id(root)]


def dag_size(root):
    seen = set()
    stack = [root]
    while stack:
        t = stack.pop()
        if not isinstance(t, Term) or id(t) in seen:
            continue
        seen.add(id(t))
        stack.extend(t.args)
    return len(seen)
