"""E2 equiv obligations: SIMD back ends == reference units on shared symbolic
inputs (bit-level graph + SAT sweeping).  One obligation = one pair of entry
points at one public shape (length); keys, nonces, counters, chaining values
and messages are symbolic."""
import json
import os
import sys
import time
import traceback

from . import aig, build, equiv, interp, ir, terms as T
from .nonint import _name


def sym_bytes(name, n):
    return [aig.var("%s%d" % (name, i), 8) for i in range(n)]


def fill(it, ptr, vals):
    b = it.objs[ptr.obj].bytes
    for i, v in enumerate(vals):
        b[ptr.off + i] = (v, 0) if isinstance(v, T.Term) else v


def bits8(x):
    return x.bits if isinstance(x, aig.AV) else aig.const_bits(x, 8)


# ---- stream ciphers: entry(c, m, mlen, n, ic, k) --------------------------
def stream_inputs(p):
    return {"key": sym_bytes("k", 32), "nonce": sym_bytes("n", 8), "msg": sym_bytes("m", p["len"]), "ic": aig.var("ic", 64)}


def stream_run(it, entry, inp, p):
    n = p["len"]
    c = it.new_buffer(n, "c", False, [0] * n)
    m = it.new_buffer(n, "m", False, [0] * n)
    nn = it.new_buffer(8, "n", False, [0] * 8)
    k = it.new_buffer(32, "k", False, [0] * 32)
    fill(it, m, inp["msg"]); fill(it, nn, inp["nonce"]); fill(it, k, inp["key"])
    it.call(_name(it, entry), [c, m, n, nn, inp["ic"], k])
    return [bits8(x) for x in it.read_buffer(c, n)]


# ---- BLAKE2b compression: entry(S, block) ---------------------------------
def b2_inputs(p):
    return {"h": sym_bytes("h", 64), "t": sym_bytes("t", 16), "f": sym_bytes("f", 16), "block": sym_bytes("b", 128)}


def b2_run(it, entry, inp, p):
    S = it.new_buffer(64 + 16 + 16 + 256 + 8 + 8, "S", False, [0] * 368)
    fill(it, S, inp["h"] + inp["t"] + inp["f"])
    blk = it.new_buffer(128, "block", False, [0] * 128)
    fill(it, blk, inp["block"])
    it.call(_name(it, entry), [S, blk])
    return [bits8(x) for x in it.read_buffer(S, 64)]


CH = "crypto_stream/chacha20/"
SA = "crypto_stream/salsa20/"
B2 = "crypto_generichash/blake2b/ref/"
U = ["sodium/utils.c"]
TARGETS = [
    dict(name="chacha20-ssse3", inputs=stream_inputs, run=stream_run,
         a=dict(units=[CH + "ref/chacha20_ref.c"] + U, entry="stream_ref_xor_ic"),
         b=dict(units=[CH + "dolbeau/chacha20_dolbeau-ssse3.c"] + U, entry="stream_ref_xor_ic"),
         quick=[{"len": n} for n in (1, 63, 64, 65, 128, 191)], thorough=[{"len": n} for n in (0, 255, 256, 257, 320)]),
    dict(name="chacha20-avx2", inputs=stream_inputs, run=stream_run,
         a=dict(units=[CH + "ref/chacha20_ref.c"] + U, entry="stream_ref_xor_ic"),
         b=dict(units=[CH + "dolbeau/chacha20_dolbeau-avx2.c"] + U, entry="stream_ref_xor_ic"),
         quick=[{"len": n} for n in (1, 64, 65, 128)], thorough=[{"len": n} for n in (255, 256, 257, 512, 513)]),
    dict(name="salsa20-sse2", inputs=stream_inputs, run=stream_run,
         a=dict(units=[SA + "ref/salsa20_ref.c", "crypto_core/salsa/ref/core_salsa_ref.c"] + U, entry="stream_ref_xor_ic", undefs=["HAVE_AMD64_ASM"]),
         b=dict(units=[SA + "xmm6int/salsa20_xmm6int-sse2.c"] + U, entry="stream_sse2_xor_ic", undefs=["HAVE_AMD64_ASM"]),
         quick=[{"len": n} for n in (1, 64, 65, 128)], thorough=[{"len": n} for n in (255, 256, 257)]),
    dict(name="salsa20-avx2", inputs=stream_inputs, run=stream_run,
         a=dict(units=[SA + "ref/salsa20_ref.c", "crypto_core/salsa/ref/core_salsa_ref.c"] + U, entry="stream_ref_xor_ic", undefs=["HAVE_AMD64_ASM"]),
         b=dict(units=[SA + "xmm6int/salsa20_xmm6int-avx2.c"] + U, entry="stream_avx2_xor_ic"),
         quick=[{"len": n} for n in (1, 64, 65, 128)], thorough=[{"len": n} for n in (255, 256, 512, 513)]),
    dict(name="blake2b-ssse3", inputs=b2_inputs, run=b2_run,
         a=dict(units=[B2 + "blake2b-compress-ref.c"] + U, entry="blake2b_compress_ref"),
         b=dict(units=[B2 + "blake2b-compress-ssse3.c"] + U, entry="blake2b_compress_ssse3"), quick=[], thorough=[{}]),
    dict(name="blake2b-sse41", inputs=b2_inputs, run=b2_run,
         a=dict(units=[B2 + "blake2b-compress-ref.c"] + U, entry="blake2b_compress_ref"),
         b=dict(units=[B2 + "blake2b-compress-sse41.c"] + U, entry="blake2b_compress_sse41"), quick=[], thorough=[{}]),
    dict(name="blake2b-avx2", inputs=b2_inputs, run=b2_run,
         a=dict(units=[B2 + "blake2b-compress-ref.c"] + U, entry="blake2b_compress_ref"),
         b=dict(units=[B2 + "blake2b-compress-avx2.c"] + U, entry="blake2b_compress_avx2"), quick=[], thorough=[{}]),
]


def params_of(t, tier):
    return list(t["quick"]) + (list(t["thorough"]) if tier == "thorough" else [])


def load(side, workroot, tag):
    wd = os.path.join(workroot, "eq-" + tag)
    ll = os.path.join(wd, "linked.ll")
    if not os.path.exists(ll):
        tmp = wd + ".tmp%d" % os.getpid()
        build.build_module(tmp, side["units"], undefs=side.get("undefs", ()))
        try:
            os.rename(tmp, wd)
        except OSError:
            pass
    return ir.parse_module(open(ll).read())


def run_one(tname, tier, pidx, workroot, budget=900):
    t = [x for x in TARGETS if x["name"] == tname][0]
    p = params_of(t, tier)[pidx]
    res = {"target": tname, "params": p, "status": "inconclusive", "detail": "", "wall_s": 0.0}
    t0 = time.time()
    try:
        T.MODE = "aig"
        aig.reset()
        inp = t["inputs"](p)
        outs = []
        steps = []
        for side, tag in ((t["a"], tname + "-a"), (t["b"], tname + "-b")):
            mod = load(side, workroot, tag)
            it = interp.Interp(mod, None)
            outs.append(t["run"](it, side["entry"], inp, p))
            steps.append(it.steps)
        nodes = aig.G.size()
        nbits = sum(len(v) for v in outs[0])
        ident = sum(1 for va, vb in zip(*outs) for x, y in zip(va, vb) if x == y)
        cnfdir = os.path.join(workroot, "cnf-%d" % os.getpid())
        os.makedirs(cnfdir, exist_ok=True)
        verdict, info = equiv.check_equal(outs[0], outs[1], cnfdir, budget_s=budget)
        res.update(ir_steps=steps, graph_nodes=nodes, output_bits=nbits, structurally_identical_bits=ident,
                   sat_calls=info.get("sat_calls", 0), unsat=info.get("unsat", 0), sat_time_s=round(info.get("sat_time", 0), 2),
                   merged=info.get("merged", 0))
        if verdict == "equal":
            res["status"] = "ok"
        elif verdict == "different":
            res["status"] = "violation"
            res["detail"] = "outputs differ for the returned input assignment"
            res["assignment"] = info.get("assignment")
        else:
            res["detail"] = "equivalence not decided within budget: %s" % {k: info[k] for k in info if k != "assignment"}
    except (interp.Unsupported, interp.Violation, build.IRBuildError, SyntaxError, KeyError, aig.T_Unsupported) as e:
        res["detail"] = "%s: %s" % (type(e).__name__, str(e)[:500])
    except Exception:
        res["detail"] = "exception: " + traceback.format_exc()[-700:]
    res["wall_s"] = round(time.time() - t0, 2)
    return res


def replay(tname, tier, pidx, workroot, assign_path):
    """concrete re-execution of both units on the counterexample input; exit 1 if outputs differ"""
    t = [x for x in TARGETS if x["name"] == tname][0]
    p = params_of(t, tier)[pidx]
    assign = json.load(open(assign_path))
    T.MODE = "aig"
    aig.reset()
    inp = t["inputs"](p)
    # concretise: map every input literal name to its value
    val = {}
    for n, nm in aig.G.names.items():
        val[n] = 1 if assign.get(nm) else 0

    def conc(x):
        if isinstance(x, aig.AV):
            v = 0
            for i, l in enumerate(x.bits):
                b = l if l <= 1 else (val[l >> 1] ^ (l & 1))
                v |= b << i
            return v
        return x
    cinp = {k: ([conc(e) for e in v] if isinstance(v, list) else conc(v)) for k, v in inp.items()}
    outs = []
    for side, tag in ((t["a"], tname + "-a"), (t["b"], tname + "-b")):
        mod = load(side, workroot, tag)
        it = interp.Interp(mod, None)
        o = t["run"](it, side["entry"], cinp, p)
        outs.append([sum(b << i for i, b in enumerate(v)) for v in o])
    if outs[0] != outs[1]:
        k = [i for i, (x, y) in enumerate(zip(*outs)) if x != y][0]
        print("REPLAY-FAIL: reference and %s outputs differ at byte %d: %02x vs %02x" % (tname, k, outs[0][k], outs[1][k]))
        return 1
    print("REPLAY-END-REACHED: outputs identical")
    return 0


if __name__ == "__main__":
    if sys.argv[1] == "replay":
        sys.exit(replay(sys.argv[2], sys.argv[3], int(sys.argv[4]), sys.argv[5], sys.argv[6]))
    if sys.argv[1] == "list":
        print(json.dumps([(t["name"], len(params_of(t, sys.argv[2])), [str(p) for p in params_of(t, sys.argv[2])]) for t in TARGETS]))
    else:
        print(json.dumps(run_one(sys.argv[1], sys.argv[2], int(sys.argv[3]), sys.argv[4],
                                 budget=int(os.environ.get("IRSYM_EQUIV_BUDGET", "120" if sys.argv[2] == "quick" else "2000"))), default=str))
