"""E2 equiv obligations: SIMD back ends == reference units on shared symbolic
inputs (bit-level graph + SAT sweeping).  One obligation = one pair of entry
points at one public shape (length); keys, nonces, counters, chaining values
and messages are symbolic."""
import json
import os
import sys
import time
import traceback

from . import aig, build, equiv, interp, ir, terms as T
from .nonint import _name


def sym_bytes(name, n):
    return [aig.var("%s%d" % (name, i), 8) for i in range(n)]


def fill(it, ptr, vals):
    b = it.objs[ptr.obj].bytes
    for i, v in enumerate(vals):
        b[ptr.off + i] = (v, 0) if isinstance(v, T.Term) else v


def bits8(x):
    return x.bits if isinstance(x, aig.AV) else aig.const_bits(x, 8)


# ---- stream ciphers: entry(c, m, mlen, n, ic, k) --------------------------
def stream_inputs(p):
    # the initial block counter is symbolic (64 bits) unless the shape fixes it: the 8-block AVX2 paths build their lane
    # counters with one 64-bit vector add where the reference increments word by word, which the sweeping does not
    # close for a symbolic counter at >= 512 bytes -- those shapes enumerate counters around the 2^32 carry instead
    return {"key": sym_bytes("k", 32), "nonce": sym_bytes("n", 8), "msg": sym_bytes("m", p["len"]),
            "ic": p["ic"] if "ic" in p else aig.var("ic", 64)}


def stream_run(it, entry, inp, p):
    n = p["len"]
    c = it.new_buffer(n, "c", False, [0] * n)
    m = it.new_buffer(n, "m", False, [0] * n)
    nn = it.new_buffer(8, "n", False, [0] * 8)
    k = it.new_buffer(32, "k", False, [0] * 32)
    fill(it, m, inp["msg"]); fill(it, nn, inp["nonce"]); fill(it, k, inp["key"])
    it.call(_name(it, entry), [c, m, n, nn, inp["ic"], k])
    return [bits8(x) for x in it.read_buffer(c, n)]


# ---- Poly1305: SSE2 unit vs donna unit, one-shot, key r concrete (a power of two), pad and message symbolic --------
def p1305_inputs(p):
    return {"pad": sym_bytes("s", 16), "msg": sym_bytes("m", p["len"])}


def p1305_run(it, entry, inp, p):
    n = p["len"]
    m = it.new_buffer(n, "m", False, [0] * n)
    k = it.new_buffer(32, "k", False, list(int(p["r"]).to_bytes(16, "little")) + [0] * 16)
    out = it.new_buffer(16, "out", False, [0] * 16)
    fill(it, m, inp["msg"])
    fill(it, Ptr_off(k, 16), inp["pad"])
    it.call(_name(it, entry), [out, m, n, k])
    return [bits8(x) for x in it.read_buffer(out, 16)]


# ---- BLAKE2b compression: entry(S, block) ---------------------------------
def b2_inputs(p):
    return {"h": sym_bytes("h", 64), "t": sym_bytes("t", 16), "f": sym_bytes("f", 16), "block": sym_bytes("b", 128)}


def b2_run(it, entry, inp, p):
    S = it.new_buffer(64 + 16 + 16 + 256 + 8 + 8, "S", False, [0] * 368)
    fill(it, S, inp["h"] + inp["t"] + inp["f"])
    blk = it.new_buffer(128, "block", False, [0] * 128)
    fill(it, blk, inp["block"])
    it.call(_name(it, entry), [S, blk])
    return [bits8(x) for x in it.read_buffer(S, 64)]


# ---- AES-256-GCM (AES-NI/PCLMUL unit) vs SP 800-38D spec ----------------
# key and nonce are concrete (two fixed values): the tag is then a GF(2)-affine function of message and
# associated data, decided by the affine-canonical graph; message, ad and the forged-tag delta are symbolic
GCM_KEYS = [bytes((7 * i + 3) & 0xff for i in range(32)), bytes.fromhex("feffe9928665731c6d6a8f9467308308feffe9928665731c6d6a8f9467308308")]
GCM_IVS = [bytes((0x51 + 29 * i) & 0xff for i in range(12)), bytes.fromhex("cafebabefacedbaddecaf888")]


ALG = {
    "aes256gcm": dict(prefix="crypto_aead_aes256gcm", klen=32, nlen=12, abytes=16, failfill=0xd0),
    "aegis128l": dict(prefix="crypto_aead_aegis128l", klen=16, nlen=16, abytes=32, failfill=0x00),
    "aegis256": dict(prefix="crypto_aead_aegis256", klen=32, nlen=32, abytes=32, failfill=0x00),
}


def gcm_inputs(p):
    cfg = ALG[p.get("alg", "aes256gcm")]
    if p.get("alg", "aes256gcm") == "aes256gcm":
        key = list(GCM_KEYS[p.get("key", 0)])
        iv = sym_bytes("n", 12) if p.get("symiv") else list(GCM_IVS[p.get("key", 0)])
    else:       # AEGIS: key and nonce symbolic
        key, iv = sym_bytes("k", cfg["klen"]), sym_bytes("n", cfg["nlen"])
    inp = {"key": key, "iv": iv, "msg": sym_bytes("m", p["mlen"]), "ad": sym_bytes("a", p["adlen"])}
    if p["form"] == "dec_forged_tag":
        inp["delta"] = sym_bytes("d", cfg["abytes"])
    return inp


def _b(x):
    return bits8(x)


def _cb(v, n):
    return [aig.const_bits((v >> (8 * i)) & 0xff, 8) for i in range(n)]


def gcm_expected(inp, p):
    from . import gcm_spec
    alg = p.get("alg", "aes256gcm")
    if alg != "aes256gcm":
        from . import aegis_spec
        fn = aegis_spec.aegis128l_encrypt if alg == "aegis128l" else aegis_spec.aegis256_encrypt
        return fn([_b(x) for x in inp["key"]], [_b(x) for x in inp["iv"]], [_b(x) for x in inp["msg"]], [_b(x) for x in inp["ad"]])
    c, tag = gcm_spec.gcm_encrypt([_b(x) for x in inp["key"]], [_b(x) for x in inp["iv"]], [_b(x) for x in inp["msg"]], [_b(x) for x in inp["ad"]])
    return c, tag


def gcm_spec_out(inp, p):
    c, tag = gcm_expected(inp, p)
    f = p["form"]
    ml = p["mlen"]
    cfg = ALG[p.get("alg", "aes256gcm")]
    AB, FILL = cfg["abytes"], cfg["failfill"]
    ok, fail = [aig.const_bits(0, 32)], [aig.const_bits(0xffffffff, 32)]
    if f in ("enc_detached", "enc_detached_afternm"):
        return ok + c + tag + _cb(AB, 8)
    if f in ("enc", "enc_inplace", "enc_afternm"):
        return ok + c + tag + _cb(ml + AB, 8)
    if f in ("dec_detached", "dec_detached_inplace", "dec_detached_afternm"):
        return ok + [_b(x) for x in inp["msg"]]
    if f in ("dec", "dec_inplace", "dec_afternm"):
        return ok + [_b(x) for x in inp["msg"]] + _cb(ml, 8)
    if f == "dec_verify_only":
        return ok
    if f in ("dec_forged_tag", "dec_forged_c", "dec_forged_ad", "dec_truncated"):
        if f == "dec_truncated":
            return fail + _cb(0, 8)
        return fail + [aig.const_bits(FILL, 8)] * ml + _cb(0, 8)
    if f == "verify_only_forged":
        return fail
    raise KeyError(f)


def _flip(byte_bits, bit):
    return aig.mkv([l ^ (1 if i == bit else 0) for i, l in enumerate(byte_bits)])


def gcm_run(it, entry, inp, p):
    f, ml, al = p["form"], p["mlen"], p["adlen"]
    cfg = ALG[p.get("alg", "aes256gcm")]
    AB, KL, NL, PRE = cfg["abytes"], cfg["klen"], cfg["nlen"], cfg["prefix"]
    if p.get("impl"):
        # select the back end the way _pick_best_implementation does: the dispatcher's static pointer
        gp = [g for g in it.mod.globals if g.startswith("@implementation")]
        it.store_bytes(it.global_ptr(gp[0]), it.global_ptr("@" + p["impl"]), 8, "select back end")
    A = lambda fn: _name(it, fn.replace("crypto_aead_aes256gcm", PRE))
    ret = lambda r: [aig.const_bits(r & 0xffffffff, 32)] if not isinstance(r, aig.AV) else [r.bits]
    k = it.new_buffer(KL, "k", False, [0] * KL)
    fill(it, k, inp["key"])
    n = it.new_buffer(NL, "npub", False, [0] * NL)
    fill(it, n, inp["iv"])
    ad = it.new_buffer(al, "ad", False, [0] * al)
    fill(it, ad, inp["ad"])
    ln = it.new_buffer(8, "len_p", False, [0xee] * 8)
    if f.startswith("enc"):
        if f == "enc_inplace":
            buf = it.new_buffer(ml + AB, "buf", False, [0] * (ml + AB))
            fill(it, buf, inp["msg"])
            r = it.call(A("crypto_aead_aes256gcm_encrypt"), [buf, ln, buf, ml, ad, al, 0, n, k])
            return ret(r) + [_b(x) for x in it.read_buffer(buf, ml + AB)] + [_b(x) for x in it.read_buffer(ln, 8)]
        m = it.new_buffer(ml, "m", False, [0] * ml)
        fill(it, m, inp["msg"])
        if f in ("enc", "enc_afternm"):
            c = it.new_buffer(ml + AB, "c", False, [0] * (ml + AB))
            if f == "enc":
                r = it.call(A("crypto_aead_aes256gcm_encrypt"), [c, ln, m, ml, ad, al, 0, n, k])
            else:
                st = it.new_buffer(512, "ctx", False, [0] * 512)
                it.call(A("crypto_aead_aes256gcm_beforenm"), [st, k])
                r = it.call(A("crypto_aead_aes256gcm_encrypt_afternm"), [c, ln, m, ml, ad, al, 0, n, st])
            return ret(r) + [_b(x) for x in it.read_buffer(c, ml + AB)] + [_b(x) for x in it.read_buffer(ln, 8)]
        c = it.new_buffer(ml, "c", False, [0] * ml)
        mac = it.new_buffer(AB, "mac", False, [0] * AB)
        if f == "enc_detached":
            r = it.call(A("crypto_aead_aes256gcm_encrypt_detached"), [c, mac, ln, m, ml, ad, al, 0, n, k])
        else:
            st = it.new_buffer(512, "ctx", False, [0] * 512)
            it.call(A("crypto_aead_aes256gcm_beforenm"), [st, k])
            r = it.call(A("crypto_aead_aes256gcm_encrypt_detached_afternm"), [c, mac, ln, m, ml, ad, al, 0, n, st])
        return ret(r) + [_b(x) for x in it.read_buffer(c, ml)] + [_b(x) for x in it.read_buffer(mac, AB)] + [_b(x) for x in it.read_buffer(ln, 8)]
    # decrypt forms: the presented ciphertext and tag are the specification's (canonical literals over m / ad)
    c, tag = gcm_expected(inp, p)
    c = [aig.mkv(x) for x in c]
    tag = [aig.mkv(x) for x in tag]
    if f == "dec_forged_tag":
        d = inp["delta"]
        tag = [T.binop("xor", x, y, 8) for x, y in zip(tag, d)]
        nz = 0
        for x in d:
            for l in bits8(x):
                nz = aig.G.OR(nz, l)
        it.assume_lits = [nz]          # delta != 0
    elif f in ("dec_forged_c", "verify_only_forged"):
        j = p["pos"]
        c[j] = _flip(_b(c[j]), p.get("bit", 0))
    elif f == "dec_forged_ad":
        j = p["pos"]
        fill(it, Ptr_off(ad, j), [_flip(_b(inp["ad"][j]), p.get("bit", 0))])
    if f in ("dec_afternm", "dec_detached_afternm"):
        st = it.new_buffer(512, "ctx", False, [0] * 512)
        it.call(A("crypto_aead_aes256gcm_beforenm"), [st, k])
        mo = it.new_buffer(ml, "mout", False, [0x11] * ml)
        if f == "dec_afternm":
            cb = it.new_buffer(ml + AB, "c", False, [0] * (ml + AB))
            fill(it, cb, c + tag)
            r = it.call(A("crypto_aead_aes256gcm_decrypt_afternm"), [mo, ln, 0, cb, ml + AB, ad, al, n, st])
            return ret(r) + [_b(x) for x in it.read_buffer(mo, ml)] + [_b(x) for x in it.read_buffer(ln, 8)]
        cb = it.new_buffer(ml, "c", False, [0] * ml)
        fill(it, cb, c)
        mac = it.new_buffer(AB, "mac", False, [0] * AB)
        fill(it, mac, tag)
        r = it.call(A("crypto_aead_aes256gcm_decrypt_detached_afternm"), [mo, 0, cb, ml, mac, ad, al, n, st])
        return ret(r) + [_b(x) for x in it.read_buffer(mo, ml)]
    if f in ("dec_detached", "dec_detached_inplace", "dec_verify_only", "verify_only_forged"):
        cb = it.new_buffer(ml, "c", False, [0] * ml)
        fill(it, cb, c)
        mac = it.new_buffer(AB, "mac", False, [0] * AB)
        fill(it, mac, tag)
        if f in ("dec_verify_only", "verify_only_forged"):
            r = it.call(A("crypto_aead_aes256gcm_decrypt_detached"), [0, 0, cb, ml, mac, ad, al, n, k])
            return ret(r)
        mo = cb if f == "dec_detached_inplace" else it.new_buffer(ml, "mout", False, [0x11] * ml)
        r = it.call(A("crypto_aead_aes256gcm_decrypt_detached"), [mo, 0, cb, ml, mac, ad, al, n, k])
        return ret(r) + [_b(x) for x in it.read_buffer(mo, ml)]
    if f == "dec_truncated":
        tl = p["clen"]
        cb = it.new_buffer(tl, "c", False, [0] * tl)
        fill(it, cb, (c + tag)[:tl])
        mo = it.new_buffer(1, "mout", False, [0x11])
        r = it.call(A("crypto_aead_aes256gcm_decrypt"), [mo, ln, 0, cb, tl, ad, al, n, k])
        return ret(r) + [_b(x) for x in it.read_buffer(ln, 8)]
    cb = it.new_buffer(ml + AB, "c", False, [0] * (ml + AB))
    fill(it, cb, c + tag)
    mo = cb if f == "dec_inplace" else it.new_buffer(ml, "mout", False, [0x11] * ml)
    r = it.call(A("crypto_aead_aes256gcm_decrypt"), [mo, ln, 0, cb, ml + AB, ad, al, n, k])
    return ret(r) + [_b(x) for x in it.read_buffer(mo, ml)] + [_b(x) for x in it.read_buffer(ln, 8)]


def Ptr_off(p, off):
    return interp.Ptr(p.obj, p.off + off)


GCM_UNITS = ["crypto_aead/aes256gcm/aesni/aead_aes256gcm_aesni.c", "crypto_verify/verify.c", "sodium/utils.c"]
_GL = (0, 1, 15, 16, 17, 31, 32, 33, 63, 64, 65, 111, 112, 113, 127, 128, 223, 224, 225, 239, 240, 241, 335, 336, 337, 447, 448, 449)


def _gcm_shapes(tier):
    q = []
    # every aggregation tier of the message ladder (14/7/4/2/1 blocks + partial) and of gh_ad_blocks
    for ml in ((0, 1, 16, 17, 33, 65, 112, 113, 225, 449) if tier == "quick" else _GL):
        q.append(dict(form="enc_detached", mlen=ml, adlen=13 if ml % 2 else 0))
    for al in ((1, 16, 17, 33, 65, 112, 113, 224, 225, 449) if tier == "quick" else _GL[1:]):
        q.append(dict(form="enc_detached", mlen=17 if al % 2 else 0, adlen=al))
    for ml, al in ((0, 0), (17, 5), (113, 16), (225, 225)) if tier == "quick" else [(a, b) for a in (0, 1, 16, 33, 113, 225, 337) for b in (0, 5, 16, 113, 225)]:
        for f in ("enc", "enc_inplace", "enc_detached_afternm", "enc_afternm", "dec_afternm", "dec_detached_afternm", "dec_detached", "dec", "dec_inplace", "dec_detached_inplace", "dec_verify_only", "dec_forged_tag"):
            q.append(dict(form=f, mlen=ml, adlen=al))
    for ml in ((1, 17, 113, 225, 449) if tier == "quick" else _GL[1:]):
        q.append(dict(form="dec_verify_only", mlen=ml, adlen=0))
        for pos in sorted(set((0, ml // 2, ml - 1))):
            q.append(dict(form="dec_forged_c", mlen=ml, adlen=3, pos=pos, bit=pos % 8))
            q.append(dict(form="verify_only_forged", mlen=ml, adlen=3, pos=pos, bit=(pos + 3) % 8))
    for al in ((1, 17, 113, 225) if tier == "quick" else _GL[1:]):
        for pos in sorted(set((0, al - 1))):
            q.append(dict(form="dec_forged_ad", mlen=5, adlen=al, pos=pos, bit=7 - pos % 8))
    for tl in (0, 1, 15):
        q.append(dict(form="dec_truncated", mlen=16, adlen=0, clen=tl))
    if tier != "quick":
        for x in list(q):
            if x["form"] in ("enc_detached",) and x["mlen"] in (0, 17, 113, 225) :
                q.append(dict(x, key=1))
    return q


# ---- scrypt smix: SSE2 unit vs portable unit (data-dependent V[j] look-ups are symbolic-index loads) ----------
def smix_inputs(p):
    return {"B": sym_bytes("B", 128 * p["r"])}


def smix_run(it, entry, inp, p):
    r, N = p["r"], p["N"]
    B = it.new_buffer(128 * r, "B", False, [0] * (128 * r))
    fill(it, B, inp["B"])
    V = it.new_buffer(128 * r * N, "V", False, [0] * (128 * r * N))
    XY = it.new_buffer(256 * r + 64, "XY", False, [0] * (256 * r + 64))
    it.call(_name(it, "smix"), [B, r, N, V, XY])
    return [_b(x) for x in it.read_buffer(B, 128 * r)]


# ---- Argon2 fill_segment: SIMD units vs reference unit (data-independent addressing: pass 0, slice 1) ----
def a2_inputs(p):
    # pass 0: the first two blocks of the lane are given (H'), the rest is written before it is read;
    # pass 1 (fill_block_with_xor path): the whole memory is arbitrary
    return {"mem": sym_bytes("x", 1024 * (8 if p.get("pass") else 2 * p.get("slice", 1)))}


def a2_run(it, entry, inp, p):
    nb = 8
    mem = it.new_buffer(1024 * nb, "memory", False, [0] * (1024 * nb))
    fill(it, mem, inp["mem"])
    region = it.new_buffer(24, "region", False, [0] * 24)
    it.store_bytes(region, mem, 8, "setup")
    it.store_bytes(Ptr_off(region, 8), mem, 8, "setup")
    it.store_bytes(Ptr_off(region, 16), 1024 * nb, 8, "setup")
    pr = it.new_buffer(8 * 2, "pseudo_rands", False, [0] * 16)
    inst = it.new_buffer(56, "instance", False, [0] * 56)
    it.store_bytes(inst, region, 8, "setup")
    it.store_bytes(Ptr_off(inst, 8), pr, 8, "setup")
    for off, v in ((16, 1 + p.get("pass", 0)), (20, p.get("pass", 0)), (24, nb), (28, 2), (32, nb), (36, 1), (40, 1), (44, p["type"]), (48, 0)):
        it.store_bytes(Ptr_off(inst, off), v, 4, "setup")
    pass_lane = p.get("pass", 0)
    slice_index = p.get("slice", 1)
    it.call(_name(it, entry), [inst, pass_lane, slice_index])
    return [_b(x) for x in it.read_buffer(Ptr_off(mem, 2048 * slice_index), 2048)]


A2 = "crypto_pwhash/argon2/"
SCR = "crypto_pwhash/scryptsalsa208sha256/"

CH = "crypto_stream/chacha20/"
SA = "crypto_stream/salsa20/"
B2 = "crypto_generichash/blake2b/ref/"
U = ["sodium/utils.c"]
# 8-blocks-at-a-time (512-byte) SIMD paths: counters below, at and across the 2^32 carry inside one 8-block group, after
# it, at the top of the 64-bit range; one and two groups, with 4-block / 1-block / partial tails
_IC8Q = [{"len": n, "ic": ic} for n, ic in ((512, 0xfffffffd), (513, 0xffffffff), (576, 0xfffffff9), (832, 0x1fffffffa))]
_IC8 = [{"len": n, "ic": ic} for n, ic in ((512, 0), (512, 0xfffffff8), (1024, 0xfffffff4), (1087, 0xfffffffffffffff0), (512, 0x7fffffffffffffff), (1536, 0xfffffff0))]
# 4-blocks-at-a-time (256-byte) paths likewise
_IC4Q = [{"len": n, "ic": ic} for n, ic in ((256, 0xfffffffe), (321, 0xffffffff))]
_IC4 = [{"len": n, "ic": ic} for n, ic in ((256, 0), (256, 0xfffffffc), (448, 0x1fffffffd), (511, 0xfffffffffffffffc))]
TARGETS = [
    dict(name="chacha20-ssse3", inputs=stream_inputs, run=stream_run,
         a=dict(units=[CH + "ref/chacha20_ref.c"] + U, entry="stream_ref_xor_ic"),
         b=dict(units=[CH + "dolbeau/chacha20_dolbeau-ssse3.c"] + U, entry="stream_ref_xor_ic"),
         quick=[{"len": n} for n in (1, 63, 64, 65, 128, 191)] + _IC4Q, thorough=[{"len": n} for n in (0, 255, 256, 257)] + _IC4),
    dict(name="chacha20-avx2", inputs=stream_inputs, run=stream_run,
         a=dict(units=[CH + "ref/chacha20_ref.c"] + U, entry="stream_ref_xor_ic"),
         b=dict(units=[CH + "dolbeau/chacha20_dolbeau-avx2.c"] + U, entry="stream_ref_xor_ic"),
         quick=[{"len": n} for n in (1, 64, 65, 128)] + _IC4Q + _IC8Q, thorough=[{"len": n} for n in (255, 256, 257)] + _IC4 + _IC8),
    dict(name="poly1305-sse2-donna", inputs=p1305_inputs, run=p1305_run, sums=True,
         a=dict(units=["crypto_onetimeauth/poly1305/donna/poly1305_donna.c", "crypto_verify/verify.c"] + U, entry="crypto_onetimeauth_poly1305_donna"),
         b=dict(units=["crypto_onetimeauth/poly1305/sse2/poly1305_sse2.c", "crypto_verify/verify.c"] + U, entry="crypto_onetimeauth_poly1305_sse2", undefs=["HAVE_AMD64_ASM"]),
         quick=[{"r": r, "len": n} for r, n in ((2, 16), (1, 16), (4, 16), (2, 1), (2, 15), (4, 32), (1, 32), (1, 40), (1, 33), (2, 17), (8, 16), (2, 32), (2, 0))],
         thorough=[{"r": r, "len": n} for r, n in ((2, 33), (1, 47), (8, 32), (4, 31))]),
    dict(name="salsa20-sse2", inputs=stream_inputs, run=stream_run,
         a=dict(units=[SA + "ref/salsa20_ref.c", "crypto_core/salsa/ref/core_salsa_ref.c"] + U, entry="stream_ref_xor_ic", undefs=["HAVE_AMD64_ASM"]),
         b=dict(units=[SA + "xmm6int/salsa20_xmm6int-sse2.c"] + U, entry="stream_sse2_xor_ic", undefs=["HAVE_AMD64_ASM"]),
         quick=[{"len": n} for n in (1, 64, 65, 128)] + _IC4Q, thorough=[{"len": n} for n in (255, 256, 257)] + _IC4),
    dict(name="salsa20-avx2", inputs=stream_inputs, run=stream_run,
         a=dict(units=[SA + "ref/salsa20_ref.c", "crypto_core/salsa/ref/core_salsa_ref.c"] + U, entry="stream_ref_xor_ic", undefs=["HAVE_AMD64_ASM"]),
         b=dict(units=[SA + "xmm6int/salsa20_xmm6int-avx2.c"] + U, entry="stream_avx2_xor_ic"),
         quick=[{"len": n} for n in (1, 64, 65, 128)] + _IC4Q + _IC8Q, thorough=[{"len": n} for n in (255, 256)] + _IC4 + _IC8),
    dict(name="scrypt-smix-sse2", inputs=smix_inputs, run=smix_run, sums=True,
         a=dict(units=[SCR + "nosse/pwhash_scryptsalsa208sha256_nosse.c"] + U, entry="smix", cflags=["-fno-inline-functions"]),
         b=dict(units=[SCR + "sse/pwhash_scryptsalsa208sha256_sse.c"] + U, entry="smix", cflags=["-fno-inline-functions"]),
         quick=[], thorough=[{"r": 1, "N": 2}, {"r": 1, "N": 4}]),
    dict(name="argon2-fill-ssse3", inputs=a2_inputs, run=a2_run, sums=True,
         a=dict(units=[A2 + "argon2-fill-block-ref.c", A2 + "argon2-core.c"] + U, entry="argon2_fill_segment_ref"),
         b=dict(units=[A2 + "argon2-fill-block-ssse3.c", A2 + "argon2-core.c"] + U, entry="argon2_fill_segment_ssse3"),
         quick=[{"type": 1, "slice": 1}, {"type": 1, "pass": 1, "slice": 0}],
         thorough=[{"type": 2, "slice": 1}, {"type": 1, "slice": 2}, {"type": 1, "slice": 3}, {"type": 1, "pass": 1, "slice": 2}]),
    dict(name="argon2-fill-avx2", inputs=a2_inputs, run=a2_run, sums=True,
         a=dict(units=[A2 + "argon2-fill-block-ref.c", A2 + "argon2-core.c"] + U, entry="argon2_fill_segment_ref"),
         b=dict(units=[A2 + "argon2-fill-block-avx2.c", A2 + "argon2-core.c"] + U, entry="argon2_fill_segment_avx2"),
         quick=[{"type": 1, "slice": 1}, {"type": 1, "pass": 1, "slice": 0}],
         thorough=[{"type": 2, "slice": 1}, {"type": 1, "slice": 2}, {"type": 1, "slice": 3}, {"type": 1, "pass": 1, "slice": 2}]),
    dict(name="argon2-fill-avx512f", inputs=a2_inputs, run=a2_run, sums=True,
         a=dict(units=[A2 + "argon2-fill-block-ref.c", A2 + "argon2-core.c"] + U, entry="argon2_fill_segment_ref"),
         b=dict(units=[A2 + "argon2-fill-block-avx512f.c", A2 + "argon2-core.c"] + U, entry="argon2_fill_segment_avx512f"),
         quick=[{"type": 1, "slice": 1}, {"type": 1, "pass": 1, "slice": 0}],
         thorough=[{"type": 2, "slice": 1}, {"type": 1, "slice": 2}, {"type": 1, "slice": 3}, {"type": 1, "pass": 1, "slice": 2}]),
    dict(name="blake2b-ssse3", inputs=b2_inputs, run=b2_run,
         a=dict(units=[B2 + "blake2b-compress-ref.c"] + U, entry="blake2b_compress_ref"),
         b=dict(units=[B2 + "blake2b-compress-ssse3.c"] + U, entry="blake2b_compress_ssse3"), quick=[], thorough=[{}]),
    dict(name="blake2b-sse41", inputs=b2_inputs, run=b2_run,
         a=dict(units=[B2 + "blake2b-compress-ref.c"] + U, entry="blake2b_compress_ref"),
         b=dict(units=[B2 + "blake2b-compress-sse41.c"] + U, entry="blake2b_compress_sse41"), quick=[], thorough=[{}]),
    dict(name="blake2b-avx2", inputs=b2_inputs, run=b2_run,
         a=dict(units=[B2 + "blake2b-compress-ref.c"] + U, entry="blake2b_compress_ref"),
         b=dict(units=[B2 + "blake2b-compress-avx2.c"] + U, entry="blake2b_compress_avx2"), quick=[], thorough=[{}]),
]


_GCM_ROUTES = {"spec": ("enc_detached", "enc", "enc_detached_afternm", "enc_afternm", "dec_afternm", "dec_detached_afternm", "dec_detached", "dec"),
               "forgery": ("dec_forged_tag", "dec_forged_c", "dec_forged_ad", "verify_only_forged", "dec_truncated", "dec_verify_only"),
               "inplace": ("enc_inplace", "dec_inplace", "dec_detached_inplace")}
for _r, _forms in sorted(_GCM_ROUTES.items()):
    _q = [x for x in _gcm_shapes("quick") if x["form"] in _forms]
    TARGETS.append(dict(name="aes256gcm-aesni-" + _r, inputs=gcm_inputs, run=gcm_run, affine=True,
                        a=dict(spec=gcm_spec_out), b=dict(units=GCM_UNITS, entry=None), quick=_q,
                        thorough=[x for x in _gcm_shapes("thorough") if x["form"] in _forms and x not in _q]))


# ---- public stream API (reference back ends) vs specification: key, nonce, initial counter, message symbolic ---------
ST_UNITS = ["crypto_stream/chacha20/stream_chacha20.c", "crypto_stream/chacha20/ref/chacha20_ref.c", "crypto_core/hchacha20/core_hchacha20.c",
            "crypto_stream/xchacha20/stream_xchacha20.c", "crypto_stream/salsa20/stream_salsa20.c", "crypto_stream/salsa20/ref/salsa20_ref.c",
            "crypto_core/salsa/ref/core_salsa_ref.c", "crypto_core/hsalsa20/ref2/core_hsalsa20_ref2.c", "crypto_core/hsalsa20/core_hsalsa20.c",
            "crypto_stream/xsalsa20/stream_xsalsa20.c", "crypto_stream/salsa2012/ref/stream_salsa2012_ref.c", "crypto_stream/salsa2012/stream_salsa2012.c",
            "crypto_stream/salsa208/ref/stream_salsa208_ref.c", "crypto_stream/salsa208/stream_salsa208.c", "crypto_stream/crypto_stream.c", "sodium/utils.c"]
ST_ALG = {"chacha20": (8, 64), "chacha20_ietf": (12, 32), "xchacha20": (24, 64), "salsa20": (8, 64), "xsalsa20": (24, 64), "salsa2012": (8, 0), "salsa208": (8, 0)}


def st_inputs(p):
    nl, icw = ST_ALG[p["alg"]]
    inp = {"key": sym_bytes("k", 32), "nonce": sym_bytes("n", nl), "msg": sym_bytes("m", p["len"]) if p["form"] != "stream" else []}
    if p["form"] == "xor_ic":
        inp["ic"] = p["ic"] if "ic" in p else aig.var("ic", icw)
    return inp


def st_spec(inp, p):
    from . import stream_spec as S
    alg, n = p["alg"], p["len"]
    ic = inp.get("ic", 0)
    if alg == "chacha20":
        ks = S.chacha20_stream(inp["key"], inp["nonce"], ic, n, False)
    elif alg == "chacha20_ietf":
        ks = S.chacha20_stream(inp["key"], inp["nonce"], ic, n, True)
    elif alg == "xchacha20":
        ks = S.xchacha20_stream(inp["key"], inp["nonce"], ic, n)
    elif alg == "salsa20":
        ks = S.salsa20_stream(inp["key"], inp["nonce"], ic, n)
    elif alg == "xsalsa20":
        ks = S.xsalsa20_stream(inp["key"], inp["nonce"], ic, n)
    else:
        ks = S.salsa20_stream(inp["key"], inp["nonce"], 0, n, 12 if alg == "salsa2012" else 8)
    if p["form"] != "stream":
        ks = [T.binop("xor", a, b, 8) for a, b in zip(ks, inp["msg"])]
    return [aig.const_bits(0, 32)] + [_b(x) for x in ks]


def st_run(it, entry, inp, p):
    alg, n, f = p["alg"], p["len"], p["form"]
    nl, icw = ST_ALG[alg]
    k = it.new_buffer(32, "k", False, [0] * 32)
    fill(it, k, inp["key"])
    nn = it.new_buffer(nl, "n", False, [0] * nl)
    fill(it, nn, inp["nonce"])
    pre = "crypto_stream_" + alg
    if f == "stream":
        c = it.new_buffer(n, "c", False, [0x55] * n)
        r = it.call(_name(it, pre), [c, n, nn, k])
    else:
        m = it.new_buffer(n, "m", False, [0] * n)
        fill(it, m, inp["msg"])
        c = m if p.get("inplace") else it.new_buffer(n, "c", False, [0x55] * n)
        if f == "xor":
            r = it.call(_name(it, pre + "_xor"), [c, m, n, nn, k])
        else:
            ic = inp["ic"]
            if alg == "chacha20_ietf":
                # contract of the IETF variant: ic + ceil(n / 64) <= 2^32 (misuse otherwise: C03's CBMC guard obligation)
                blocks = (n + 63) // 64
                ok = T.icmp("ule", ic, (1 << 32) - blocks, 32)
                if isinstance(ok, aig.AV):
                    it.assume_lits = [ok.bits[0]]
            r = it.call(_name(it, pre + "_xor_ic"), [c, m, n, nn, ic, k])
    return [aig.const_bits(r & 0xffffffff, 32)] + [_b(x) for x in it.read_buffer(c, n)]


def _st_shapes(tier):
    q = []
    lens = (0, 1, 63, 64, 65, 128, 130) if tier == "quick" else (0, 1, 2, 31, 32, 33, 63, 64, 65, 127, 128, 129, 191, 192, 193, 255, 256, 257, 320)
    for alg in ST_ALG:
        for n in lens:
            forms = ["stream", "xor"] + (["xor_ic"] if ST_ALG[alg][1] else [])
            if tier == "quick" and n not in (0, 65, 130):
                forms = forms[-1:]
            for f in forms:
                if alg == "chacha20_ietf" and f == "xor_ic" and n > 64:
                    # several blocks: the reference unit carries a 32-bit overflow into the first nonce word, which the
                    # public API excludes through its misuse guard (C03's CBMC obligation); the last allowed and two
                    # ordinary initial counters are taken concretely, the single-block shapes keep ic symbolic
                    for icv in (0, 7, (1 << 32) - (n + 63) // 64):
                        q.append(dict(alg=alg, form=f, len=n, ic=icv))
                    continue
                if alg in ("salsa20", "xsalsa20") and f == "xor_ic" and n > 130:
                    # the Salsa20 reference unit increments its counter byte by byte; with a symbolic 64-bit counter each
                    # further block costs the sweeping another 64-bit carry-chain equality, and from four blocks on these
                    # shapes ended near or beyond the budget on a loaded machine.  Up to 130 bytes the counter stays
                    # symbolic; the longer shapes take it around the 2^32 and 2^64 carries concretely
                    for icv in (7, (1 << 32) - 2, (1 << 64) - 2):
                        q.append(dict(alg=alg, form=f, len=n, ic=icv))
                    continue
                q.append(dict(alg=alg, form=f, len=n))
        for n in ((65,) if tier == "quick" else (1, 64, 65, 130)):
            q.append(dict(alg=alg, form="xor", len=n, inplace=1))
    return q


# ---- BLAKE2b (generichash) and SipHash vs their specifications: everything symbolic ------------------------
B2U = ["crypto_generichash/blake2b/ref/blake2b-ref.c", "crypto_generichash/blake2b/ref/generichash_blake2b.c",
       "crypto_generichash/blake2b/ref/blake2b-compress-ref.c", "crypto_generichash/crypto_generichash.c", "sodium/utils.c"]


def gh_inputs(p):
    inp = {"msg": sym_bytes("m", p["len"]), "key": sym_bytes("k", p.get("klen", 0))}
    if p["form"] == "salt_personal":
        inp["salt"], inp["personal"] = sym_bytes("s", 16), sym_bytes("p", 16)
    return inp


def gh_spec(inp, p):
    from . import hash_spec
    ol, kl = p["outlen"], p.get("klen", 0)
    bad = ol < 1 or ol > 64 or kl > 64
    if bad:
        return [aig.const_bits(0xffffffff, 32)]
    out = hash_spec.blake2b(inp["msg"], ol, inp["key"], inp.get("salt"), inp.get("personal"))
    return [aig.const_bits(0, 32)] + [_b(x) for x in out]


def gh_run(it, entry, inp, p):
    f, n, ol, kl = p["form"], p["len"], p["outlen"], p.get("klen", 0)
    ret = lambda r: [aig.const_bits(r & 0xffffffff, 32)] if not isinstance(r, aig.AV) else [r.bits]
    out = it.new_buffer(max(ol, 1), "out", False, [0] * max(ol, 1))
    m = it.new_buffer(n, "m", False, [0] * n)
    fill(it, m, inp["msg"])
    k = it.new_buffer(kl, "k", False, [0] * kl)
    fill(it, k, inp["key"])
    kp = k if kl else 0
    bad = ol < 1 or ol > 64 or kl > 64
    if f == "oneshot":
        r = it.call(_name(it, p.get("api", "crypto_generichash_blake2b")), [out, ol, m, n, kp, kl])
    elif f == "salt_personal":
        sa = it.new_buffer(16, "salt", False, [0] * 16)
        pe = it.new_buffer(16, "pers", False, [0] * 16)
        fill(it, sa, inp["salt"]); fill(it, pe, inp["personal"])
        r = it.call(_name(it, "crypto_generichash_blake2b_salt_personal"), [out, ol, m, n, kp, kl, sa, pe])
    else:   # streaming: init / update over the split points / final
        pre = "crypto_generichash" if p.get("api") == "crypto_generichash" else "crypto_generichash_blake2b"
        st = it.new_buffer(384, "state", False, [0] * 384)
        r = it.call(_name(it, pre + "_init"), [st, kp, kl, ol])
        if not bad:
            cuts = [0] + list(p["splits"]) + [n]
            for a, b in zip(cuts, cuts[1:]):
                r2 = it.call(_name(it, pre + "_update"), [st, Ptr_off(m, a), b - a])
                r = r if r2 == 0 else r2
            r3 = it.call(_name(it, pre + "_final"), [st, out, ol])
            r = r if r3 == 0 else r3
    if bad:
        return ret(r)
    return ret(r) + [_b(x) for x in it.read_buffer(out, ol)]


def _gh_shapes(tier):
    q = []
    lens = (0, 1, 64, 127, 128, 129, 256, 257) if tier == "quick" else tuple(range(0, 20)) + (63, 64, 65, 111, 127, 128, 129, 130, 191, 255, 256, 257, 383, 384, 385, 512)
    for n in lens:
        q.append(dict(form="oneshot", len=n, outlen=32, klen=0))
        q.append(dict(form="oneshot", len=n, outlen=64, klen=32))
    for ol, kl in ((1, 0), (16, 16), (64, 64), (33, 1)):
        q.append(dict(form="oneshot", len=129, outlen=ol, klen=kl))
        q.append(dict(form="oneshot", len=3, outlen=ol, klen=kl, api="crypto_generichash"))
    for ol, kl in ((0, 0), (65, 0), (32, 65)):
        q.append(dict(form="oneshot", len=3, outlen=ol, klen=kl))
        q.append(dict(form="stream", len=3, outlen=ol, klen=kl, splits=()))
    for n, kl in ((0, 0), (5, 16), (128, 0), (200, 64)):
        q.append(dict(form="salt_personal", len=n, outlen=32, klen=kl))
    sp = [(0, ()), (1, (0,)), (1, (1,)), (128, (0, 128)), (128, (64,)), (129, (128,)), (129, (1,)), (256, (128,)), (256, (127, 129)), (257, (1, 129, 256)),
          (300, (100, 100, 228)), (64, (10, 20, 30))]
    if tier != "quick":
        sp += [(n, (a,)) for n in (127, 128, 129, 255, 256, 257) for a in (1, 63, 64, 126, 127)] + [(n, (a, b)) for n in (256, 260) for a in (0, 1, 127, 128) for b in (128, 129, 255, 256)]
    for n, cuts in sp:
        q.append(dict(form="stream", len=n, outlen=32, klen=0, splits=cuts))
        q.append(dict(form="stream", len=n, outlen=64, klen=64, splits=cuts))
    q.append(dict(form="stream", len=130, outlen=48, klen=7, splits=(129,), api="crypto_generichash"))
    return q


def sh_inputs(p):
    return {"msg": sym_bytes("m", p["len"]), "key": sym_bytes("k", 16)}


def sh_spec(inp, p):
    from . import hash_spec
    return [aig.const_bits(0, 32)] + [_b(x) for x in hash_spec.siphash(inp["msg"], inp["key"], p["out"])]


def sh_run(it, entry, inp, p):
    n, ol = p["len"], p["out"]
    out = it.new_buffer(ol, "out", False, [0] * ol)
    m = it.new_buffer(n, "m", False, [0] * n)
    fill(it, m, inp["msg"])
    k = it.new_buffer(16, "k", False, [0] * 16)
    fill(it, k, inp["key"])
    r = it.call(_name(it, "crypto_shorthash_siphash24" if ol == 8 else "crypto_shorthash_siphashx24"), [out, m, n, k])
    return [aig.const_bits(r & 0xffffffff, 32)] + [_b(x) for x in it.read_buffer(out, ol)]


# ---- SHA-2, HMAC and RFC 9380 expand_message_xmd (real units) vs specification ------------------------------
SHA_UNITS = ["crypto_hash/sha256/cp/hash_sha256_cp.c", "crypto_hash/sha512/cp/hash_sha512_cp.c", "crypto_auth/hmacsha256/auth_hmacsha256.c",
             "crypto_auth/hmacsha512/auth_hmacsha512.c", "crypto_auth/hmacsha512256/auth_hmacsha512256.c", "crypto_core/ed25519/core_h2c.c",
             "crypto_verify/verify.c", "sodium/utils.c"]


def sha_inputs(p):
    global ABSH
    ABSH = AbstractHash() if p["form"] == "xmd" else None
    inp = {"msg": sym_bytes("m", p["len"])}
    if p["form"].startswith("hmac"):
        inp["key"] = sym_bytes("k", p["klen"])
    return inp


class AbstractHash(object):
    """SHA-256 / SHA-512 as an uninterpreted function of the hashed byte string (symbolic run of the xmd target): equal
    inputs give the same fresh output symbols; the real hash units are decided on their own (C04)"""

    def __init__(self):
        self.table = {}
        self.states = {}

    def digest(self, bits, data):
        key = (bits, tuple(tuple(_b(x)) for x in data))
        r = self.table.get(key)
        if r is None:
            r = sym_bytes("H%d_%d_" % (bits, len(self.table)), bits // 8)
            self.table[key] = r
        return r

    def install(self, it):
        for bits in (256, 512):
            pre = "crypto_hash_sha%d" % bits
            it.stubs[_name(it, pre + "_init")] = lambda it_, a: (self.states.__setitem__((a[0].obj, a[0].off), []), 0)[1]

            def upd(it_, a):
                n = a[2]
                if isinstance(n, T.Term):
                    raise interp.Unsupported("symbolic hash update length")
                if n:
                    self.states[(a[0].obj, a[0].off)] += it_.read_buffer(a[1], n)
                return 0
            it.stubs[_name(it, pre + "_update")] = upd

            def fin(it_, a, bits=bits):
                out = self.digest(bits, self.states[(a[0].obj, a[0].off)])
                fill(it_, a[1], out)
                return 0
            it.stubs[_name(it, pre + "_final")] = fin


ABSH = None


def _hmac_spec(key, msg, bits, trunc=None):
    from . import hash_spec
    bs = 64 if bits == 256 else 128
    k = list(key)
    if len(k) > bs:
        k = hash_spec.sha2(k, bits)
    k = k + [0] * (bs - len(k))
    inner = hash_spec.sha2([T.binop("xor", x, 0x36, 8) for x in k] + list(msg), bits)
    out = hash_spec.sha2([T.binop("xor", x, 0x5c, 8) for x in k] + inner, bits)
    return out[:trunc] if trunc else out


def sha_spec(inp, p):
    from . import hash_spec
    f = p["form"]
    if f in ("hash", "stream"):
        out = hash_spec.sha2(inp["msg"], p["bits"])
    elif f == "xmd":
        symbolic = any(isinstance(x, aig.AV) for x in inp["msg"]) or not inp["msg"]
        if symbolic and ABSH is not None:
            # RFC 9380 5.3.1 / 5.3.3 over the abstract hash (the run function of side B installs the same function)
            bits, n = p["bits"], p["outlen"]
            hb, bs = bits // 8, (64 if bits == 256 else 128)
            dst = [0x41 + i % 26 for i in range(p["ctxlen"])]
            if len(dst) > 255:
                dst = ABSH.digest(bits, list(b"H2C-OVERSIZE-DST-") + dst)
            dstp = list(dst) + [len(dst)]
            b0 = ABSH.digest(bits, [0] * bs + list(inp["msg"]) + [n >> 8, n & 0xff, 0] + dstp)
            if p.get("_alt") == "oversize-dst-b0" and p["ctxlen"] > 255:
                # the recorded deviation (known_findings.json): b_1.. computed with b_0 in place of the reduced DST
                dstp = list(b0) + [len(b0)]
            out, bi = [], [0] * hb
            for i in range(1, (n + hb - 1) // hb + 1):
                bi = ABSH.digest(bits, [T.binop("xor", x, y, 8) for x, y in zip(b0, bi)] + [i] + dstp)
                out += bi
            out = out[:n]
        else:
            out = hash_spec.expand_message_xmd(inp["msg"], bytes((0x41 + i % 26) for i in range(p["ctxlen"])), p["outlen"], p["bits"])
    else:
        out = _hmac_spec(inp["key"], inp["msg"], 256 if p["alg"] == "hmacsha256" else 512, 32 if p["alg"] == "hmacsha512256" else None)
    return [aig.const_bits(0, 32)] + [_b(x) for x in out]


def sha_run(it, entry, inp, p):
    f, n = p["form"], p["len"]
    m = it.new_buffer(n, "m", False, [0] * n)
    fill(it, m, inp["msg"])
    if f == "xmd":
        ol, cl = p["outlen"], p["ctxlen"]
        if ABSH is not None and (any(isinstance(x, aig.AV) for x in inp["msg"]) or not inp["msg"]):
            ABSH.install(it)
        out = it.new_buffer(ol, "h", False, [0] * ol)
        ctx = it.new_buffer(cl + 1, "ctx", False, [(0x41 + i % 26) for i in range(cl)] + [0])
        r = it.call(_name(it, "core_h2c_string_to_hash"), [out, ol, ctx if cl else 0, m, n, 1 if p["bits"] == 256 else 2])
        return [aig.const_bits(r & 0xffffffff, 32)] + [_b(x) for x in it.read_buffer(out, ol)]
    if f in ("hash", "stream"):
        hl = p["bits"] // 8
        pre = "crypto_hash_sha%d" % p["bits"]
        out = it.new_buffer(hl, "out", False, [0] * hl)
        if f == "hash":
            r = it.call(_name(it, pre), [out, m, n])
        else:
            st = it.new_buffer(256, "state", False, [0] * 256)
            r = it.call(_name(it, pre + "_init"), [st])
            cuts = [0] + list(p["splits"]) + [n]
            for a, b in zip(cuts, cuts[1:]):
                it.call(_name(it, pre + "_update"), [st, Ptr_off(m, a), b - a])
            r = it.call(_name(it, pre + "_final"), [st, out])
        return [aig.const_bits(r & 0xffffffff, 32)] + [_b(x) for x in it.read_buffer(out, hl)]
    alg, kl = p["alg"], p["klen"]
    hl = {"hmacsha256": 32, "hmacsha512": 64, "hmacsha512256": 32}[alg]
    k = it.new_buffer(kl, "k", False, [0] * kl)
    fill(it, k, inp["key"])
    out = it.new_buffer(hl, "out", False, [0] * hl)
    st = it.new_buffer(512, "state", False, [0] * 512)
    pre = "crypto_auth_" + alg
    it.call(_name(it, pre + "_init"), [st, k, kl])
    cuts = [0] + list(p.get("splits", ())) + [n]
    for a, b in zip(cuts, cuts[1:]):
        it.call(_name(it, pre + "_update"), [st, Ptr_off(m, a), b - a])
    r = it.call(_name(it, pre + "_final"), [st, out])
    return [aig.const_bits(r & 0xffffffff, 32)] + [_b(x) for x in it.read_buffer(out, hl)]


def _sha_shapes(tier):
    q = []
    for bits, bs in ((256, 64), (512, 128)):
        pad = bs // 8
        for n in ((0, 1, bs - pad - 1, bs - pad, bs, bs + 1, 2 * bs + 3) if tier == "quick" else (0, 1, 2, bs - pad - 2, bs - pad - 1, bs - pad, bs - 1, bs, bs + 1, 2 * bs - pad - 1, 2 * bs - pad, 2 * bs, 3 * bs + 5)):
            q.append(dict(form="hash", bits=bits, len=n))
        for n, cuts in (((bs + 1, (1,)), (2 * bs, (bs - 1, bs + 1))) if tier == "quick" else ((bs + 1, (1,)), (bs + 1, (bs,)), (2 * bs, (bs - 1, bs + 1)), (2 * bs + 7, (0, bs, 2 * bs)), (3, (1, 2)))):
            q.append(dict(form="stream", bits=bits, len=n, splits=cuts))
    for alg, bs in (("hmacsha256", 64), ("hmacsha512", 128), ("hmacsha512256", 128)):
        for kl, n in (((32, 5), (bs + 1, 3)) if tier == "quick" else ((0, 0), (32, 5), (bs, 1), (bs + 1, 3), (bs + 40, bs + 1))):
            q.append(dict(form="hmac", alg=alg, klen=kl, len=n, splits=(n // 2,) if n else ()))
    return q


def _xmd_shapes(tier):
    q = []
    for bits, ol, cl, n in (((256, 32, 5, 3), (512, 48, 5, 3), (512, 96, 0, 0), (256, 96, 17, 40), (256, 32, 255, 1), (512, 64, 255, 0), (256, 32, 256, 1), (512, 64, 256, 0)) if tier == "quick"
                            else ((256, 33, 3, 0), (512, 130, 5, 3), (256, 48, 254, 3), (512, 48, 300, 3), (256, 96, 500, 3), (512, 96, 257, 40))):
        q.append(dict(form="xmd", bits=bits, outlen=ol, ctxlen=cl, len=n))
    return q


def _aegis_shapes(alg, tier, impl):
    r = 32 if alg == "aegis128l" else 16
    q = []
    base = dict(alg=alg, impl=impl)
    lens_q = (0, 1, r - 1, r, r + 1, 2 * r, 2 * r + 1, 4 * r + 3)
    lens_t = tuple(range(0, 2 * r + 2)) + (3 * r - 1, 3 * r, 3 * r + 1, 4 * r, 4 * r + 1, 6 * r + 5, 8 * r, 8 * r + 1)
    for ml in (lens_q if tier == "quick" else lens_t):
        q.append(dict(base, form="enc_detached", mlen=ml, adlen=5 if ml % 2 else 0))
    for al in (lens_q[1:] if tier == "quick" else lens_t[1:]):
        q.append(dict(base, form="enc_detached", mlen=3 if al % 2 else 0, adlen=al))
    for ml, al in ((0, 0), (r + 1, 5), (2 * r + 1, 2 * r + 1)) if tier == "quick" else [(a, b) for a in (0, 1, r, r + 1, 2 * r, 3 * r + 1) for b in (0, 1, r, 2 * r + 1)]:
        for f in ("enc", "enc_inplace", "dec_detached", "dec", "dec_inplace", "dec_detached_inplace", "dec_verify_only", "dec_forged_tag"):
            q.append(dict(base, form=f, mlen=ml, adlen=al))
    # (a changed ciphertext / ad changing the recomputed tag is a cryptographic property of AEGIS, undecidable for a
    # symbolic key: the rejection obligations present an arbitrary ciphertext with tag = specified tag ^ delta)
    for ml in ((1, r + 1, 2 * r) if tier == "quick" else lens_t[1:]):
        q.append(dict(base, form="dec_forged_tag", mlen=ml, adlen=3))
        q.append(dict(base, form="dec_verify_only", mlen=ml, adlen=3))
    for tl in (0, 1, 31):
        q.append(dict(base, form="dec_truncated", mlen=16, adlen=0, clen=tl))
    return q


def _aegis_units(alg):
    d = "crypto_aead/%s/" % alg
    return [d + "aead_%s.c" % alg, d + "%s_aesni.c" % alg, d + "%s_soft.c" % alg, "crypto_core/softaes/softaes.c", "crypto_verify/verify.c", "sodium/utils.c"]


TARGETS.append(dict(name="stream-ref-spec", inputs=st_inputs, run=st_run, sums=True, a=dict(spec=st_spec),
                    b=dict(units=ST_UNITS, entry=None, undefs=["HAVE_AMD64_ASM"]),
                    quick=[x for x in _st_shapes("quick") if not x.get("inplace")], thorough=[x for x in _st_shapes("thorough") if x not in _st_shapes("quick") and not x.get("inplace")]))
TARGETS.append(dict(name="stream-ref-inplace", inputs=st_inputs, run=st_run, sums=True, a=dict(spec=st_spec),
                    b=dict(units=ST_UNITS, entry=None, undefs=["HAVE_AMD64_ASM"]),
                    quick=[x for x in _st_shapes("quick") if x.get("inplace")], thorough=[x for x in _st_shapes("thorough") if x.get("inplace") and x not in _st_shapes("quick")]))
TARGETS.append(dict(name="sha2-hmac-spec", inputs=sha_inputs, run=sha_run, sums=True, a=dict(spec=sha_spec), b=dict(units=SHA_UNITS, entry=None),
                    quick=_sha_shapes("quick"), thorough=[x for x in _sha_shapes("thorough") if x not in _sha_shapes("quick")]))
TARGETS.append(dict(name="h2c-xmd-spec", inputs=sha_inputs, run=sha_run, sums=True, a=dict(spec=sha_spec), b=dict(units=SHA_UNITS, entry=None),
                    known_alt=("oversize-dst-b0", lambda p: p["ctxlen"] > 255),
                    quick=_xmd_shapes("quick"), thorough=_xmd_shapes("thorough")))
TARGETS.append(dict(name="blake2b-ref-spec", inputs=gh_inputs, run=gh_run, sums=True, a=dict(spec=gh_spec), b=dict(units=B2U, entry=None),
                    quick=_gh_shapes("quick"), thorough=[x for x in _gh_shapes("thorough") if x not in _gh_shapes("quick")]))
TARGETS.append(dict(name="siphash-ref-spec", inputs=sh_inputs, run=sh_run, sums=True, a=dict(spec=sh_spec),
                    b=dict(units=["crypto_shorthash/siphash24/ref/shorthash_siphash24_ref.c", "crypto_shorthash/siphash24/ref/shorthash_siphashx24_ref.c"], entry=None),
                    quick=[dict(len=n, out=o) for n in (0, 1, 7, 8, 9, 15, 16, 17, 33) for o in (8, 16)],
                    thorough=[dict(len=n, out=o) for n in list(range(2, 7)) + list(range(10, 15)) + list(range(18, 33)) + [63, 64, 65, 128] for o in (8, 16)]))
for _alg in ("aegis128l", "aegis256"):
    for _be in ("aesni", "soft"):
        for _r, _forms in sorted(_GCM_ROUTES.items()):
            _impl = "%s_%s_implementation" % (_alg, _be)
            _q = [x for x in _aegis_shapes(_alg, "quick", _impl) if x["form"] in _forms]
            if _be == "soft":
                # ~30 s per shape (table-driven AES: 16 symbolic-index loads per round): the quick tier keeps the shapes
                # that cross the rate with a partial block; everything else is in the thorough tier
                _rr = 32 if _alg == "aegis128l" else 16
                _q = [x for x in _q if (x["mlen"], x["adlen"]) in ((_rr + 1, 5), (0, 0), (2 * _rr + 1, 0), (3, _rr + 1))
                      and x["form"] in ("enc_detached", "dec", "dec_forged_tag", "enc_inplace", "dec_inplace")]
            _t = [x for x in _aegis_shapes(_alg, "thorough", _impl) if x["form"] in _forms and x not in _q]
            if _be == "soft":
                # 30-60 s per shape: every third shape of the AES-NI grid plus everything that crosses a rate boundary
                _rr = 32 if _alg == "aegis128l" else 16
                _t = [x for i, x in enumerate(_t) if i % 4 == 0 or x["mlen"] in (_rr - 1, _rr, _rr + 1, 2 * _rr + 1) and x["adlen"] in (0, 3, 5, _rr + 1)]
            TARGETS.append(dict(name="%s-%s-%s" % (_alg, _be, _r), inputs=gcm_inputs, run=gcm_run, affine=True,
                                a=dict(spec=gcm_spec_out), b=dict(units=_aegis_units(_alg), entry=None), quick=_q, thorough=_t))


def params_of(t, tier):
    return list(t["quick"]) + (list(t["thorough"]) if tier == "thorough" else [])


def load(side, workroot, tag):
    wd = os.path.join(workroot, "eq-" + tag)
    ll = os.path.join(wd, "linked.ll")
    if not os.path.exists(ll):
        tmp = wd + ".tmp%d" % os.getpid()
        build.build_module(tmp, side["units"], undefs=side.get("undefs", ()),
                           opt=(build.OPT + side["cflags"]) if side.get("cflags") else None)
        try:
            os.rename(tmp, wd)
        except OSError:
            pass
    return ir.parse_module(open(ll).read())


def run_one(tname, tier, pidx, workroot, budget=900):
    t = [x for x in TARGETS if x["name"] == tname][0]
    p = params_of(t, tier)[pidx]
    res = {"target": tname, "params": p, "status": "inconclusive", "detail": "", "wall_s": 0.0}
    t0 = time.time()
    try:
        T.MODE = "aig"
        aig.reset(t.get("affine", False), t.get("sums", False))
        inp = t["inputs"](p)
        outs = []
        steps = []
        cnfdir = os.path.join(workroot, "cnf-%d" % os.getpid())
        os.makedirs(cnfdir, exist_ok=True)
        obs_sat = 0
        assume = []
        for side, tag in ((t["a"], tname + "-a"), (t["b"], tname + "-b")):
            if "spec" in side:
                outs.append(side["spec"](inp, p))
                steps.append(0)
                continue
            mod = load(side, workroot, tag)
            it = interp.Interp(mod, None)
            it.sat_dir = cnfdir
            outs.append(t["run"](it, side["entry"], inp, p))
            steps.append(it.steps)
            obs_sat += it.sat_calls
            assume += it.assume_lits
        if [len(v) for v in outs[0]] != [len(v) for v in outs[1]]:
            raise KeyError("output shapes differ: %r vs %r" % ([len(v) for v in outs[0]][:8], [len(v) for v in outs[1]][:8]))
        nodes = aig.G.size()
        nbits = sum(len(v) for v in outs[0])
        ident = sum(1 for va, vb in zip(*outs) for x, y in zip(va, vb) if x == y)
        verdict, info = equiv.check_equal(outs[0], outs[1], cnfdir, budget_s=budget, assume=assume)
        info["sat_calls"] = info.get("sat_calls", 0) + obs_sat
        res.update(ir_steps=steps, graph_nodes=nodes, output_bits=nbits, structurally_identical_bits=ident,
                   sat_calls=info.get("sat_calls", 0), unsat=info.get("unsat", 0), sat_time_s=round(info.get("sat_time", 0), 2),
                   merged=info.get("merged", 0))
        if verdict == "equal":
            res["status"] = "ok"
        elif verdict == "different":
            res["status"] = "violation"
            res["detail"] = "outputs differ for the returned input assignment"
            res["assignment"] = info.get("assignment")
            alt = t.get("known_alt")
            if alt and alt[1](p):
                # is this exactly the recorded deviation (and nothing else)?  decided over the same symbolic inputs
                try:
                    oalt = t["a"]["spec"](inp, dict(p, _alt=alt[0]))
                    v2, _i2 = equiv.check_equal(oalt, outs[1], cnfdir, budget_s=budget, assume=assume)
                    if v2 == "equal":
                        res["detail"] += " [known-deviation:%s: the unit equals the specification with exactly this deviation applied, for all inputs of this shape]" % alt[0]
                except Exception as e3:
                    res["detail"] += " (known-deviation comparison failed: %r)" % (e3,)
        else:
            res["detail"] = "equivalence not decided within budget: %s" % {k: info[k] for k in info if k != "assignment"}
    except interp.Violation as e:
        res["detail"] = "%s: %s" % (type(e).__name__, str(e)[:500])
        if e.kind == "symbolic-control" and e.model:
            # control flow that the specification fixes depends on symbolic input: one of the two witnesses must
            # make the outputs differ from the specification's -- decided by concrete re-execution
            for assign in e.model:
                try:
                    oa, ob = concrete_outputs(t, p, assign, workroot)
                except Exception as e2:
                    res["detail"] += " / concrete run: %r" % (e2,)
                    continue
                if oa != ob:
                    res.update(status="violation", assignment=assign,
                               detail="control flow depends on symbolic input and the outputs differ from the specification's: " + res["detail"])
                    break
        elif e.kind == "memory":
            res["detail"] = "memory-safety violation in the interpreted unit: " + res["detail"]
    except (interp.Unsupported, build.IRBuildError, SyntaxError, KeyError, aig.T_Unsupported) as e:
        res["detail"] = "%s: %s" % (type(e).__name__, str(e)[:500])
    except Exception:
        res["detail"] = "exception: " + traceback.format_exc()[-700:]
    res["wall_s"] = round(time.time() - t0, 2)
    return res


def concrete_outputs(t, p, assign, workroot):
    tname = t["name"]
    T.MODE = "aig"
    aig.reset(t.get("affine", False), t.get("sums", False))
    inp = t["inputs"](p)
    # concretise: map every input literal name to its value
    val = {}
    for n, nm in aig.G.names.items():
        val[n] = 1 if assign.get(nm) else 0

    def conc(x):
        if isinstance(x, aig.AV):
            v = 0
            for i, l in enumerate(x.bits):
                b = l if l <= 1 else (val[l >> 1] ^ (l & 1))
                v |= b << i
            return v
        return x
    cinp = {k: ([conc(e) for e in v] if isinstance(v, list) else conc(v)) for k, v in inp.items()}
    outs = []
    for side, tag in ((t["a"], tname + "-a"), (t["b"], tname + "-b")):
        if "spec" in side:
            o = side["spec"](cinp, p)
        else:
            mod = load(side, workroot, tag)
            it = interp.Interp(mod, None)
            o = t["run"](it, side["entry"], cinp, p)
        outs.append([sum(b << i for i, b in enumerate(v)) for v in o])
    return outs


def replay(tname, tier, pidx, workroot, assign_path):
    """concrete re-execution of both sides on the counterexample input; exit 1 if outputs differ"""
    t = [x for x in TARGETS if x["name"] == tname][0]
    p = params_of(t, tier)[pidx]
    assign = json.load(open(assign_path))
    outs = concrete_outputs(t, p, assign, workroot)
    if outs[0] != outs[1]:
        k = [i for i, (x, y) in enumerate(zip(*outs)) if x != y][0]
        print("REPLAY-FAIL: reference and %s outputs differ at byte %d: %02x vs %02x" % (tname, k, outs[0][k], outs[1][k]))
        return 1
    print("REPLAY-END-REACHED: outputs identical")
    return 0


if __name__ == "__main__":
    if sys.argv[1] == "replay":
        sys.exit(replay(sys.argv[2], sys.argv[3], int(sys.argv[4]), sys.argv[5], sys.argv[6]))
    if sys.argv[1] == "list":
        print(json.dumps([(t["name"], len(params_of(t, sys.argv[2])), [str(p) for p in params_of(t, sys.argv[2])]) for t in TARGETS]))
    else:
        print(json.dumps(run_one(sys.argv[1], sys.argv[2], int(sys.argv[3]), sys.argv[4],
                                 budget=int(os.environ.get("IRSYM_EQUIV_BUDGET", "420" if sys.argv[2] == "quick" else "3000"))), default=str))
