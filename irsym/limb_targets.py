"""E2 limb-mode obligations: multi-precision kernels of the real units (LLVM IR) against their
mathematical specification, as polynomial congruences with interval side conditions."""
import json
import os
import sys
import time
import traceback

from . import build, interp, ir, limb, terms as T
from .nonint import _name

P1305 = (1 << 130) - 5


def put64(it, ptr, off, v):
    it.store_bytes(interp.Ptr(ptr.obj, ptr.off + off), v, 8, "setup")


def get64(it, ptr, off):
    return it.load_bytes(interp.Ptr(ptr.obj, ptr.off + off), 8, "result")


def poly1305_blocks64(it, p):
    """one block through poly1305_blocks (44/44/42-bit limbs): h' == (h + m + 2^128*[!final]) * r  (mod 2^130 - 5),
    with the accumulator invariant h0, h1 <= 2^44 + 2^20 (h1 may carry one extra), h2 < 2^42 preserved"""
    final = p.get("final", 0)
    B44 = (1 << 44) - 1
    # invariant on entry: what poly1305_init (zero), the exit of this function (checked below) establish
    H0HI, H1HI, H2HI = B44, B44 + (1 << 24), (1 << 42) - 1
    h = [limb.var("h0", 64, 0, H0HI), limb.var("h1", 64, 0, H1HI), limb.var("h2", 64, 0, H2HI)]
    # r after clamping (poly1305_init): r0 < 2^44, r1 < 2^44, r2 < 2^40 with cleared bits; only the ranges matter here
    r = [limb.var("r0", 64, 0, 0xffc0fffffff), limb.var("r1", 64, 0, 0xfffffc0ffff), limb.var("r2", 64, 0, 0x00ffffffc0f)]
    t = [limb.var("t0", 64), limb.var("t1", 64)]
    st = it.new_buffer(96, "state", False, [0] * 96)   # r[3] h[3] pad[2] leftover buffer[16] final
    for i in range(3):
        put64(it, st, 8 * i, r[i])
        put64(it, st, 24 + 8 * i, h[i])
    it.store_bytes(interp.Ptr(st.obj, st.off + 88), final, 1, "setup")
    m = it.new_buffer(16, "m", False, [0] * 16)
    put64(it, m, 0, t[0])
    put64(it, m, 8, t[1])
    it.call(_name(it, "poly1305_blocks"), [st, m, 16])
    hn = [get64(it, st, 24 + 8 * i) for i in range(3)]
    hn = [limb.lift(x, 64) for x in hn]
    for x in hn:
        if x.mod:
            raise limb.LimbError("output limb is a wrapped value")
    H = limb.combine(h, (0, 44, 88))
    R = limb.combine(r, (0, 44, 88))
    M = limb.padd(limb.combine(t, (0, 64)), limb.pconst(0 if final else 1 << 128))
    Hn = limb.combine(hn, (0, 44, 88))
    diff = limb.padd(Hn, limb.pmul(limb.padd(H, M), R), -1)
    bounds_ok = hn[0].hi <= H0HI and hn[1].hi <= H1HI and hn[2].hi <= H2HI and all(x.lo >= 0 for x in hn)
    return dict(diff=diff, modulus=P1305, bounds_ok=bounds_ok,
                bounds="h0' <= %#x, h1' <= %#x, h2' <= %#x (invariant: h0 <= %#x, h1 <= %#x, h2 <= %#x)" % (hn[0].hi, hn[1].hi, hn[2].hi, H0HI, H1HI, H2HI),
                claim="h0' + 2^44 h1' + 2^88 h2' == (h + m + 2^128*[not final]) * r  (mod 2^130 - 5)")


TARGETS = [
    dict(name="poly1305-blocks-donna64", units=["crypto_onetimeauth/poly1305/donna/poly1305_donna.c", "sodium/utils.c", "crypto_verify/verify.c"],
         cflags=["-fno-inline-functions"], run=poly1305_blocks64, params=[{"final": 0}, {"final": 1}]),
]


def z3_identity(diff, modulus):
    """independent re-check: diff == modulus * (diff / modulus) as integer polynomials (z3, integer arithmetic)"""
    import z3
    vs = {}
    def mono(m):
        e = z3.IntVal(1)
        for v in m:
            if v not in vs:
                vs[v] = z3.Int(v)
            e = e * vs[v]
        return e
    lhs = z3.Sum([z3.IntVal(c) * mono(m) for m, c in diff.items()]) if diff else z3.IntVal(0)
    rhs = z3.IntVal(modulus) * (z3.Sum([z3.IntVal(c // modulus) * mono(m) for m, c in diff.items()]) if diff else z3.IntVal(0))
    s = z3.Solver()
    s.set("timeout", 60000)
    s.add(lhs != rhs)
    return str(s.check())


def concrete_run(t, p, mod, assign):
    """re-execute the unit concretely on `assign`; returns the residue of the claim (0 = holds) and the bound verdict"""
    limb.reset()
    limb.CONCRETE = dict(assign)
    try:
        it = interp.Interp(mod, None)
        out = t["run"](it, p)
        d = out["diff"].get((), 0) if out["diff"] else 0
        return d % out["modulus"], out["bounds_ok"]
    finally:
        limb.CONCRETE = None


def find_witness(t, p, mod, tries=200, seed=1):
    """a violated congruence is a polynomial that is not identically 0 mod p: random in-range inputs expose it"""
    import random
    rnd = random.Random(seed)
    limb.reset()
    it = interp.Interp(mod, None)
    t["run"](it, p)
    ranges = {k: v for k, v in limb.C.vars.items() if not k.startswith("q")}
    for k in range(tries):
        assign = {n: (hi if k == 0 else lo if k == 1 else rnd.randint(lo, hi)) for n, (lo, hi) in ranges.items()}
        try:
            res, bok = concrete_run(t, p, mod, assign)
        except Exception:
            continue
        if res != 0 or not bok:
            return assign, res
    return None, None


def run_one(tname, pidx, workroot):
    t = [x for x in TARGETS if x["name"] == tname][0]
    p = t["params"][pidx]
    res = {"target": tname, "params": p, "status": "inconclusive", "detail": "", "wall_s": 0.0}
    t0 = time.time()
    try:
        wd = os.path.join(workroot, "limb-" + tname)
        ll = os.path.join(wd, "linked.ll")
        if not os.path.exists(ll):
            build.build_module(wd + ".tmp%d" % os.getpid(), t["units"], undefs=t.get("undefs", ()), opt=build.OPT + t.get("cflags", []))
            try:
                os.rename(wd + ".tmp%d" % os.getpid(), wd)
            except OSError:
                pass
        mod = ir.parse_module(open(ll).read())
        limb.reset()
        it = interp.Interp(mod, None)
        out = t["run"](it, p)
        bad = limb.coeffs_mod(out["diff"], out["modulus"])
        res.update(ir_steps=it.steps, monomials=len(out["diff"]), fresh_quotients=limb.C.nfresh, claim=out["claim"], bounds=out["bounds"],
                   unintended_wraps=len(limb.C.wraps))
        if limb.C.wraps:
            res["status"] = "violation"
            res["detail"] = "a machine operation may wrap around: %r" % (limb.C.wraps[:3],)
        elif bad:
            assign, residue = find_witness(t, p, mod)
            res["detail"] = "congruence fails: %d monomials with a non-zero coefficient mod p, e.g. %r" % (len(bad), sorted(bad.items())[:2])
            if assign is not None:
                res["status"] = "violation"
                res["assignment"] = assign
                res["detail"] += "; concrete input with residue %d found" % residue
            else:
                res["detail"] += "; no concrete witness found (symbolic difference may be an artefact of uncancelled quotient variables)"
        elif not out["bounds_ok"]:
            res["status"] = "violation"
            res["detail"] = "limb bounds not preserved: " + out["bounds"]
        else:
            chk = z3_identity(out["diff"], out["modulus"])
            res["z3_identity"] = chk
            res["status"] = "ok" if chk == "unsat" else "inconclusive"
            if chk != "unsat":
                res["detail"] = "z3 did not confirm the polynomial identity: " + chk
    except (interp.Unsupported, interp.Violation, build.IRBuildError, SyntaxError, KeyError, limb.LimbError) as e:
        res["detail"] = "%s: %s" % (type(e).__name__, str(e)[:500])
    except Exception:
        res["detail"] = "exception: " + traceback.format_exc()[-900:]
    res["wall_s"] = round(time.time() - t0, 2)
    return res


def replay(tname, pidx, workroot, assign_path):
    t = [x for x in TARGETS if x["name"] == tname][0]
    p = t["params"][pidx]
    wd = os.path.join(workroot, "limb-" + tname)
    ll = os.path.join(wd, "linked.ll")
    if not os.path.exists(ll):
        build.build_module(wd, t["units"], undefs=t.get("undefs", ()), opt=build.OPT + t.get("cflags", []))
    mod = ir.parse_module(open(ll).read())
    res, bok = concrete_run(t, p, mod, json.load(open(assign_path)))
    if res != 0 or not bok:
        print("REPLAY-FAIL: %s: the unit's result violates the claim on this input (residue %d mod p, bounds ok: %s)" % (tname, res, bok))
        return 1
    print("REPLAY-END-REACHED: claim holds on this input")
    return 0


if __name__ == "__main__":
    if sys.argv[1] == "replay":
        sys.exit(replay(sys.argv[2], int(sys.argv[3]), sys.argv[4], sys.argv[5]))
    if sys.argv[1] == "list":
        print(json.dumps([(t["name"], len(t["params"]), [str(p) for p in t["params"]]) for t in TARGETS]))
    else:
        print(json.dumps(run_one(sys.argv[1], int(sys.argv[2]), sys.argv[3]), default=str))
