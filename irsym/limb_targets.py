"""E2 limb-mode obligations: multi-precision kernels of the real units (LLVM IR) against their
mathematical specification, as polynomial congruences with interval side conditions."""
import json
import os
import sys
import time
import traceback

from . import build, interp, ir, limb, terms as T
from .nonint import _name

P1305 = (1 << 130) - 5


def put64(it, ptr, off, v):
    it.store_bytes(interp.Ptr(ptr.obj, ptr.off + off), v, 8, "setup")


def get64(it, ptr, off):
    return it.load_bytes(interp.Ptr(ptr.obj, ptr.off + off), 8, "result")


def poly1305_blocks64(it, p):
    """one block through poly1305_blocks (44/44/42-bit limbs): h' == (h + m + 2^128*[!final]) * r  (mod 2^130 - 5),
    with the accumulator invariant h0, h1 <= 2^44 + 2^20 (h1 may carry one extra), h2 < 2^42 preserved"""
    final = p.get("final", 0)
    B44 = (1 << 44) - 1
    # invariant on entry: what poly1305_init (zero), the exit of this function (checked below) establish
    H0HI, H1HI, H2HI = B44, B44 + (1 << 24), (1 << 42) - 1
    h = [limb.var("h0", 64, 0, H0HI), limb.var("h1", 64, 0, H1HI), limb.var("h2", 64, 0, H2HI)]
    # r after clamping (poly1305_init): r0 < 2^44, r1 < 2^44, r2 < 2^40 with cleared bits; only the ranges matter here
    r = [limb.var("r0", 64, 0, 0xffc0fffffff), limb.var("r1", 64, 0, 0xfffffc0ffff), limb.var("r2", 64, 0, 0x00ffffffc0f)]
    t = [limb.var("t0", 64), limb.var("t1", 64)]
    st = it.new_buffer(96, "state", False, [0] * 96)   # r[3] h[3] pad[2] leftover buffer[16] final
    for i in range(3):
        put64(it, st, 8 * i, r[i])
        put64(it, st, 24 + 8 * i, h[i])
    it.store_bytes(interp.Ptr(st.obj, st.off + 88), final, 1, "setup")
    m = it.new_buffer(16, "m", False, [0] * 16)
    put64(it, m, 0, t[0])
    put64(it, m, 8, t[1])
    it.call(_name(it, "poly1305_blocks"), [st, m, 16])
    hn = [get64(it, st, 24 + 8 * i) for i in range(3)]
    hn = [limb.lift(x, 64) for x in hn]
    for x in hn:
        if x.mod:
            raise limb.LimbError("output limb is a wrapped value")
    H = limb.combine(h, (0, 44, 88))
    R = limb.combine(r, (0, 44, 88))
    M = limb.padd(limb.combine(t, (0, 64)), limb.pconst(0 if final else 1 << 128))
    Hn = limb.combine(hn, (0, 44, 88))
    diff = limb.padd(Hn, limb.pmul(limb.padd(H, M), R), -1)
    bounds_ok = hn[0].hi <= H0HI and hn[1].hi <= H1HI and hn[2].hi <= H2HI and all(x.lo >= 0 for x in hn)
    return dict(diff=diff, modulus=P1305, bounds_ok=bounds_ok,
                bounds="h0' <= %#x, h1' <= %#x, h2' <= %#x (invariant: h0 <= %#x, h1 <= %#x, h2 <= %#x)" % (hn[0].hi, hn[1].hi, hn[2].hi, H0HI, H1HI, H2HI),
                claim="h0' + 2^44 h1' + 2^88 h2' == (h + m + 2^128*[not final]) * r  (mod 2^130 - 5)")


P25519 = (1 << 255) - 19
FE_IN = (1 << 54) - 1          # "loose" limbs accepted by mul / sq (sums and differences of carried elements stay below)
FE_TIGHT = (1 << 51) + (1 << 13)   # limbs after a carry chain


def fe_buf(it, name, limbs):
    b = it.new_buffer(40, name, False, [0] * 40)
    for i, v in enumerate(limbs):
        put64(it, b, 8 * i, v)
    return b


def fe_get(it, b):
    out = [limb.lift(get64(it, b, 8 * i), 64) for i in range(5)]
    for x in out:
        if x.mod:
            limb.C.wraps.append(("output limb may have wrapped", x.lo, x.hi))
    return out


def fe_vars(name, hi):
    return [limb.var("%s%d" % (name, i), 64, 0, hi) for i in range(5)]


R51 = (0, 51, 102, 153, 204)


def fe51_op(it, p):
    """fe25519 (5 x 51-bit limbs) kernels: result == the field operation (mod 2^255 - 19), output limbs carried"""
    op = p["op"]
    inb = p.get("in", FE_IN)
    f = fe_vars("f", inb)
    fb = fe_buf(it, "f", f)
    hb = fe_buf(it, "h", [0] * 5)
    F = limb.combine(f, R51)
    outb = p.get("out", FE_TIGHT)
    if op in ("mul", "add", "sub"):
        g = fe_vars("g", inb)
        gb = fe_buf(it, "g", g)
        G = limb.combine(g, R51)
        it.call(_name(it, "fe25519_" + op), [hb, fb, gb])
        expect = limb.pmul(F, G) if op == "mul" else limb.padd(F, G, 1 if op == "add" else -1)
    elif op in ("sq", "sq2", "neg"):
        it.call(_name(it, "fe25519_" + op), [hb, fb])
        expect = {"sq": limb.pmul(F, F), "sq2": limb.pscale(limb.pmul(F, F), 2), "neg": limb.pscale(F, -1)}[op]
    elif op == "mul32":
        # the only caller passes the curve constant (a24 = 121666); clang's interprocedural constant propagation
        # specialises the static function to it, so the compiled unit is checked for that constant
        n = p["n"]
        it.call(_name(it, "fe25519_mul32"), [hb, fb, n])
        expect = limb.pscale(F, n)
    else:
        raise KeyError(op)
    h = fe_get(it, hb)
    H = limb.combine(h, R51)
    diff = limb.padd(H, expect, -1)
    bounds_ok = all(0 <= x.lo and x.hi <= outb for x in h)
    return dict(diff=diff, modulus=P25519, bounds_ok=bounds_ok,
                bounds="output limbs <= %s (required <= %#x) for input limbs <= %#x" % ([hex(x.hi) for x in h], outb, inb),
                claim="sum h_i 2^(51 i) == %s(f%s)  (mod 2^255 - 19)" % (op, ", g" if op in ("mul", "add", "sub") else ""))


L25519 = (1 << 252) + 27742317777372353535851937790883648493


def byte_vars(name, n):
    return [limb.var("%s%d" % (name, i), 8, 0, 255) for i in range(n)]


def byte_buf(it, name, vals):
    b = it.new_buffer(len(vals), name, False, [0] * len(vals))
    for i, v in enumerate(vals):
        it.store_bytes(interp.Ptr(b.obj, b.off + i), v, 1, "setup")
    return b


def bytes_poly(vals):
    out = {}
    for i, v in enumerate(vals):
        out = limb.padd(out, limb.pscale(limb.lift(v, 8).poly, 1 << (8 * i)))
    return out


def sc25519_op(it, p):
    """scalar arithmetic modulo the group order L (21-bit signed limbs): result bytes == the operation mod L"""
    op = p["op"]
    if op == "reduce":
        s = byte_vars("s", 64)
        sb = byte_buf(it, "s", s)
        expect = bytes_poly(s)
        it.call(_name(it, "sc25519_reduce"), [sb])
        ob = sb
    else:
        a, b = byte_vars("a", 32), byte_vars("b", 32)
        ab, bb = byte_buf(it, "a", a), byte_buf(it, "b", b)
        ob = it.new_buffer(32, "out", False, [0] * 32)
        if op == "mul":
            it.call(_name(it, "sc25519_mul"), [ob, ab, bb])
            expect = limb.pmul(bytes_poly(a), bytes_poly(b))
        else:
            c = byte_vars("c", 32)
            cb = byte_buf(it, "c", c)
            it.call(_name(it, "sc25519_muladd"), [ob, ab, bb, cb])
            expect = limb.padd(limb.pmul(bytes_poly(a), bytes_poly(b)), bytes_poly(c))
    out = [limb.lift(it.load_bytes(interp.Ptr(ob.obj, ob.off + i), 1, "result"), 8) for i in range(32)]
    for x in out:
        if x.mod:
            limb.C.wraps.append(("output byte may have wrapped", x.lo, x.hi))
    diff = limb.padd(bytes_poly(out), expect, -1)
    return dict(diff=diff, modulus=L25519, bounds_ok=all(0 <= x.lo and x.hi <= 255 for x in out),
                assume_zero=lambda v: v.endswith("_shr256"),
                assumption_text="the limb value before serialisation lies in [0, 2^256) (the 32 output bytes are its low 256 bits; its range "
                                "follows from the reduction's arithmetic and is not decided here)",
                bounds="32 output bytes", claim="sum out[i] 256^i == %s  (mod L = 2^252 + 27742317777372353535851937790883648493)"
                % {"reduce": "the 64-byte little-endian input", "mul": "a * b", "muladd": "a * b + c"}[op])


TARGETS = [
    dict(name="sc25519", units=["crypto_core/ed25519/ref10/ed25519_ref10.c", "sodium/utils.c"], cflags=["-fno-inline-functions"], run=sc25519_op,
         params=[{"op": "reduce"}, {"op": "mul"}, {"op": "muladd"}]),
    dict(name="x25519-ladder-rfc7748", ladder=True, params=[{}]),
    dict(name="x25519-invert", ladder=True, params=[{}]),
    dict(name="x25519-ladder-bounds", ladder=True, params=[{}]),
    dict(name="sc25519-invert", ladder=True, params=[{}]),
    dict(name="ed25519-scalarmult-alg", scalarmult=True, params=[{"op": "scalarmult_base"}, {"op": "scalarmult"}, {"op": "base_table"}, {"op": "mul_l"}]),
    dict(name="edwards-group-ops", edwards=True, params=[{"op": c} for c in ("add_cached", "sub_cached", "add_precomp", "sub_precomp", "p2_dbl", "p3_dbl", "p1p1_to_p3",
                                                                              "p1p1_to_p2", "p3_to_cached", "p3_to_p2", "p3_0", "has_small_order")]),
    dict(name="fe25519-51-x25519", units=["crypto_scalarmult/curve25519/ref10/x25519_ref10.c", "sodium/utils.c"], cflags=["-fno-inline-functions"], run=fe51_op,
         params=[{"op": "mul"}, {"op": "sq"}, {"op": "mul32", "n": 121666, "out": (1 << 52) - 1},
                 {"op": "add", "in": (1 << 62) - 1, "out": (1 << 63) - 2}, {"op": "sub", "in": (1 << 53) - 1, "out": FE_IN}]),
    dict(name="fe25519-51", units=["crypto_core/ed25519/ref10/ed25519_ref10.c", "sodium/utils.c"], cflags=["-fno-inline-functions"], run=fe51_op,
         params=[{"op": "mul"}, {"op": "sq"}, {"op": "sq2", "in": (1 << 53) - 1}, {"op": "mul32", "n": 486662, "out": (1 << 52) - 1},
                 {"op": "add", "in": (1 << 62) - 1, "out": (1 << 63) - 2}, {"op": "sub", "in": (1 << 53) - 1, "out": FE_IN}, {"op": "neg", "in": FE_IN, "out": FE_IN}]),
    dict(name="poly1305-blocks-donna64", units=["crypto_onetimeauth/poly1305/donna/poly1305_donna.c", "sodium/utils.c", "crypto_verify/verify.c"],
         cflags=["-fno-inline-functions"], run=poly1305_blocks64, params=[{"final": 0}, {"final": 1}]),
]


def z3_identity(diff, modulus):
    """independent re-check: diff == modulus * (diff / modulus) as integer polynomials (z3, integer arithmetic)"""
    import z3
    vs = {}
    def mono(m):
        e = z3.IntVal(1)
        for v in m:
            if v not in vs:
                vs[v] = z3.Int(v)
            e = e * vs[v]
        return e
    lhs = z3.Sum([z3.IntVal(c) * mono(m) for m, c in diff.items()]) if diff else z3.IntVal(0)
    rhs = z3.IntVal(modulus) * (z3.Sum([z3.IntVal(c // modulus) * mono(m) for m, c in diff.items()]) if diff else z3.IntVal(0))
    s = z3.Solver()
    s.set("timeout", 60000)
    s.add(lhs != rhs)
    return str(s.check())


def concrete_run(t, p, mod, assign):
    """re-execute the unit concretely on `assign`; returns the residue of the claim (0 = holds) and the bound verdict"""
    limb.reset()
    limb.CONCRETE = dict(assign)
    try:
        it = interp.Interp(mod, None)
        out = t["run"](it, p)
        d = out["diff"].get((), 0) if out["diff"] else 0
        return d % out["modulus"], out["bounds_ok"]
    finally:
        limb.CONCRETE = None


def find_witness(t, p, mod, tries=200, seed=1):
    """a violated congruence is a polynomial that is not identically 0 mod p: random in-range inputs expose it"""
    import random
    rnd = random.Random(seed)
    limb.reset()
    it = interp.Interp(mod, None)
    t["run"](it, p)
    ranges = {k: v for k, v in limb.C.vars.items() if not k.startswith("q")}
    for k in range(tries):
        assign = {n: (hi if k == 0 else lo if k == 1 else rnd.randint(lo, hi)) for n, (lo, hi) in ranges.items()}
        try:
            res, bok = concrete_run(t, p, mod, assign)
        except Exception:
            continue
        if res != 0 or not bok:
            return assign, res
    return None, None


def run_one(tname, pidx, workroot):
    t = [x for x in TARGETS if x["name"] == tname][0]
    p = t["params"][pidx]
    res = {"target": tname, "params": p, "status": "inconclusive", "detail": "", "wall_s": 0.0}
    t0 = time.time()
    if t.get("scalarmult"):
        from . import scalarmult
        r = scalarmult.run(p["op"], workroot)
        r["params"] = p
        r["claim"] = {"scalarmult_base": "ge25519_scalarmult_base(a) == a * B for all a < 2^255 (radix-16 signed recoding, table look-ups, doublings; abstract multiples)",
                      "scalarmult": "ge25519_scalarmult(a, P) == a * P for all a < 2^255 (table of 1..8 P built by the code, recoding, doublings)",
                      "base_table": "base[i][j] == (j+1) * 256^i * B for all 256 precomputed entries (big-integer Edwards arithmetic)",
                      "mul_l": "ge25519_mul_l(P) == L * P: the fixed addition chain of the main-subgroup test, over abstract multiples"}[p["op"]]
        return r
    if t.get("edwards"):
        from . import edwards
        r = edwards.run(p["op"], workroot)
        r["params"] = p
        r["claim"] = ("ge25519_%s satisfies the twisted Edwards addition / doubling law (polynomial identity over GF(2^255-19), every projective "
                      "representation of the inputs)" % p["op"]) if p["op"] != "has_small_order" else (
                      "ge25519_has_small_order (Z = 1, as decoded): returns the OR of four zero tests (all 16 answer patterns) on x, y and the two "
                      "factors of x^2 + y^2 (product identity over GF(2^255-19), sqrtm1^2 = -1), i.e. 1 <=> x(4P) = 0 <=> 8P = O for curve points")
        return r
    if t.get("ladder"):
        from . import ladder
        r = ladder.run(tname, workroot)
        r["params"] = p
        r["claim"] = ("X25519 ladder of the unit == RFC 7748 section 5 for all scalars and u (inductive over the loop, ring operations)"
                      if tname == "x25519-ladder-rfc7748" else "fe25519_invert(z) == z^(p-2)" if tname == "x25519-invert" else "sc25519_invert(s) == s^(L-2) mod L" if tname == "sc25519-invert" else
                      "limb bounds are inductive along the ladder: no machine wrap-around inside an iteration, limbs <= 2^51 + 2^13 at every boundary")
        return r
    try:
        wd = os.path.join(workroot, "limb-" + tname)
        ll = os.path.join(wd, "linked.ll")
        if not os.path.exists(ll):
            build.build_module(wd + ".tmp%d" % os.getpid(), t["units"], undefs=t.get("undefs", ()), opt=build.OPT + t.get("cflags", []))
            try:
                os.rename(wd + ".tmp%d" % os.getpid(), wd)
            except OSError:
                pass
        mod = ir.parse_module(open(ll).read())
        limb.reset()
        it = interp.Interp(mod, None)
        out = t["run"](it, p)
        bad = limb.coeffs_mod(out["diff"], out["modulus"])
        assumed = []
        if out.get("assume_zero"):
            # quotient variables the target declares to be zero under a stated range assumption (e.g. the quotient of the
            # final truncation to 256 bits): dropped from the residue, reported as an assumption of the claim
            for m in list(bad):
                if len(m) == 1 and out["assume_zero"](m[0]):
                    assumed.append(m[0])
                    del bad[m]
            if assumed:
                res["assumption"] = out["assumption_text"]
        res.update(ir_steps=it.steps, monomials=len(out["diff"]), fresh_quotients=limb.C.nfresh, claim=out["claim"], bounds=out["bounds"],
                   unintended_wraps=len(limb.C.wraps))
        if limb.C.wraps:
            res["status"] = "violation"
            res["detail"] = "a machine operation may wrap around: %r" % (limb.C.wraps[:3],)
        elif bad:
            assign, residue = find_witness(t, p, mod)
            res["detail"] = "congruence fails: %d monomials with a non-zero coefficient mod p, e.g. %r" % (len(bad), sorted(bad.items())[:2])
            if assign is not None:
                res["status"] = "violation"
                res["assignment"] = assign
                res["detail"] += "; concrete input with residue %d found" % residue
            else:
                res["detail"] += "; no concrete witness found (symbolic difference may be an artefact of uncancelled quotient variables)"
        elif not out["bounds_ok"]:
            res["status"] = "violation"
            res["detail"] = "limb bounds not preserved: " + out["bounds"]
        else:
            dz = {m: c for m, c in out["diff"].items() if not (len(m) == 1 and m[0] in assumed)}
            chk = z3_identity(dz, out["modulus"])
            res["z3_identity"] = chk
            res["status"] = "ok" if chk == "unsat" else "inconclusive"
            if chk != "unsat":
                res["detail"] = "z3 did not confirm the polynomial identity: " + chk
    except (interp.Unsupported, interp.Violation, build.IRBuildError, SyntaxError, KeyError, limb.LimbError) as e:
        res["detail"] = "%s: %s" % (type(e).__name__, str(e)[:500])
    except Exception:
        res["detail"] = "exception: " + traceback.format_exc()[-900:]
    res["wall_s"] = round(time.time() - t0, 2)
    return res


def replay(tname, pidx, workroot, assign_path):
    t = [x for x in TARGETS if x["name"] == tname][0]
    if t.get("scalarmult"):
        from . import scalarmult
        r = scalarmult.run(t["params"][pidx]["op"], workroot)
        print(("REPLAY-FAIL: " if r["status"] == "violation" else "REPLAY-END-REACHED: ") + (r["detail"] or r["status"]))
        return 1 if r["status"] == "violation" else 0
    if t.get("edwards"):
        from . import edwards
        r = edwards.run(t["params"][pidx]["op"], workroot)
        print(("REPLAY-FAIL: " if r["status"] == "violation" else "REPLAY-END-REACHED: ") + (r["detail"] or r["status"]))
        return 1 if r["status"] == "violation" else 0
    if t.get("ladder"):
        from . import ladder
        r = ladder.run(tname, workroot)
        print(("REPLAY-FAIL: " if r["status"] == "violation" else "REPLAY-END-REACHED: ") + (r["detail"] or r["status"]))
        return 1 if r["status"] == "violation" else 0
    p = t["params"][pidx]
    wd = os.path.join(workroot, "limb-" + tname)
    ll = os.path.join(wd, "linked.ll")
    if not os.path.exists(ll):
        build.build_module(wd, t["units"], undefs=t.get("undefs", ()), opt=build.OPT + t.get("cflags", []))
    mod = ir.parse_module(open(ll).read())
    res, bok = concrete_run(t, p, mod, json.load(open(assign_path)))
    if res != 0 or not bok:
        print("REPLAY-FAIL: %s: the unit's result violates the claim on this input (residue %d mod p, bounds ok: %s)" % (tname, res, bok))
        return 1
    print("REPLAY-END-REACHED: claim holds on this input")
    return 0


if __name__ == "__main__":
    if sys.argv[1] == "replay":
        sys.exit(replay(sys.argv[2], int(sys.argv[3]), sys.argv[4], sys.argv[5]))
    if sys.argv[1] == "list":
        print(json.dumps([(t["name"], len(t["params"]), [str(p) for p in t["params"]]) for t in TARGETS]))
    else:
        print(json.dumps(run_one(sys.argv[1], int(sys.argv[2]), sys.argv[3]), default=str))
