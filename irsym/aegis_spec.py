"""AEGIS-128L and AEGIS-256 per draft-irtf-cfrg-aegis-aead, over irsym bit
literals (bytes = lists of 8 literals, LSB first); 256-bit tags as libsodium
emits them.  AESRound(in, rk) = MixColumns(ShiftRows(SubBytes(in))) ^ rk with
the FIPS-197 table S-box (gcm_spec.sub)."""
from . import aig
from .gcm_spec import bxor, cbyte, sub, xtime

C0 = [cbyte(x) for x in bytes.fromhex("000101020305080d1522375990e97962")]
C1 = [cbyte(x) for x in bytes.fromhex("db3d18556dc22ff12011314273b528dd")]


def X(a, b):
    return [bxor(x, y) for x, y in zip(a, b)]


def AND(a, b):
    g = aig.G
    return [[g.AND(x, y) for x, y in zip(p, q)] for p, q in zip(a, b)]


def aes_round(blk, rk):
    st = [sub(b) for b in blk]
    st = [st[4 * ((c + r) % 4) + r] for c in range(4) for r in range(4)]
    ns = []
    for c in range(4):
        a = st[4 * c:4 * c + 4]
        for r in range(4):
            two = xtime(a[r])
            three = bxor(xtime(a[(r + 1) % 4]), a[(r + 1) % 4])
            ns.append(bxor(bxor(two, three), bxor(a[(r + 2) % 4], a[(r + 3) % 4])))
    return X(ns, rk)


def zero_pad(bs, rate):
    out = [bs[i:i + rate] for i in range(0, len(bs), rate)]
    if out and len(out[-1]) < rate:
        out[-1] = out[-1] + [cbyte(0)] * (rate - len(out[-1]))
    return out


def le64(v):
    return [cbyte((v >> (8 * i)) & 0xff) for i in range(8)]


def aegis128l_encrypt(key, nonce, msg, ad):
    def update(S, m0, m1):
        return [aes_round(S[7], X(S[0], m0)), aes_round(S[0], S[1]), aes_round(S[1], S[2]), aes_round(S[2], S[3]),
                aes_round(S[3], X(S[4], m1)), aes_round(S[4], S[5]), aes_round(S[5], S[6]), aes_round(S[6], S[7])]
    S = [X(key, nonce), C1, C0, C1, X(key, nonce), X(key, C0), X(key, C1), X(key, C0)]
    for _ in range(10):
        S = update(S, nonce, key)
    for blk in zero_pad(ad, 32):
        S = update(S, blk[:16], blk[16:])
    ct = []
    for blk in zero_pad(msg, 32):
        z0 = X(X(S[6], S[1]), AND(S[2], S[3]))
        z1 = X(X(S[2], S[5]), AND(S[6], S[7]))
        ct += X(blk[:16], z0) + X(blk[16:], z1)
        S = update(S, blk[:16], blk[16:])
    t = X(S[2], le64(8 * len(ad)) + le64(8 * len(msg)))
    for _ in range(7):
        S = update(S, t, t)
    tag = X(X(X(S[0], S[1]), S[2]), S[3]) + X(X(X(S[4], S[5]), S[6]), S[7])
    return ct[:len(msg)], tag


def aegis256_encrypt(key, nonce, msg, ad):
    def update(S, m):
        return [aes_round(S[5], X(S[0], m)), aes_round(S[0], S[1]), aes_round(S[1], S[2]), aes_round(S[2], S[3]),
                aes_round(S[3], S[4]), aes_round(S[4], S[5])]
    k0, k1, n0, n1 = key[:16], key[16:], nonce[:16], nonce[16:]
    S = [X(k0, n0), X(k1, n1), C1, C0, X(k0, C0), X(k1, C1)]
    for _ in range(4):
        S = update(S, k0)
        S = update(S, k1)
        S = update(S, X(k0, n0))
        S = update(S, X(k1, n1))
    for blk in zero_pad(ad, 16):
        S = update(S, blk)
    ct = []
    for blk in zero_pad(msg, 16):
        z = X(X(X(S[1], S[4]), S[5]), AND(S[2], S[3]))
        ct += X(blk, z)
        S = update(S, blk)
    t = X(S[3], le64(8 * len(ad)) + le64(8 * len(msg)))
    for _ in range(7):
        S = update(S, t)
    tag = X(X(S[0], S[1]), S[2]) + X(X(S[3], S[4]), S[5])
    return ct[:len(msg)], tag
