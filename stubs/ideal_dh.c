#include "verif.h"
#include "ideal_dh.h"
#include "crypto_scalarmult_curve25519.h"

#ifndef REPLAY
typedef unsigned __CPROVER_bitvector[256] dbv256_t;
dbv256_t __CPROVER_uninterpreted_x25519(dbv256_t n, dbv256_t p);
dbv256_t __CPROVER_uninterpreted_x25519_base(dbv256_t n);
static dbv256_t
dpack(const uint8_t *p)
{
    dbv256_t v = 0;
    int      i;
    for (i = 31; i >= 0; i--) v = (v << 8) | (dbv256_t) p[i];
    return v;
}
static void
dunpack(uint8_t *o, dbv256_t v)
{
    int i;
    for (i = 0; i < 32; i++) o[i] = (uint8_t) (v >> (8 * i));
}
int
ideal_dh(uint8_t q[32], const uint8_t n[32], const uint8_t p[32])
{
    dbv256_t r = __CPROVER_uninterpreted_x25519(dpack(n), dpack(p));
    /* The success/failure outcome is a compile-time parameter of the obligation
     * (DH_FAIL), constrained by assumption, so that the control flow of the code
     * under test stays concrete: a symbolic branch here would make the ghost-log
     * counters symbolic and every later log access a symbolic-index update. */
#ifdef DH_FAIL
    __CPROVER_assume(r == 0);
    dunpack(q, 0);
    return -1;
#else
    __CPROVER_assume(r != 0);
    dunpack(q, r);
    return 0;
#endif
}
void
ideal_dh_base(uint8_t q[32], const uint8_t n[32])
{
    dunpack(q, __CPROVER_uninterpreted_x25519_base(dpack(n)));
}
void
ideal_dh_assume_commutes(const uint8_t a[32], const uint8_t b[32])
{
    __CPROVER_assume(__CPROVER_uninterpreted_x25519(dpack(a), __CPROVER_uninterpreted_x25519_base(dpack(b))) ==
                     __CPROVER_uninterpreted_x25519(dpack(b), __CPROVER_uninterpreted_x25519_base(dpack(a))));
}
int
crypto_scalarmult_curve25519(unsigned char *q, const unsigned char *n, const unsigned char *p)
{
    return ideal_dh(q, n, p);
}
int
crypto_scalarmult_curve25519_base(unsigned char *q, const unsigned char *n)
{
    ideal_dh_base(q, n);
    return 0;
}
#else
int
ideal_dh(uint8_t q[32], const uint8_t n[32], const uint8_t p[32])
{
    return crypto_scalarmult_curve25519(q, n, p);
}
void
ideal_dh_base(uint8_t q[32], const uint8_t n[32])
{
    crypto_scalarmult_curve25519_base(q, n);
}
void
ideal_dh_assume_commutes(const uint8_t a[32], const uint8_t b[32])
{
    (void) a; (void) b;
}
#endif
