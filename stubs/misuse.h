#ifndef VERIF_MISUSE_H
#define VERIF_MISUSE_H
extern int verif_misuse_expected;
void sodium_misuse(void);
/* after a call for which misuse was the specified outcome */
#define MISUSE_MUST_HAVE_FIRED() \
    CHECK(!verif_misuse_expected, "call returned although sodium_misuse() is the specified outcome")
#endif
