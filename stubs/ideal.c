#include "verif.h"
#include "ideal.h"

#include "crypto_core_hchacha20.h"
#include "crypto_core_hsalsa20.h"
#include "crypto_onetimeauth_poly1305.h"
#include "crypto_stream_chacha20.h"
#include "crypto_stream_salsa20.h"
#include "crypto_stream_salsa2012.h"
#include "crypto_stream_salsa208.h"
#include "crypto_stream_xsalsa20.h"
#include "crypto_stream_xchacha20.h"
#include "private/chacha20_ietf_ext.h"

struct ideal_mac_log ideal_macs[IDEAL_MAXMAC];
int                  ideal_mac_count;

static const uint8_t SIGMA[16] = { 'e', 'x', 'p', 'a', 'n', 'd', ' ', '3', '2', '-', 'b', 'y', 't', 'e', ' ', 'k' };

#ifndef REPLAY
/* ------------------------------------------------------------------ */
/* wide bit-vector arguments/results: ONE application per 64-byte block, so the
 * number of Ackermann pairs stays small (measured: 8 x 64-bit lanes per block
 * gave 1.5 M variables and 20-60 s per obligation; one 512-bit result: < 2 s) */
typedef unsigned __CPROVER_bitvector[512] bv512_t;
typedef unsigned __CPROVER_bitvector[256] bv256_t;
typedef unsigned __CPROVER_bitvector[128] bv128_t;

bv512_t __CPROVER_uninterpreted_chacha(bv256_t key, uint64_t ctr, uint64_t n);
bv512_t __CPROVER_uninterpreted_salsa(uint64_t rounds, bv256_t key, uint64_t ctr, uint64_t n);
bv256_t __CPROVER_uninterpreted_hchacha(bv256_t key, bv128_t in, bv128_t c);
bv256_t __CPROVER_uninterpreted_hsalsa(bv256_t key, bv128_t in, bv128_t c);
bv128_t __CPROVER_uninterpreted_mac_init(bv256_t key);
bv128_t __CPROVER_uninterpreted_mac_absorb(bv128_t h, bv512_t chunk);
bv128_t __CPROVER_uninterpreted_mac_out(bv128_t h, uint64_t len);

static bv256_t
pack256(const uint8_t *p)
{
    bv256_t v = 0;
    int     i;
    for (i = 31; i >= 0; i--) {
        v = (v << 8) | (bv256_t) p[i];
    }
    return v;
}
static bv128_t
pack128(const uint8_t *p)
{
    bv128_t v = 0;
    int     i;
    for (i = 15; i >= 0; i--) {
        v = (v << 8) | (bv128_t) p[i];
    }
    return v;
}
static void
unpack512(uint8_t *out, bv512_t v)
{
    int i;
    for (i = 0; i < 64; i++) {
        out[i] = (uint8_t) (v >> (8 * i));
    }
}
static void
unpack256(uint8_t *out, bv256_t v)
{
    int i;
    for (i = 0; i < 32; i++) {
        out[i] = (uint8_t) (v >> (8 * i));
    }
}

void
ideal_chacha_block(const uint8_t key[32], uint64_t ctr, const uint8_t n8[8], uint8_t out[64])
{
    unpack512(out, __CPROVER_uninterpreted_chacha(pack256(key), ctr, v_ld64le(n8)));
}

void
ideal_salsa_block(int rounds, const uint8_t key[32], uint64_t ctr, const uint8_t n8[8], uint8_t out[64])
{
    unpack512(out, __CPROVER_uninterpreted_salsa((uint64_t) rounds, pack256(key), ctr, v_ld64le(n8)));
}

void
ideal_hchacha20(uint8_t out[32], const uint8_t in[16], const uint8_t key[32], const uint8_t *c)
{
    unpack256(out, __CPROVER_uninterpreted_hchacha(pack256(key), pack128(in), pack128(c == NULL ? SIGMA : c)));
}

void
ideal_hsalsa20(uint8_t out[32], const uint8_t in[16], const uint8_t key[32], const uint8_t *c)
{
    unpack256(out, __CPROVER_uninterpreted_hsalsa(pack256(key), pack128(in), pack128(c == NULL ? SIGMA : c)));
}

void
ideal_mac_tag(uint8_t out[16], const uint8_t *data, size_t len, const uint8_t key[32])
{
    bv128_t h = __CPROVER_uninterpreted_mac_init(pack256(key));
    size_t  i, j;
    for (i = 0; i < len; i += 64) {
        bv512_t chunk = 0;
        for (j = 0; j < 64 && i + j < len; j++) {
            chunk |= (bv512_t) data[i + j] << (8 * j);
        }
        h = __CPROVER_uninterpreted_mac_absorb(h, chunk);
    }
    h = __CPROVER_uninterpreted_mac_out(h, (uint64_t) len);
    for (i = 0; i < 16; i++) {
        out[i] = (uint8_t) (h >> (8 * i));
    }
}
#else
/* ------------------------------------------------------------------ */
/* native replay: the real primitives */
# include <stdlib.h>
static void
real_chacha_xor(uint8_t *c, const uint8_t *m, size_t len, const uint8_t key[32], uint64_t ctr, const uint8_t n8[8])
{
    crypto_stream_chacha20_xor_ic(c, m, len, n8, ctr, key);
}
void
ideal_chacha_block(const uint8_t key[32], uint64_t ctr, const uint8_t n8[8], uint8_t out[64])
{
    uint8_t z[64] = { 0 };
    real_chacha_xor(out, z, 64, key, ctr, n8);
}
void
ideal_salsa_block(int rounds, const uint8_t key[32], uint64_t ctr, const uint8_t n8[8], uint8_t out[64])
{
    uint8_t z[64] = { 0 };
    if (rounds == 20) crypto_stream_salsa20_xor_ic(out, z, 64, n8, ctr, key);
    else if (rounds == 12) { uint8_t big[64]; (void) big; abort(); }
    else abort();
}
void
ideal_hchacha20(uint8_t out[32], const uint8_t in[16], const uint8_t key[32], const uint8_t *c)
{
    crypto_core_hchacha20(out, in, key, c);
}
void
ideal_hsalsa20(uint8_t out[32], const uint8_t in[16], const uint8_t key[32], const uint8_t *c)
{
    crypto_core_hsalsa20(out, in, key, c);
}
void
ideal_mac_tag(uint8_t out[16], const uint8_t *data, size_t len, const uint8_t key[32])
{
    crypto_onetimeauth_poly1305(out, data, len, key);
}
#endif

/* ---- shared: xor forms built from blocks (both modes) ---- */
static void
check_alias(const uint8_t *c, const uint8_t *m, size_t len)
{
#ifndef REPLAY
    /* documented contract of the stream xor functions: in place or disjoint */
    CHECK(len == 0 || c == m || __CPROVER_POINTER_OBJECT(c) != __CPROVER_POINTER_OBJECT(m) ||
          c + len <= m || m + len <= c,
          "stream xor called with partially overlapping buffers");
#else
    (void) c; (void) m; (void) len;
#endif
}

void
ideal_chacha_xor(uint8_t *c, const uint8_t *m, size_t len, const uint8_t key[32], uint64_t ctr, const uint8_t n8[8])
{
    uint8_t blk[64];
    size_t  i;
    check_alias(c, m, len);
    for (i = 0; i < len; i++) {
        if ((i & 63) == 0) {
            ideal_chacha_block(key, ctr + (i >> 6), n8, blk);
        }
        c[i] = (uint8_t) ((m != NULL ? m[i] : 0) ^ blk[i & 63]);
    }
}

void
ideal_salsa_xor(int rounds, uint8_t *c, const uint8_t *m, size_t len, const uint8_t key[32], uint64_t ctr, const uint8_t n8[8])
{
    uint8_t blk[64];
    size_t  i;
    check_alias(c, m, len);
    for (i = 0; i < len; i++) {
        if ((i & 63) == 0) {
            ideal_salsa_block(rounds, key, ctr + (i >> 6), n8, blk);
        }
        c[i] = (uint8_t) ((m != NULL ? m[i] : 0) ^ blk[i & 63]);
    }
}

void
ideal_chacha_ietf_xor(uint8_t *c, const uint8_t *m, size_t len, const uint8_t key[32], uint32_t ic, const uint8_t n12[12])
{
    ideal_chacha_xor(c, m, len, key, (uint64_t) ic | ((uint64_t) v_ld32le(n12) << 32), n12 + 4);
}

#ifndef REPLAY
/* ------------------------------------------------------------------ */
/* the public primitive API, as seen by the glue code under test        */
#ifndef IDEAL_IMPL_LEVEL /* IDEAL_IMPL_LEVEL: the real stream dispatchers are linked; see ideal_impl.c */
int
crypto_stream_chacha20(unsigned char *c, unsigned long long clen, const unsigned char *n, const unsigned char *k)
{
    ideal_chacha_xor(c, NULL, clen, k, 0, n);
    return 0;
}
int
crypto_stream_chacha20_xor_ic(unsigned char *c, const unsigned char *m, unsigned long long mlen,
                              const unsigned char *n, uint64_t ic, const unsigned char *k)
{
    ideal_chacha_xor(c, m, mlen, k, ic, n);
    return 0;
}
int
crypto_stream_chacha20_xor(unsigned char *c, const unsigned char *m, unsigned long long mlen,
                           const unsigned char *n, const unsigned char *k)
{
    ideal_chacha_xor(c, m, mlen, k, 0, n);
    return 0;
}
int
crypto_stream_chacha20_ietf_ext(unsigned char *c, unsigned long long clen, const unsigned char *n, const unsigned char *k)
{
    ideal_chacha_ietf_xor(c, NULL, clen, k, 0, n);
    return 0;
}
int
crypto_stream_chacha20_ietf_ext_xor_ic(unsigned char *c, const unsigned char *m, unsigned long long mlen,
                                       const unsigned char *n, uint32_t ic, const unsigned char *k)
{
    ideal_chacha_ietf_xor(c, m, mlen, k, ic, n);
    return 0;
}
int
crypto_stream_chacha20_ietf(unsigned char *c, unsigned long long clen, const unsigned char *n, const unsigned char *k)
{
    ideal_chacha_ietf_xor(c, NULL, clen, k, 0, n);
    return 0;
}
int
crypto_stream_chacha20_ietf_xor_ic(unsigned char *c, const unsigned char *m, unsigned long long mlen,
                                   const unsigned char *n, uint32_t ic, const unsigned char *k)
{
    ideal_chacha_ietf_xor(c, m, mlen, k, ic, n);
    return 0;
}
int
crypto_stream_chacha20_ietf_xor(unsigned char *c, const unsigned char *m, unsigned long long mlen,
                                const unsigned char *n, const unsigned char *k)
{
    ideal_chacha_ietf_xor(c, m, mlen, k, 0, n);
    return 0;
}
int
crypto_stream_salsa20(unsigned char *c, unsigned long long clen, const unsigned char *n, const unsigned char *k)
{
    ideal_salsa_xor(20, c, NULL, clen, k, 0, n);
    return 0;
}
int
crypto_stream_salsa20_xor_ic(unsigned char *c, const unsigned char *m, unsigned long long mlen,
                             const unsigned char *n, uint64_t ic, const unsigned char *k)
{
    ideal_salsa_xor(20, c, m, mlen, k, ic, n);
    return 0;
}
int
crypto_stream_salsa20_xor(unsigned char *c, const unsigned char *m, unsigned long long mlen,
                          const unsigned char *n, const unsigned char *k)
{
    ideal_salsa_xor(20, c, m, mlen, k, 0, n);
    return 0;
}
#endif /* IDEAL_IMPL_LEVEL */
int
crypto_core_hchacha20(unsigned char *out, const unsigned char *in, const unsigned char *k, const unsigned char *c)
{
    ideal_hchacha20(out, in, k, c);
    return 0;
}
int
crypto_core_hsalsa20(unsigned char *out, const unsigned char *in, const unsigned char *k, const unsigned char *c)
{
    ideal_hsalsa20(out, in, k, c);
    return 0;
}

/* streaming Poly1305: ghost log; the tag is the abstract MAC of the whole input */
#define ST_MAGIC 0x504f4c59u
/* The glue code under test only ever has one streaming MAC in flight, so the
 * ghost log entry is addressed by a global index (keeps every offset concrete
 * for the symbolic executor); the state object only carries a magic number so
 * that use-before-init / use-after-final is detected. */
static int ideal_mac_cur = -1;
int
crypto_onetimeauth_poly1305_init(crypto_onetimeauth_poly1305_state *state, const unsigned char *key)
{
    __CPROVER_assume(ideal_mac_count < IDEAL_MAXMAC);
    ideal_mac_cur = ideal_mac_count++;
    memcpy(ideal_macs[ideal_mac_cur].key, key, 32);
    ideal_macs[ideal_mac_cur].len       = 0;
    ideal_macs[ideal_mac_cur].finalized = 0;
    v_st32le(state->opaque, ST_MAGIC);
    return 0;
}
int
crypto_onetimeauth_poly1305_update(crypto_onetimeauth_poly1305_state *state, const unsigned char *in,
                                   unsigned long long inlen)
{
    CHECK(v_ld32le(state->opaque) == ST_MAGIC && ideal_mac_cur >= 0, "poly1305 update without init (or after final/wipe)");
    CHECK(!ideal_macs[ideal_mac_cur].finalized, "poly1305 update after final");
    __CPROVER_assume(ideal_macs[ideal_mac_cur].len + inlen <= IDEAL_MACBUF);
    if (inlen > 0) {
        memcpy(ideal_macs[ideal_mac_cur].data + ideal_macs[ideal_mac_cur].len, in, inlen);
    }
    ideal_macs[ideal_mac_cur].len += inlen;
    return 0;
}
int
crypto_onetimeauth_poly1305_final(crypto_onetimeauth_poly1305_state *state, unsigned char *out)
{
    CHECK(v_ld32le(state->opaque) == ST_MAGIC && ideal_mac_cur >= 0, "poly1305 final without init (or twice)");
    CHECK(!ideal_macs[ideal_mac_cur].finalized, "poly1305 final called twice");
    ideal_macs[ideal_mac_cur].finalized = 1;
    ideal_mac_tag(ideal_macs[ideal_mac_cur].tag, ideal_macs[ideal_mac_cur].data, ideal_macs[ideal_mac_cur].len,
                  ideal_macs[ideal_mac_cur].key);
    memcpy(out, ideal_macs[ideal_mac_cur].tag, 16);
    v_st32le(state->opaque, 0);
    return 0;
}
int
crypto_onetimeauth_poly1305(unsigned char *out, const unsigned char *in, unsigned long long inlen,
                            const unsigned char *k)
{
    crypto_onetimeauth_poly1305_state st;
    crypto_onetimeauth_poly1305_init(&st, k);
    crypto_onetimeauth_poly1305_update(&st, in, inlen);
    crypto_onetimeauth_poly1305_final(&st, out);
    return 0;
}
int
crypto_onetimeauth_poly1305_verify(const unsigned char *h, const unsigned char *in, unsigned long long inlen,
                                   const unsigned char *k)
{
    unsigned char t[16];
    crypto_onetimeauth_poly1305(t, in, inlen, k);
    return v_eq(t, h, 16) ? 0 : -1;
}
#endif
