#ifndef VERIF_IDEAL_HASH_H
#define VERIF_IDEAL_HASH_H
#include <stddef.h>
#include <stdint.h>
#define IDEAL_SHA256 1
#define IDEAL_SHA512 2
#define IDEAL_BLAKE2B 3
#ifndef IDEAL_HASHBUF
# define IDEAL_HASHBUF 320
#endif
#ifndef IDEAL_MAXHASH
# define IDEAL_MAXHASH 24
#endif
struct ideal_hash_log {
    int     alg;
    size_t  outlen, keylen, len;
    uint8_t key[64], salt[16], pers[16];
    uint8_t data[IDEAL_HASHBUF];
    int     finalized;
};
extern struct ideal_hash_log ideal_hashes[IDEAL_MAXHASH];
extern int                   ideal_hash_count;
/* abstract hash: pure function of (alg, outlen, key, salt, personal, data) */
void ideal_hash(int alg, uint8_t *out, size_t outlen, const uint8_t *data, size_t len, const uint8_t *key,
                size_t keylen, const uint8_t *salt, const uint8_t *pers);
#endif
