#include "verif.h"
#include "rng.h"
#include "randombytes.h"

const uint8_t       *verif_rng_src;
size_t               verif_rng_cap, verif_rng_pos;
int                  verif_rng_nreq;
struct verif_rng_req verif_rng_reqs[VERIF_RNG_MAXREQ];

void
randombytes_buf(void *const buf, const size_t size)
{
    ASSUME(verif_rng_nreq < VERIF_RNG_MAXREQ);
    ASSUME(verif_rng_src != NULL && size <= verif_rng_cap - verif_rng_pos);
    verif_rng_reqs[verif_rng_nreq].ptr = buf;
    verif_rng_reqs[verif_rng_nreq].len = size;
    verif_rng_reqs[verif_rng_nreq].off = verif_rng_pos;
    verif_rng_nreq++;
    if (size > 0) {
        memcpy(buf, verif_rng_src + verif_rng_pos, size);
    }
    verif_rng_pos += size;
}
