/* C bodies for the few GCC x86 builtins CBMC has no model for.
 * Semantics per the Intel SDM; validated natively by bin/setup. */
#include <stdint.h>

typedef char v16qi_t __attribute__((vector_size(16)));

int
__builtin_ia32_pmovmskb128(v16qi_t a)
{
    int m = 0;
    int i;
    for (i = 0; i < 16; i++) {
        m |= (((unsigned char) a[i]) >> 7) << i;
    }
    return m;
}

/* ---- SSE2 integer builtins used by poly1305_sse2.c (Intel SDM semantics) ---- */
typedef int       v4si_t __attribute__((vector_size(16)));
typedef long long v2di_t __attribute__((vector_size(16)));

v4si_t
__builtin_ia32_pshufd(v4si_t a, int imm)
{
    v4si_t r;
    r[0] = a[imm & 3];
    r[1] = a[(imm >> 2) & 3];
    r[2] = a[(imm >> 4) & 3];
    r[3] = a[(imm >> 6) & 3];
    return r;
}

v4si_t
__builtin_ia32_punpckldq128(v4si_t a, v4si_t b)
{
    v4si_t r;
    r[0] = a[0]; r[1] = b[0]; r[2] = a[1]; r[3] = b[1];
    return r;
}

v4si_t
__builtin_ia32_punpckhdq128(v4si_t a, v4si_t b)
{
    v4si_t r;
    r[0] = a[2]; r[1] = b[2]; r[2] = a[3]; r[3] = b[3];
    return r;
}

v2di_t
__builtin_ia32_punpcklqdq128(v2di_t a, v2di_t b)
{
    v2di_t r;
    r[0] = a[0]; r[1] = b[0];
    return r;
}

v2di_t
__builtin_ia32_punpckhqdq128(v2di_t a, v2di_t b)
{
    v2di_t r;
    r[0] = a[1]; r[1] = b[1];
    return r;
}

v2di_t
__builtin_ia32_pmuludq128(v4si_t a, v4si_t b)
{
    v2di_t r;
    r[0] = (long long) ((uint64_t) (uint32_t) a[0] * (uint64_t) (uint32_t) b[0]);
    r[1] = (long long) ((uint64_t) (uint32_t) a[2] * (uint64_t) (uint32_t) b[2]);
    return r;
}

v2di_t
__builtin_ia32_psrlqi128(v2di_t a, int n)
{
    v2di_t r;
    r[0] = n > 63 ? 0 : (long long) ((uint64_t) a[0] >> n);
    r[1] = n > 63 ? 0 : (long long) ((uint64_t) a[1] >> n);
    return r;
}

v2di_t
__builtin_ia32_psllqi128(v2di_t a, int n)
{
    v2di_t r;
    r[0] = n > 63 ? 0 : (long long) ((uint64_t) a[0] << n);
    r[1] = n > 63 ? 0 : (long long) ((uint64_t) a[1] << n);
    return r;
}

v2di_t
__builtin_ia32_psrldqi128(v2di_t a, int nbits)
{
    /* byte shift right of the whole 128-bit value; the builtin takes the amount in bits */
    unsigned __int128 v = ((unsigned __int128) (uint64_t) a[1] << 64) | (uint64_t) a[0];
    v2di_t            r;
    v = nbits > 127 ? 0 : v >> nbits;
    r[0] = (long long) (uint64_t) v;
    r[1] = (long long) (uint64_t) (v >> 64);
    return r;
}

v2di_t
__builtin_ia32_pslldqi128(v2di_t a, int nbits)
{
    unsigned __int128 v = ((unsigned __int128) (uint64_t) a[1] << 64) | (uint64_t) a[0];
    v2di_t            r;
    v = nbits > 127 ? 0 : v << nbits;
    r[0] = (long long) (uint64_t) v;
    r[1] = (long long) (uint64_t) (v >> 64);
    return r;
}
