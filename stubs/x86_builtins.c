/* C bodies for the few GCC x86 builtins CBMC has no model for.
 * Semantics per the Intel SDM; validated natively by bin/setup. */
#include <stdint.h>

typedef char v16qi_t __attribute__((vector_size(16)));

int
__builtin_ia32_pmovmskb128(v16qi_t a)
{
    int m = 0;
    int i;
    for (i = 0; i < 16; i++) {
        m |= (((unsigned char) a[i]) >> 7) << i;
    }
    return m;
}
