/* Abstract Edwards25519 group / scalar field: every ge25519_* / sc25519_*
 * operation used by the Ed25519 and crypto_core drivers is an uninterpreted
 * function of its mathematical inputs.  Points carry a 256-bit abstract
 * identifier (stored in the X limbs of the point structure).  In REPLAY mode
 * the real ed25519_ref10.c is linked and the helpers below evaluate the same
 * operations with it. */
#ifndef VERIF_IDEAL_ED25519_H
#define VERIF_IDEAL_ED25519_H
#include <stdint.h>
#include "private/ed25519_ref10.h"
/* spec-side helpers (same abstract functions as the stubs use) */
void ied_sc_reduce(uint8_t out[32], const uint8_t in[64]);
void ied_sc_muladd(uint8_t s[32], const uint8_t a[32], const uint8_t b[32], const uint8_t c[32]);
int  ied_sc_is_canonical(const uint8_t s[32]);
void ied_base_mult_bytes(uint8_t out[32], const uint8_t a[32]);     /* encode(a*B) */
int  ied_ge_is_canonical(const uint8_t s[32]);
/* verification-side abstract predicates / maps on encodings */
int  ied_decode_ok(const uint8_t s[32]);                 /* ge25519_frombytes succeeds */
int  ied_decode_neg_ok(const uint8_t s[32]);             /* ge25519_frombytes_negate_vartime succeeds */
int  ied_small_order_enc(const uint8_t s[32], int negated); /* has_small_order(decode(s)) */
/* has_small_order(R - (S*B + h*(-A))) for R = decode(r), -A = decode_neg(pk) */
int  ied_check_small(const uint8_t r[32], const uint8_t h[32], const uint8_t pk[32], const uint8_t S[32]);
int  ied_on_curve_enc(const uint8_t s[32]);
int  ied_main_subgroup_enc(const uint8_t s[32]);
void ied_scalarmult_bytes(uint8_t out[32], const uint8_t t[32], const uint8_t p_enc[32]); /* enc(t * dec(p)) */
void ied_addsub_bytes(uint8_t out[32], const uint8_t p_enc[32], const uint8_t q_enc[32], int sub);
void ied_sc_mul(uint8_t s[32], const uint8_t a[32], const uint8_t b[32]);
void ied_sc_invert(uint8_t s[32], const uint8_t a[32]);
void ied_from_uniform(uint8_t s[32], const uint8_t r[32]);
void ied_from_hash(uint8_t s[32], const uint8_t h[64]);
/* Ristretto255 layer */
int  ied_ris_decode_ok(const uint8_t s[32]);
void ied_ris_addsub_bytes(uint8_t out[32], const uint8_t p_enc[32], const uint8_t q_enc[32], int sub);
void ied_ris_scalarmult_bytes(uint8_t out[32], const uint8_t t[32], const uint8_t p_enc[32]);
void ied_ris_base_mult_bytes(uint8_t out[32], const uint8_t t[32]);
void ied_ris_from_hash(uint8_t s[32], const uint8_t h[64]);
#endif
