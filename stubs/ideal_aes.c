/* AES round function R (SubBytes, ShiftRows, MixColumns) as an uninterpreted
 * function on 128-bit blocks; softaes_block_encrypt(block, rk) = R(block) XOR
 * rk (FIPS-197: AddRoundKey is the last step of a round).  REPLAY: the real
 * softaes.c is linked and R is evaluated with a zero round key. */
#include "verif.h"
#include "ideal_aes.h"
#include "private/softaes.h"

#ifndef REPLAY
typedef unsigned __CPROVER_bitvector[128] a128_t;
a128_t __CPROVER_uninterpreted_aes_round(a128_t b);

SoftAesBlock
softaes_block_encrypt(const SoftAesBlock block, const SoftAesBlock rk)
{
    a128_t       v = (a128_t) block.w0 | ((a128_t) block.w1 << 32) | ((a128_t) block.w2 << 64) | ((a128_t) block.w3 << 96);
    a128_t       r = __CPROVER_uninterpreted_aes_round(v);
    SoftAesBlock out;
    out.w0 = (uint32_t) r ^ rk.w0;
    out.w1 = (uint32_t) (r >> 32) ^ rk.w1;
    out.w2 = (uint32_t) (r >> 64) ^ rk.w2;
    out.w3 = (uint32_t) (r >> 96) ^ rk.w3;
    return out;
}
#endif

void
ideal_aes_round(uint8_t out[16], const uint8_t in[16])
{
    static const uint8_t zero[16] = { 0 };
    softaes_block_store(out, softaes_block_encrypt(softaes_block_load(in), softaes_block_load(zero)));
}
