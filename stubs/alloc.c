#include <stdlib.h>
#include <errno.h>
#include <sys/mman.h>
#include "verif.h"
#include "alloc.h"

/* this file implements the interposed names: it must call the real allocator */
#undef malloc
#undef calloc
#undef free
#undef posix_memalign
#undef mmap
#undef munmap

const uint8_t *verif_fail_sched;
int            verif_alloc_seq, verif_alloc_failed, verif_alloc_live;

static int
must_fail(void)
{
    int k = verif_alloc_seq++;
    ASSUME(k < VERIF_ALLOC_MAXREQ);
    if (verif_fail_sched != NULL && verif_fail_sched[k] != 0) {
        verif_alloc_failed = 1;
        return 1;
    }
    return 0;
}

void *
verif_malloc(size_t n)
{
    void *p;
    if (must_fail()) {
        errno = ENOMEM;
        return NULL;
    }
    p = malloc(n > 0 ? n : 1);
    ASSUME(p != NULL);
    verif_alloc_live++;
    return p;
}

void *
verif_calloc(size_t n, size_t m)
{
    void *p;
    if (must_fail()) {
        errno = ENOMEM;
        return NULL;
    }
    p = malloc(n * m > 0 ? n * m : 1);
    ASSUME(p != NULL);
    memset(p, 0, n * m);
    verif_alloc_live++;
    return p;
}

void
verif_free(void *p)
{
    if (p != NULL) {
        verif_alloc_live--;
        free(p); /* CBMC: double free / invalid free are checked by the built-in model */
    }
}

int
verif_posix_memalign(void **pp, size_t al, size_t n)
{
    (void) al;
    if (must_fail()) {
        return ENOMEM;
    }
    *pp = malloc(n > 0 ? n : 1);
    ASSUME(*pp != NULL);
    verif_alloc_live++;
    return 0;
}

static void  *last_map;
static size_t last_map_len;
void *
verif_mmap(void *a, size_t len, int prot, int flags, int fd, off_t off)
{
    void *p;
    (void) a; (void) prot; (void) flags; (void) fd; (void) off;
    if (must_fail()) {
        errno = ENOMEM;
        return MAP_FAILED;
    }
    p = malloc(len > 0 ? len : 1);
    ASSUME(p != NULL);
    verif_alloc_live++;
    last_map     = p;
    last_map_len = len;
    return p;
}

int
verif_munmap(void *p, size_t len)
{
    CHECK(p != NULL && p != MAP_FAILED, "munmap of an invalid mapping");
    if (p == last_map) {
        CHECK(len == last_map_len, "munmap length differs from the mapped length");
    }
    verif_alloc_live--;
    free(p);
    return 0;
}
