/* Implementation-level stubs: the REAL dispatchers stream_chacha20.c /
 * stream_salsa20.c are linked and call these back ends through their
 * implementation tables.  IMPL_RECORD_ONLY: the back ends only record their
 * arguments (used with symbolic 64-bit lengths for the limit guards). */
#include "verif.h"
#include "ideal.h"
#include "ideal_impl.h"
#include "crypto_stream/chacha20/stream_chacha20.h"
#include "crypto_stream/salsa20/stream_salsa20.h"

struct impl_call impl_last;
int              impl_calls;

#ifndef REPLAY
static void
rec(int which, unsigned long long len, uint64_t ic)
{
    impl_last.which = which;
    impl_last.len   = len;
    impl_last.ic    = ic;
    impl_calls++;
}
static int
c_stream(unsigned char *c, unsigned long long clen, const unsigned char *n, const unsigned char *k)
{
    rec(1, clen, 0);
# ifndef IMPL_RECORD_ONLY
    ideal_chacha_xor(c, NULL, clen, k, 0, n);
# endif
    return 0;
}
static int
c_stream_ietf_ext(unsigned char *c, unsigned long long clen, const unsigned char *n, const unsigned char *k)
{
    rec(2, clen, 0);
# ifndef IMPL_RECORD_ONLY
    ideal_chacha_ietf_xor(c, NULL, clen, k, 0, n);
# endif
    return 0;
}
static int
c_stream_xor_ic(unsigned char *c, const unsigned char *m, unsigned long long mlen, const unsigned char *n,
                uint64_t ic, const unsigned char *k)
{
    rec(3, mlen, ic);
# ifndef IMPL_RECORD_ONLY
    ideal_chacha_xor(c, m, mlen, k, ic, n);
# endif
    return 0;
}
static int
c_stream_ietf_ext_xor_ic(unsigned char *c, const unsigned char *m, unsigned long long mlen,
                         const unsigned char *n, uint32_t ic, const unsigned char *k)
{
    rec(4, mlen, ic);
# ifndef IMPL_RECORD_ONLY
    ideal_chacha_ietf_xor(c, m, mlen, k, ic, n);
# endif
    return 0;
}
struct crypto_stream_chacha20_implementation crypto_stream_chacha20_ref_implementation = {
    c_stream, c_stream_ietf_ext, c_stream_xor_ic, c_stream_ietf_ext_xor_ic
};

static int
s_stream(unsigned char *c, unsigned long long clen, const unsigned char *n, const unsigned char *k)
{
    rec(5, clen, 0);
# ifndef IMPL_RECORD_ONLY
    ideal_salsa_xor(20, c, NULL, clen, k, 0, n);
# endif
    return 0;
}
static int
s_stream_xor_ic(unsigned char *c, const unsigned char *m, unsigned long long mlen, const unsigned char *n,
                uint64_t ic, const unsigned char *k)
{
    rec(6, mlen, ic);
# ifndef IMPL_RECORD_ONLY
    ideal_salsa_xor(20, c, m, mlen, k, ic, n);
# endif
    return 0;
}
struct crypto_stream_salsa20_implementation crypto_stream_salsa20_xmm6_implementation = { s_stream, s_stream_xor_ic };
struct crypto_stream_salsa20_implementation crypto_stream_salsa20_ref_implementation  = { s_stream, s_stream_xor_ic };
#endif
