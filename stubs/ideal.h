/* Idealised cryptographic cores (DESIGN.md section 2).
 *
 * CBMC mode: each core is an *uninterpreted function* (CBMC's
 * __CPROVER_uninterpreted_* prefix: fresh symbolic result, functional
 * consistency enforced by Ackermann constraints in the solver) of exactly the
 * inputs the real core depends on.  Nothing else is assumed about the values:
 * in particular not that different inputs give different outputs.
 *
 * REPLAY mode: the same helper names are implemented with the real
 * primitives from /repo, and the real API functions are linked instead of the
 * stubs, so a counterexample is re-executed against the real code.
 */
#ifndef VERIF_IDEAL_H
#define VERIF_IDEAL_H
#include <stddef.h>
#include <stdint.h>

/* one 64-byte ChaCha20 block: state words 12..13 = ctr (LE), 14..15 = n8 */
void ideal_chacha_block(const uint8_t key[32], uint64_t ctr, const uint8_t n8[8], uint8_t out[64]);
/* one 64-byte Salsa20/r block */
void ideal_salsa_block(int rounds, const uint8_t key[32], uint64_t ctr, const uint8_t n8[8], uint8_t out[64]);
/* c = m ^ keystream, starting at block `ctr`; c == m or disjoint */
void ideal_chacha_xor(uint8_t *c, const uint8_t *m, size_t len, const uint8_t key[32], uint64_t ctr, const uint8_t n8[8]);
void ideal_salsa_xor(int rounds, uint8_t *c, const uint8_t *m, size_t len, const uint8_t key[32], uint64_t ctr, const uint8_t n8[8]);
/* IETF view: 12-byte nonce, 32-bit counter; counter carries into nonce word 0 (ietf_ext) */
void ideal_chacha_ietf_xor(uint8_t *c, const uint8_t *m, size_t len, const uint8_t key[32], uint32_t ic, const uint8_t n12[12]);
void ideal_hchacha20(uint8_t out[32], const uint8_t in[16], const uint8_t key[32], const uint8_t *c16);
void ideal_hsalsa20(uint8_t out[32], const uint8_t in[16], const uint8_t key[32], const uint8_t *c16);
/* Poly1305 as an abstract MAC of (key, byte string) */
void ideal_mac_tag(uint8_t out[16], const uint8_t *data, size_t len, const uint8_t key[32]);

/* ghost log of streaming MAC computations made by the code under test (CBMC mode) */
#ifndef IDEAL_MACBUF
# define IDEAL_MACBUF 256
#endif
#ifndef IDEAL_MAXMAC
# define IDEAL_MAXMAC 16
#endif
struct ideal_mac_log {
    uint8_t key[32];
    uint8_t data[IDEAL_MACBUF];
    size_t  len;
    int     finalized;
    uint8_t tag[16];
};
extern struct ideal_mac_log ideal_macs[IDEAL_MAXMAC];
extern int                  ideal_mac_count;
#endif
