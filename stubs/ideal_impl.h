#ifndef VERIF_IDEAL_IMPL_H
#define VERIF_IDEAL_IMPL_H
#include <stdint.h>
struct impl_call { int which; unsigned long long len; uint64_t ic; };
extern struct impl_call impl_last;
extern int              impl_calls;
#endif
