/* Fault-injecting allocator: the units under test are compiled with
 *   -Dmalloc=verif_malloc -Dcalloc=verif_calloc -Dfree=verif_free
 *   -Dposix_memalign=verif_posix_memalign -Dmmap=verif_mmap -Dmunmap=verif_munmap
 * so every allocation request consults the symbolic fault schedule
 * verif_fail_sched[k] (k = sequence number of the request). */
#ifndef VERIF_ALLOC_H
#define VERIF_ALLOC_H
#include <stddef.h>
#include <stdint.h>
#include <sys/types.h>
#define VERIF_ALLOC_MAXREQ 12
extern const uint8_t *verif_fail_sched;
extern int            verif_alloc_seq;    /* requests so far */
extern int            verif_alloc_failed; /* some request was made to fail */
extern int            verif_alloc_live;   /* live objects */
void *verif_malloc(size_t n);
void *verif_calloc(size_t n, size_t m);
void  verif_free(void *p);
int   verif_posix_memalign(void **pp, size_t al, size_t n);
void *verif_mmap(void *a, size_t len, int prot, int flags, int fd, off_t off);
int   verif_munmap(void *p, size_t len);
#endif
