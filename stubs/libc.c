/* libc / OS models shared by the harnesses (CBMC mode only) */
#include <stddef.h>
#include <stdint.h>
#include <string.h>

#ifdef VERIF_CBMC
void
explicit_bzero(void *p, size_t n)
{
    memset(p, 0, n);
}
#endif
