#ifndef VERIF_IDEAL_DH_H
#define VERIF_IDEAL_DH_H
#include <stdint.h>
/* X25519 as an abstract function; returns -1 iff the result is all-zero (the
 * documented failure condition of crypto_scalarmult_curve25519); which of the two
 * outcomes is explored is selected per obligation with -DDH_FAIL */
int  ideal_dh(uint8_t q[32], const uint8_t n[32], const uint8_t p[32]);
void ideal_dh_base(uint8_t q[32], const uint8_t n[32]);
/* RFC 7748 commutativity DH(a, base(b)) == DH(b, base(a)) for this pair (mathematics; assumed) */
void ideal_dh_assume_commutes(const uint8_t a[32], const uint8_t b[32]);
#endif
