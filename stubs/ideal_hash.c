/* Idealised hash functions (SHA-256, SHA-512, BLAKE2b) as uninterpreted
 * functions of their complete input, with ghost logs of streaming use. */
#include "verif.h"
#include "ideal_hash.h"
#include "crypto_generichash.h"
#include "crypto_generichash_blake2b.h"
#include "crypto_hash_sha256.h"
#include "crypto_hash_sha512.h"

struct ideal_hash_log ideal_hashes[IDEAL_MAXHASH];
int                   ideal_hash_count;

#ifndef REPLAY
typedef unsigned __CPROVER_bitvector[512] hbv512_t;
typedef unsigned __CPROVER_bitvector[128] hbv128_t;
hbv128_t __CPROVER_uninterpreted_hash_init(uint64_t alg, uint64_t outlen, uint64_t keylen, hbv512_t key,
                                           hbv128_t salt, hbv128_t pers);
hbv128_t __CPROVER_uninterpreted_hash_absorb(hbv128_t h, hbv512_t chunk);
hbv512_t __CPROVER_uninterpreted_hash_out(hbv128_t h, uint64_t len);

void
ideal_hash(int alg, uint8_t *out, size_t outlen, const uint8_t *data, size_t len, const uint8_t *key,
           size_t keylen, const uint8_t *salt, const uint8_t *pers)
{
    hbv512_t k = 0, o;
    hbv128_t s = 0, p = 0, h;
    size_t   i, j;
    for (i = 0; i < keylen && i < 64; i++) k |= (hbv512_t) key[i] << (8 * i);
    if (salt != NULL) for (i = 0; i < 16; i++) s |= (hbv128_t) salt[i] << (8 * i);
    if (pers != NULL) for (i = 0; i < 16; i++) p |= (hbv128_t) pers[i] << (8 * i);
    h = __CPROVER_uninterpreted_hash_init((uint64_t) alg, (uint64_t) outlen, (uint64_t) keylen, k, s, p);
    for (i = 0; i < len; i += 64) {
        hbv512_t chunk = 0;
        for (j = 0; j < 64 && i + j < len; j++) chunk |= (hbv512_t) data[i + j] << (8 * j);
        h = __CPROVER_uninterpreted_hash_absorb(h, chunk);
    }
    o = __CPROVER_uninterpreted_hash_out(h, (uint64_t) len);
    for (i = 0; i < outlen && i < 64; i++) out[i] = (uint8_t) (o >> (8 * i));
}

/* The ghost log entry of a streaming state is found by the ADDRESS of the state
 * object (kept in a side table), not by an index stored inside the state:
 * reading an index back out of a large opaque byte array does not
 * constant-propagate in CBMC's symbolic executor and makes every log access a
 * symbolic-index array update (measured: no verdict in 40 s vs 0.3 s). */
static const void *hash_ptrs[IDEAL_MAXHASH];
static int
log_find(const void *state)
{
    int i;
    for (i = IDEAL_MAXHASH - 1; i >= 0; i--) {
        if (i < ideal_hash_count && hash_ptrs[i] == state && !ideal_hashes[i].finalized) {
            return i;
        }
    }
    return -1;
}
static int
log_new(int alg, size_t outlen, const uint8_t *key, size_t keylen, const uint8_t *salt, const uint8_t *pers)
{
    int idx;
    __CPROVER_assume(ideal_hash_count < IDEAL_MAXHASH);
    idx = ideal_hash_count++;
    ideal_hashes[idx].alg = alg;
    ideal_hashes[idx].outlen = outlen;
    ideal_hashes[idx].keylen = keylen;
    memset(ideal_hashes[idx].key, 0, 64);
    memset(ideal_hashes[idx].salt, 0, 16);
    memset(ideal_hashes[idx].pers, 0, 16);
    if (key != NULL && keylen > 0) memcpy(ideal_hashes[idx].key, key, keylen);
    if (salt != NULL) memcpy(ideal_hashes[idx].salt, salt, 16);
    if (pers != NULL) memcpy(ideal_hashes[idx].pers, pers, 16);
    ideal_hashes[idx].len = 0;
    ideal_hashes[idx].finalized = 0;
    return idx;
}
static void
log_update(int idx, const uint8_t *in, size_t inlen)
{
    CHECK(idx >= 0 && idx < IDEAL_MAXHASH, "hash state not initialised");
    CHECK(!ideal_hashes[idx].finalized, "hash update after final");
    __CPROVER_assume(ideal_hashes[idx].len + inlen <= IDEAL_HASHBUF);
    if (inlen > 0) memcpy(ideal_hashes[idx].data + ideal_hashes[idx].len, in, inlen);
    ideal_hashes[idx].len += inlen;
}
static void
log_final(int idx, uint8_t *out, size_t outlen)
{
    CHECK(idx >= 0 && idx < IDEAL_MAXHASH, "hash state not initialised");
    CHECK(!ideal_hashes[idx].finalized, "hash final called twice");
    ideal_hashes[idx].finalized = 1;
    ideal_hash(ideal_hashes[idx].alg, out, outlen, ideal_hashes[idx].data, ideal_hashes[idx].len,
               ideal_hashes[idx].key, ideal_hashes[idx].keylen, ideal_hashes[idx].salt, ideal_hashes[idx].pers);
}

#define MAGIC256 0x5348413235360000ULL
#define MAGIC512 0x5348413531320000ULL
/* the log index lives in the state object (two states can be in flight, e.g. HMAC) */
int
crypto_hash_sha256_init(crypto_hash_sha256_state *state)
{
    hash_ptrs[log_new(IDEAL_SHA256, 32, NULL, 0, NULL, NULL)] = state;
    state->count = MAGIC256;
    return 0;
}
int
crypto_hash_sha256_update(crypto_hash_sha256_state *state, const unsigned char *in, unsigned long long inlen)
{
    CHECK(state->count == MAGIC256, "sha256 update on a state that was not initialised");
    log_update(log_find(state), in, inlen);
    return 0;
}
int
crypto_hash_sha256_final(crypto_hash_sha256_state *state, unsigned char *out)
{
    CHECK(state->count == MAGIC256, "sha256 final on a state that was not initialised");
    log_final(log_find(state), out, 32);
    state->count = 0;
    return 0;
}
int
crypto_hash_sha256(unsigned char *out, const unsigned char *in, unsigned long long inlen)
{
    crypto_hash_sha256_state st;
    crypto_hash_sha256_init(&st);
    crypto_hash_sha256_update(&st, in, inlen);
    crypto_hash_sha256_final(&st, out);
    return 0;
}
int
crypto_hash_sha512_init(crypto_hash_sha512_state *state)
{
    hash_ptrs[log_new(IDEAL_SHA512, 64, NULL, 0, NULL, NULL)] = state;
    state->count[0] = MAGIC512;
    return 0;
}
int
crypto_hash_sha512_update(crypto_hash_sha512_state *state, const unsigned char *in, unsigned long long inlen)
{
    CHECK(state->count[0] == MAGIC512, "sha512 update on a state that was not initialised");
    log_update(log_find(state), in, inlen);
    return 0;
}
int
crypto_hash_sha512_final(crypto_hash_sha512_state *state, unsigned char *out)
{
    CHECK(state->count[0] == MAGIC512, "sha512 final on a state that was not initialised");
    log_final(log_find(state), out, 64);
    state->count[0] = 0;
    return 0;
}
int
crypto_hash_sha512(unsigned char *out, const unsigned char *in, unsigned long long inlen)
{
    crypto_hash_sha512_state st;
    crypto_hash_sha512_init(&st);
    crypto_hash_sha512_update(&st, in, inlen);
    crypto_hash_sha512_final(&st, out);
    return 0;
}

/* BLAKE2b (generichash): limits are checked by the real wrappers' contract */
static int
b2_init(crypto_generichash_blake2b_state *state, const unsigned char *key, size_t keylen, size_t outlen,
        const unsigned char *salt, const unsigned char *pers)
{
    if (outlen <= 0 || outlen > 64 || keylen > 64) {
        return -1;
    }
    state->opaque[0] = 0xb2;
    hash_ptrs[log_new(IDEAL_BLAKE2B, outlen, key, key == NULL ? 0 : keylen, salt, pers)] = state;
    return 0;
}
int
crypto_generichash_blake2b_init(crypto_generichash_blake2b_state *state, const unsigned char *key,
                                const size_t keylen, const size_t outlen)
{
    return b2_init(state, key, keylen, outlen, NULL, NULL);
}
int
crypto_generichash_blake2b_init_salt_personal(crypto_generichash_blake2b_state *state, const unsigned char *key,
                                              const size_t keylen, const size_t outlen,
                                              const unsigned char *salt, const unsigned char *personal)
{
    return b2_init(state, key, keylen, outlen, salt, personal);
}
int
crypto_generichash_blake2b_update(crypto_generichash_blake2b_state *state, const unsigned char *in,
                                  unsigned long long inlen)
{
    CHECK(state->opaque[0] == 0xb2, "blake2b update on a state that was not initialised");
    log_update(log_find(state), in, inlen);
    return 0;
}
int
crypto_generichash_blake2b_final(crypto_generichash_blake2b_state *state, unsigned char *out, const size_t outlen)
{
    CHECK(state->opaque[0] == 0xb2, "blake2b final on a state that was not initialised");
    {
        int idx = log_find(state);
        CHECK(idx >= 0 && outlen == ideal_hashes[idx].outlen, "blake2b final with an output length different from init");
        log_final(idx, out, outlen);
    }
    state->opaque[0] = 0;
    return 0;
}
int
crypto_generichash_blake2b(unsigned char *out, size_t outlen, const unsigned char *in, unsigned long long inlen,
                           const unsigned char *key, size_t keylen)
{
    crypto_generichash_blake2b_state st;
    if (b2_init(&st, key, keylen, outlen, NULL, NULL) != 0) return -1;
    crypto_generichash_blake2b_update(&st, in, inlen);
    return crypto_generichash_blake2b_final(&st, out, outlen);
}
int
crypto_generichash_blake2b_salt_personal(unsigned char *out, size_t outlen, const unsigned char *in,
                                         unsigned long long inlen, const unsigned char *key, size_t keylen,
                                         const unsigned char *salt, const unsigned char *personal)
{
    crypto_generichash_blake2b_state st;
    if (b2_init(&st, key, keylen, outlen, salt, personal) != 0) return -1;
    crypto_generichash_blake2b_update(&st, in, inlen);
    return crypto_generichash_blake2b_final(&st, out, outlen);
}
#else
/* native replay: real primitives */
void
ideal_hash(int alg, uint8_t *out, size_t outlen, const uint8_t *data, size_t len, const uint8_t *key,
           size_t keylen, const uint8_t *salt, const uint8_t *pers)
{
    if (alg == IDEAL_SHA256) crypto_hash_sha256(out, data, len);
    else if (alg == IDEAL_SHA512) crypto_hash_sha512(out, data, len);
    else if (salt != NULL || pers != NULL)
        crypto_generichash_blake2b_salt_personal(out, outlen, data, len, keylen ? key : NULL, keylen, salt, pers);
    else crypto_generichash_blake2b(out, outlen, data, len, keylen ? key : NULL, keylen);
}
#endif
