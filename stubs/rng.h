#ifndef VERIF_RNG_H
#define VERIF_RNG_H
#include <stddef.h>
#include <stdint.h>
/* scripted random source: randombytes_buf serves consecutive bytes of
 * verif_rng_src (set by the harness from its symbolic input) and logs requests */
#define VERIF_RNG_MAXREQ 8
extern const uint8_t *verif_rng_src;
extern size_t         verif_rng_cap, verif_rng_pos;
extern int            verif_rng_nreq;
extern struct verif_rng_req { void *ptr; size_t len, off; } verif_rng_reqs[VERIF_RNG_MAXREQ];
#endif
