#ifndef VERIF_IDEAL_AES_H
#define VERIF_IDEAL_AES_H
#include <stdint.h>
/* R(in): one AES round (SubBytes, ShiftRows, MixColumns) with an all-zero round key */
void ideal_aes_round(uint8_t out[16], const uint8_t in[16]);
#endif
