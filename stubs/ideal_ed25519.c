#include "verif.h"
#include "ideal_ed25519.h"

#ifndef REPLAY
typedef unsigned __CPROVER_bitvector[256] e256_t;
typedef unsigned __CPROVER_bitvector[512] e512_t;

e256_t        __CPROVER_uninterpreted_sc_reduce(e512_t s);
e256_t        __CPROVER_uninterpreted_sc_muladd(e256_t a, e256_t b, e256_t c);
e256_t        __CPROVER_uninterpreted_sc_mul(e256_t a, e256_t b);
e256_t        __CPROVER_uninterpreted_sc_invert(e256_t a);
unsigned char __CPROVER_uninterpreted_sc_is_canonical(e256_t s);
e256_t        __CPROVER_uninterpreted_ge_base(e256_t a);                 /* point id of a*B */
e256_t        __CPROVER_uninterpreted_ge_mult(e256_t a, e256_t p);       /* a*P */
e256_t        __CPROVER_uninterpreted_ge_enc(e256_t p);                  /* encoding of point */
e256_t        __CPROVER_uninterpreted_ge_dec(e256_t s);                  /* point of encoding */
e256_t        __CPROVER_uninterpreted_ge_dec_neg(e256_t s);
unsigned char __CPROVER_uninterpreted_ge_dec_ok(e256_t s);
unsigned char __CPROVER_uninterpreted_ge_dec_neg_ok(e256_t s);
unsigned char __CPROVER_uninterpreted_ge_enc_canonical(e256_t s);
unsigned char __CPROVER_uninterpreted_ge_small(e256_t p);
unsigned char __CPROVER_uninterpreted_ge_on_curve(e256_t p);
unsigned char __CPROVER_uninterpreted_ge_main_subgroup(e256_t p);
e256_t        __CPROVER_uninterpreted_ge_dsm(e256_t a, e256_t A, e256_t b); /* a*A + b*B */
e256_t        __CPROVER_uninterpreted_ge_add(e256_t p, e256_t q);
e256_t        __CPROVER_uninterpreted_ge_sub(e256_t p, e256_t q);
e256_t        __CPROVER_uninterpreted_ge_clear_cofactor(e256_t p);
e256_t        __CPROVER_uninterpreted_from_uniform(e256_t r);
e256_t        __CPROVER_uninterpreted_from_hash(e512_t h);

static e256_t
p256(const uint8_t *p)
{
    e256_t v = 0;
    int    i;
    for (i = 31; i >= 0; i--) v = (v << 8) | (e256_t) p[i];
    return v;
}
static e512_t
p512(const uint8_t *p)
{
    e512_t v = 0;
    int    i;
    for (i = 63; i >= 0; i--) v = (v << 8) | (e512_t) p[i];
    return v;
}
static void
u256(uint8_t *o, e256_t v)
{
    int i;
    for (i = 0; i < 32; i++) o[i] = (uint8_t) (v >> (8 * i));
}
/* point id <-> structure */
static e256_t
pid(const void *p)
{
    const uint64_t *w = (const uint64_t *) p;
    return (e256_t) w[0] | ((e256_t) w[1] << 64) | ((e256_t) w[2] << 128) | ((e256_t) w[3] << 192);
}
static void
setpid(void *p, e256_t id)
{
    uint64_t *w = (uint64_t *) p;
    w[0] = (uint64_t) id; w[1] = (uint64_t) (id >> 64); w[2] = (uint64_t) (id >> 128); w[3] = (uint64_t) (id >> 192);
}

/* ---- spec-side helpers ---- */
void ied_sc_reduce(uint8_t out[32], const uint8_t in[64]) { u256(out, __CPROVER_uninterpreted_sc_reduce(p512(in))); }
void ied_sc_muladd(uint8_t s[32], const uint8_t a[32], const uint8_t b[32], const uint8_t c[32]) { u256(s, __CPROVER_uninterpreted_sc_muladd(p256(a), p256(b), p256(c))); }
int  ied_sc_is_canonical(const uint8_t s[32]) { return __CPROVER_uninterpreted_sc_is_canonical(p256(s)) & 1; }
void ied_base_mult_bytes(uint8_t out[32], const uint8_t a[32]) { u256(out, __CPROVER_uninterpreted_ge_enc(__CPROVER_uninterpreted_ge_base(p256(a)))); }
int  ied_ge_is_canonical(const uint8_t s[32]) { return __CPROVER_uninterpreted_ge_enc_canonical(p256(s)) & 1; }
int  ied_decode_ok(const uint8_t s[32]) { return __CPROVER_uninterpreted_ge_dec_ok(p256(s)) & 1; }
int  ied_decode_neg_ok(const uint8_t s[32]) { return __CPROVER_uninterpreted_ge_dec_neg_ok(p256(s)) & 1; }
int
ied_small_order_enc(const uint8_t s[32], int negated)
{
    return __CPROVER_uninterpreted_ge_small(negated ? __CPROVER_uninterpreted_ge_dec_neg(p256(s))
                                                    : __CPROVER_uninterpreted_ge_dec(p256(s))) & 1;
}
int
ied_check_small(const uint8_t r[32], const uint8_t h[32], const uint8_t pk[32], const uint8_t S[32])
{
    e256_t R = __CPROVER_uninterpreted_ge_dec(p256(r));
    e256_t A = __CPROVER_uninterpreted_ge_dec_neg(p256(pk));
    e256_t P = __CPROVER_uninterpreted_ge_dsm(p256(h), A, p256(S));
    return __CPROVER_uninterpreted_ge_small(__CPROVER_uninterpreted_ge_sub(R, P)) & 1;
}

int  ied_on_curve_enc(const uint8_t s[32]) { return __CPROVER_uninterpreted_ge_on_curve(__CPROVER_uninterpreted_ge_dec(p256(s))) & 1; }
int  ied_main_subgroup_enc(const uint8_t s[32]) { return __CPROVER_uninterpreted_ge_main_subgroup(__CPROVER_uninterpreted_ge_dec(p256(s))) & 1; }
void ied_scalarmult_bytes(uint8_t out[32], const uint8_t t[32], const uint8_t p_enc[32]) { u256(out, __CPROVER_uninterpreted_ge_enc(__CPROVER_uninterpreted_ge_mult(p256(t), __CPROVER_uninterpreted_ge_dec(p256(p_enc))))); }
void
ied_addsub_bytes(uint8_t out[32], const uint8_t p_enc[32], const uint8_t q_enc[32], int sub)
{
    e256_t P = __CPROVER_uninterpreted_ge_dec(p256(p_enc)), Q = __CPROVER_uninterpreted_ge_dec(p256(q_enc));
    u256(out, __CPROVER_uninterpreted_ge_enc(sub ? __CPROVER_uninterpreted_ge_sub(P, Q) : __CPROVER_uninterpreted_ge_add(P, Q)));
}
void ied_sc_mul(uint8_t s[32], const uint8_t a[32], const uint8_t b[32]) { u256(s, __CPROVER_uninterpreted_sc_mul(p256(a), p256(b))); }
void ied_sc_invert(uint8_t s[32], const uint8_t a[32]) { u256(s, __CPROVER_uninterpreted_sc_invert(p256(a))); }
void ied_from_uniform(uint8_t s[32], const uint8_t r[32]) { u256(s, __CPROVER_uninterpreted_from_uniform(p256(r))); }
void ied_from_hash(uint8_t s[32], const uint8_t h[64]) { u256(s, __CPROVER_uninterpreted_from_hash(p512(h))); }

/* ---- the ed25519_ref10 API as seen by the drivers ---- */
void
sc25519_reduce(unsigned char s[64])
{
    e256_t r = __CPROVER_uninterpreted_sc_reduce(p512(s));
    u256(s, r);
    memset(s + 32, 0, 32);
}
void sc25519_muladd(unsigned char s[32], const unsigned char a[32], const unsigned char b[32], const unsigned char c[32]) { u256(s, __CPROVER_uninterpreted_sc_muladd(p256(a), p256(b), p256(c))); }
void sc25519_mul(unsigned char s[32], const unsigned char a[32], const unsigned char b[32]) { u256(s, __CPROVER_uninterpreted_sc_mul(p256(a), p256(b))); }
void sc25519_invert(unsigned char recip[32], const unsigned char s[32]) { u256(recip, __CPROVER_uninterpreted_sc_invert(p256(s))); }
int  sc25519_is_canonical(const unsigned char s[32]) { return __CPROVER_uninterpreted_sc_is_canonical(p256(s)) & 1; }
void ge25519_scalarmult_base(ge25519_p3 *h, const unsigned char *a) { setpid(h, __CPROVER_uninterpreted_ge_base(p256(a))); }
void ge25519_scalarmult(ge25519_p3 *h, const unsigned char *a, const ge25519_p3 *p) { setpid(h, __CPROVER_uninterpreted_ge_mult(p256(a), pid(p))); }
void ge25519_p3_tobytes(unsigned char *s, const ge25519_p3 *h) { u256(s, __CPROVER_uninterpreted_ge_enc(pid(h))); }
void ge25519_tobytes(unsigned char *s, const ge25519_p2 *h) { u256(s, __CPROVER_uninterpreted_ge_enc(pid(h))); }
int
ge25519_frombytes(ge25519_p3 *h, const unsigned char *s)
{
    setpid(h, __CPROVER_uninterpreted_ge_dec(p256(s)));
    return (__CPROVER_uninterpreted_ge_dec_ok(p256(s)) & 1) ? 0 : -1;
}
int
ge25519_frombytes_negate_vartime(ge25519_p3 *h, const unsigned char *s)
{
    setpid(h, __CPROVER_uninterpreted_ge_dec_neg(p256(s)));
    return (__CPROVER_uninterpreted_ge_dec_neg_ok(p256(s)) & 1) ? 0 : -1;
}
int  ge25519_is_canonical(const unsigned char *s) { return __CPROVER_uninterpreted_ge_enc_canonical(p256(s)) & 1; }
int  ge25519_has_small_order(const ge25519_p3 *p) { return __CPROVER_uninterpreted_ge_small(pid(p)) & 1; }
int  ge25519_is_on_curve(const ge25519_p3 *p) { return __CPROVER_uninterpreted_ge_on_curve(pid(p)) & 1; }
int  ge25519_is_on_main_subgroup(const ge25519_p3 *p) { return __CPROVER_uninterpreted_ge_main_subgroup(pid(p)) & 1; }
void ge25519_double_scalarmult_vartime(ge25519_p2 *r, const unsigned char *a, const ge25519_p3 *A, const unsigned char *b) { setpid(r, __CPROVER_uninterpreted_ge_dsm(p256(a), pid(A), p256(b))); }
void ge25519_p2_to_p3(ge25519_p3 *r, const ge25519_p2 *p) { setpid(r, pid(p)); }
void ge25519_p3_add(ge25519_p3 *r, const ge25519_p3 *p, const ge25519_p3 *q) { setpid(r, __CPROVER_uninterpreted_ge_add(pid(p), pid(q))); }
void ge25519_p3_sub(ge25519_p3 *r, const ge25519_p3 *p, const ge25519_p3 *q) { setpid(r, __CPROVER_uninterpreted_ge_sub(pid(p), pid(q))); }
void ge25519_clear_cofactor(ge25519_p3 *p3) { setpid(p3, __CPROVER_uninterpreted_ge_clear_cofactor(pid(p3))); }
void ge25519_from_uniform(unsigned char s[32], const unsigned char r[32]) { u256(s, __CPROVER_uninterpreted_from_uniform(p256(r))); }
void ge25519_from_hash(unsigned char s[32], const unsigned char h[64]) { u256(s, __CPROVER_uninterpreted_from_hash(p512(h))); }
#else
/* ---------------- native replay: the real arithmetic ---------------- */
void ied_sc_reduce(uint8_t out[32], const uint8_t in[64]) { uint8_t t[64]; memcpy(t, in, 64); sc25519_reduce(t); memcpy(out, t, 32); }
void ied_sc_muladd(uint8_t s[32], const uint8_t a[32], const uint8_t b[32], const uint8_t c[32]) { sc25519_muladd(s, a, b, c); }
int  ied_sc_is_canonical(const uint8_t s[32]) { return sc25519_is_canonical(s); }
void ied_base_mult_bytes(uint8_t out[32], const uint8_t a[32]) { ge25519_p3 P; ge25519_scalarmult_base(&P, a); ge25519_p3_tobytes(out, &P); }
int  ied_ge_is_canonical(const uint8_t s[32]) { return ge25519_is_canonical(s); }
int  ied_decode_ok(const uint8_t s[32]) { ge25519_p3 P; return ge25519_frombytes(&P, s) == 0; }
int  ied_decode_neg_ok(const uint8_t s[32]) { ge25519_p3 P; return ge25519_frombytes_negate_vartime(&P, s) == 0; }
int
ied_small_order_enc(const uint8_t s[32], int negated)
{
    ge25519_p3 P;
    if (negated) ge25519_frombytes_negate_vartime(&P, s); else ge25519_frombytes(&P, s);
    return ge25519_has_small_order(&P);
}
int  ied_on_curve_enc(const uint8_t s[32]) { ge25519_p3 P; ge25519_frombytes(&P, s); return ge25519_is_on_curve(&P); }
int  ied_main_subgroup_enc(const uint8_t s[32]) { ge25519_p3 P; ge25519_frombytes(&P, s); return ge25519_is_on_main_subgroup(&P); }
void ied_scalarmult_bytes(uint8_t out[32], const uint8_t t[32], const uint8_t p_enc[32]) { ge25519_p3 P, Q; ge25519_frombytes(&P, p_enc); ge25519_scalarmult(&Q, t, &P); ge25519_p3_tobytes(out, &Q); }
void
ied_addsub_bytes(uint8_t out[32], const uint8_t p_enc[32], const uint8_t q_enc[32], int sub)
{
    ge25519_p3 P, Q, R;
    ge25519_frombytes(&P, p_enc); ge25519_frombytes(&Q, q_enc);
    if (sub) ge25519_p3_sub(&R, &P, &Q); else ge25519_p3_add(&R, &P, &Q);
    ge25519_p3_tobytes(out, &R);
}
void ied_sc_mul(uint8_t s[32], const uint8_t a[32], const uint8_t b[32]) { sc25519_mul(s, a, b); }
void ied_sc_invert(uint8_t s[32], const uint8_t a[32]) { sc25519_invert(s, a); }
void ied_from_uniform(uint8_t s[32], const uint8_t r[32]) { ge25519_from_uniform(s, r); }
void ied_from_hash(uint8_t s[32], const uint8_t h[64]) { ge25519_from_hash(s, h); }
int
ied_check_small(const uint8_t r[32], const uint8_t h[32], const uint8_t pk[32], const uint8_t S[32])
{
    ge25519_p3 R, A, P3, C;
    ge25519_p2 P2;
    ge25519_frombytes(&R, r);
    ge25519_frombytes_negate_vartime(&A, pk);
    ge25519_double_scalarmult_vartime(&P2, h, &A, S);
    ge25519_p2_to_p3(&P3, &P2);
    ge25519_p3_sub(&C, &R, &P3);
    return ge25519_has_small_order(&C);
}
#endif

#ifndef REPLAY
/* ---- Ristretto255 encoding layer (abstract): decode / validity / encode / hash-to-group ---- */
e256_t        __CPROVER_uninterpreted_ris_dec(e256_t s);
unsigned char __CPROVER_uninterpreted_ris_dec_ok(e256_t s);
e256_t        __CPROVER_uninterpreted_ris_enc(e256_t p);
e256_t        __CPROVER_uninterpreted_ris_from_hash(e512_t h);

int
ristretto255_frombytes(ge25519_p3 *h, const unsigned char *s)
{
    setpid(h, __CPROVER_uninterpreted_ris_dec(p256(s)));
    return (__CPROVER_uninterpreted_ris_dec_ok(p256(s)) & 1) ? 0 : -1;
}
void ristretto255_p3_tobytes(unsigned char *s, const ge25519_p3 *h) { u256(s, __CPROVER_uninterpreted_ris_enc(pid(h))); }
void ristretto255_from_hash(unsigned char s[32], const unsigned char h[64]) { u256(s, __CPROVER_uninterpreted_ris_from_hash(p512(h))); }

int  ied_ris_decode_ok(const uint8_t s[32]) { return __CPROVER_uninterpreted_ris_dec_ok(p256(s)) & 1; }
void
ied_ris_addsub_bytes(uint8_t out[32], const uint8_t p_enc[32], const uint8_t q_enc[32], int sub)
{
    e256_t P = __CPROVER_uninterpreted_ris_dec(p256(p_enc)), Q = __CPROVER_uninterpreted_ris_dec(p256(q_enc));
    u256(out, __CPROVER_uninterpreted_ris_enc(sub ? __CPROVER_uninterpreted_ge_sub(P, Q) : __CPROVER_uninterpreted_ge_add(P, Q)));
}
void ied_ris_scalarmult_bytes(uint8_t out[32], const uint8_t t[32], const uint8_t p_enc[32]) { u256(out, __CPROVER_uninterpreted_ris_enc(__CPROVER_uninterpreted_ge_mult(p256(t), __CPROVER_uninterpreted_ris_dec(p256(p_enc))))); }
void ied_ris_base_mult_bytes(uint8_t out[32], const uint8_t t[32]) { u256(out, __CPROVER_uninterpreted_ris_enc(__CPROVER_uninterpreted_ge_base(p256(t)))); }
void ied_ris_from_hash(uint8_t s[32], const uint8_t h[64]) { u256(s, __CPROVER_uninterpreted_ris_from_hash(p512(h))); }
#else
int  ied_ris_decode_ok(const uint8_t s[32]) { ge25519_p3 P; return ristretto255_frombytes(&P, s) == 0; }
void
ied_ris_addsub_bytes(uint8_t out[32], const uint8_t p_enc[32], const uint8_t q_enc[32], int sub)
{
    ge25519_p3 P, Q, R;
    ristretto255_frombytes(&P, p_enc); ristretto255_frombytes(&Q, q_enc);
    if (sub) ge25519_p3_sub(&R, &P, &Q); else ge25519_p3_add(&R, &P, &Q);
    ristretto255_p3_tobytes(out, &R);
}
void ied_ris_scalarmult_bytes(uint8_t out[32], const uint8_t t[32], const uint8_t p_enc[32]) { ge25519_p3 P, Q; ristretto255_frombytes(&P, p_enc); ge25519_scalarmult(&Q, t, &P); ristretto255_p3_tobytes(out, &Q); }
void ied_ris_base_mult_bytes(uint8_t out[32], const uint8_t t[32]) { ge25519_p3 Q; ge25519_scalarmult_base(&Q, t); ristretto255_p3_tobytes(out, &Q); }
void ied_ris_from_hash(uint8_t s[32], const uint8_t h[64]) { ristretto255_from_hash(s, h); }
#endif
