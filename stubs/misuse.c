/* sodium_misuse() model: the harness announces whether a misuse abort is the
 * specified behaviour for the call it is about to make. */
#include "verif.h"
#include "misuse.h"

int verif_misuse_expected;

void
sodium_misuse(void)
{
    CHECK(verif_misuse_expected, "sodium_misuse() reached although the call is within contract");
    WITNESS(); /* reaching a specified misuse abort is a reachability witness too */
#ifdef REPLAY
    printf("REPLAY-MISUSE-AS-SPECIFIED\n");
    exit(0);
#else
    __CPROVER_assume(0);
#endif
}
