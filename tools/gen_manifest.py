#!/usr/bin/env python3
"""regenerate /verif/MANIFEST.json from the obligation registry"""
import importlib, json, os, sys
VERIF = os.path.dirname(os.path.dirname(os.path.abspath(__file__)))
sys.path.insert(0, os.path.join(VERIF, "lib")); sys.path.insert(0, VERIF)
props = [json.loads(l) for l in open(os.path.join(VERIF, "properties.jsonl"))]
NA_REASONS = {}
na_file = os.path.join(VERIF, "config", "not_applicable.json")
if os.path.exists(na_file):
    NA_REASONS = json.load(open(na_file))
checks, na = [], []
for p in props:
    pid = p["id"]
    path = os.path.join(VERIF, "obligations", pid + ".py")
    if not os.path.exists(path) or pid in NA_REASONS:
        na.append({"property_id": pid, "reason": NA_REASONS.get(pid, "no obligation registered yet (work in progress)")})
        continue
    mod = importlib.import_module("obligations." + pid)
    checks.append({
        "property_id": pid,
        "quick_cmd": "bin/check %s --tier quick" % pid,
        "thorough_cmd": "bin/check %s --tier thorough" % pid,
        "evidence_file": "evidence/%s.json" % pid,
        "replay_cmd_template": "bin/check %s --replay {path}" % pid,
        "engine": getattr(mod, "ENGINE", "cbmc-harness"),
        "technique": getattr(mod, "TECHNIQUE", "bounded symbolic execution of the real C translation units with CBMC 6.11 (SAT/SMT back end decides each obligation for all symbolic inputs); counterexamples replayed natively"),
        "level_claimed": {"category": "model_checking", "text": getattr(mod, "LEVEL_TEXT", ""), "design_ref": "DESIGN.md section 3, " + pid},
        "level_note": "; ".join(list(getattr(mod, "TRUSTED", [])) + ["assumes: " + a for a in getattr(mod, "ASSUMPTIONS", [])] + ["outside the claim: " + o for o in getattr(mod, "OUTSIDE", [])]),
    })
man = {
    "version": 1,
    "setup_cmd": "bin/setup",
    "hooks": {"guard": "SODIUM_VERIF", "enable": "no source hooks are used: checks compile /repo's unmodified translation units with goto-cc / clang and cut at function boundaries by linking stubs or goto-instrument --replace-calls",
              "baseline_off_cmd": "cd /repo && make -j8 check", "source_commits": [], "add_only": True},
    "engines": [
        {"name": "cbmc-harness", "path": "lib/vlib.py", "serves_properties": [c["property_id"] for c in checks if c["engine"] == "cbmc-harness"],
         "kind_free_text": "CBMC bounded model checking of real translation units (goto-cc), idealised primitive stubs, asm2c for inline assembly, native replay of counterexamples"},
        {"name": "irsym", "path": "irsym/", "serves_properties": [c["property_id"] for c in checks if "irsym" in c["engine"]],
         "kind_free_text": "own symbolic interpreter for clang-14 LLVM IR over a bit-level AIG with SAT back end (equivalence / non-interference)"},
    ],
    "checks": checks,
    "not_applicable": na,
    "notes": "All checks rebuild their encodings from /repo's current working tree on every run. Exit codes: 0 ok, 1 VIOLATION (replayed), 2 INCONCLUSIVE (never reported as success). Known findings (genuine defects recorded, not repaired because the unedited test suite pins the defective behaviour) and fixed defects: known_findings.json (committed, never written at run time); a listed finding prints 'KNOWN-FINDING: property=<id> ...' and does not affect the exit status, any other violation does.",
}
json.dump(man, open(os.path.join(VERIF, "MANIFEST.json"), "w"), indent=1)
print("checks:", [c["property_id"] for c in checks], "na:", [n["property_id"] for n in na])
