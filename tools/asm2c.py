#!/usr/bin/env python3
"""asm2c: rewrite GNU extended-asm statements in a *preprocessed* C file into
plain C with explicit carry/zero flags, so that CBMC (which silently treats
unknown inline assembly as a no-op) sees the real semantics.

Only the instructions libsodium uses in C files are in the table; anything
else raises Asm2CError -> the obligation is INCONCLUSIVE, never silently
skipped.

usage: asm2c.py in.i out.i     (prints the number of statements rewritten)
"""
import re
import sys


class Asm2CError(Exception):
    pass


PRELUDE = r'''
typedef unsigned long long __a2c_u64;
typedef unsigned __int128 __a2c_u128;
static inline __a2c_u64 __a2c_ld(const void *p_, int w_) {
    const unsigned char *p = (const unsigned char *) p_; __a2c_u64 v = 0; int i;
    for (i = 0; i < w_ / 8; i++) { v |= ((__a2c_u64) p[i]) << (8 * i); }
    return v;
}
static inline void __a2c_st(void *p_, int w_, __a2c_u64 v) {
    unsigned char *p = (unsigned char *) p_; int i;
    for (i = 0; i < w_ / 8; i++) { p[i] = (unsigned char) (v >> (8 * i)); }
}
void __verif_cpuid(unsigned int leaf, unsigned int subleaf, unsigned int *a,
                   unsigned int *b, unsigned int *c, unsigned int *d);
unsigned int __verif_xgetbv(unsigned int idx);
'''


def find_matching(s, i):
    """s[i] == '(' -> index of matching ')', skipping string/char literals."""
    depth = 0
    n = len(s)
    while i < n:
        c = s[i]
        if c == '"':
            i += 1
            while s[i] != '"':
                if s[i] == '\\':
                    i += 1
                i += 1
        elif c == "'":
            i += 1
            while s[i] != "'":
                if s[i] == '\\':
                    i += 1
                i += 1
        elif c == '(':
            depth += 1
        elif c == ')':
            depth -= 1
            if depth == 0:
                return i
        i += 1
    raise Asm2CError("unbalanced parentheses in asm statement")


def split_top(s, sep):
    """split s at top-level separator characters (outside (), [], strings)."""
    out, cur, depth, i, n = [], [], 0, 0, len(s)
    while i < n:
        c = s[i]
        if c == '"':
            j = i + 1
            while s[j] != '"':
                if s[j] == '\\':
                    j += 1
                j += 1
            cur.append(s[i:j + 1])
            i = j + 1
            continue
        if c in '([':
            depth += 1
        elif c in ')]':
            depth -= 1
        if c == sep and depth == 0:
            out.append(''.join(cur))
            cur = []
        else:
            cur.append(c)
        i += 1
    out.append(''.join(cur))
    return out


def parse_strings(s):
    """concatenate adjacent C string literals in s -> python str"""
    res = []
    for m in re.finditer(r'"((?:[^"\\]|\\.)*)"', s):
        lit = m.group(1)
        lit = lit.replace('\\n', '\n').replace('\\t', '\t').replace('\\"', '"')
        res.append(lit)
    rest = re.sub(r'"((?:[^"\\]|\\.)*)"', '', s).strip()
    if rest:
        raise Asm2CError("unexpected tokens in asm template: %r" % rest)
    return ''.join(res)


def parse_operands(s):
    """'[name] "cons"(expr), ...' -> list of (name|None, constraint, expr)"""
    s = s.strip()
    if not s:
        return []
    ops = []
    for part in split_top(s, ','):
        part = part.strip()
        m = re.match(r'^(?:\[\s*(\w+)\s*\]\s*)?"([^"]*)"\s*\((.*)\)\s*$', part, re.S)
        if not m:
            raise Asm2CError("cannot parse asm operand %r" % part)
        ops.append((m.group(1), m.group(2), m.group(3).strip()))
    return ops


class Ctx:
    def __init__(self, outs, ins):
        self.ops = outs + ins
        self.nout = len(outs)
        self.names = {}
        for i, (nm, _, _) in enumerate(self.ops):
            if nm:
                self.names[nm] = i

    def var(self, i):
        # matching constraint ("0") on an input: shares the output's variable
        if i >= self.nout:
            cons = self.ops[i][1]
            if cons.isdigit():
                return "__a2c_r%d" % int(cons)
        return "__a2c_r%d" % i


WIDTH = {'q': 64, 'l': 32, 'w': 16, 'b': 8}


def operand(ctx, tok, width):
    """returns (kind, read_expr, write_fmt) ; write_fmt % value -> statement"""
    tok = tok.strip()
    T = "__a2c_u64"
    mask = (1 << width) - 1
    m = re.match(r'^\$(-?(?:0x[0-9a-fA-F]+|\d+))$', tok)
    if m:
        return ('imm', "((%s) %sULL)" % (T, hex(int(m.group(1), 0) & mask)), None)
    m = re.match(r'^(-?\d+)?\(\s*%(?:\[(\w+)\]|[a-z]?(\d+))\s*\)$', tok)
    if m:
        disp = int(m.group(1) or 0)
        idx = ctx.names[m.group(2)] if m.group(2) else int(m.group(3))
        addr = "((unsigned char *) %s + (%d))" % (ctx.var(idx), disp)
        return ('mem', "__a2c_ld(%s, %d)" % (addr, width),
                "__a2c_st(%s, %d, %%s);" % (addr, width))
    m = re.match(r'^%(?:\[(\w+)\]|([bwkq])?(\d+))$', tok)
    if m:
        idx = ctx.names[m.group(1)] if m.group(1) else int(m.group(3))
        v = ctx.var(idx)
        rd = "(((%s) %s) & %sULL)" % (T, v, hex(mask))
        if width in (8, 16):
            wr = ("%s = (__typeof__(%s)) ((((%s) %s) & ~%sULL) | ((%%s) & %sULL));"
                  % (v, v, T, v, hex(mask), hex(mask)))
        else:
            wr = "%s = (__typeof__(%s)) ((%%s) & %sULL);" % (v, v, hex(mask))
        return ('reg', rd, wr)
    raise Asm2CError("unsupported asm operand %r" % tok)


def translate_insn(ctx, line):
    line = line.strip()
    if not line:
        return ""
    m = re.match(r'^(\w+)\s*(.*)$', line)
    mn, rest = m.group(1), m.group(2).strip()
    args = [a for a in split_top(rest, ',')] if rest else []
    CF, ZF, T, W = "__a2c_cf", "__a2c_zf", "__a2c_u64", "__a2c_u128"

    if mn == 'stc' and not args:
        return "%s = 1;" % CF
    if mn == 'pause' and not args:
        return ";"

    base = None
    width = None
    for b in ('cmove', 'xor', 'mov', 'add', 'adc', 'sub', 'sbb', 'inc', 'test',
              'cmp', 'shr'):
        if mn == b:
            base, width = b, None
        elif mn.startswith(b) and len(mn) == len(b) + 1 and mn[-1] in WIDTH:
            base, width = b, WIDTH[mn[-1]]
        if base:
            break
    if base is None:
        raise Asm2CError("instruction %r is not in the asm2c table" % mn)
    if width is None:
        width = 64  # only 'test' appears without suffix (register operands)
    mask = "%sULL" % hex((1 << width) - 1)

    def op(t):
        return operand(ctx, t, width)

    if base == 'inc':
        (_, rd, wr), = [op(args[0])]
        return ("{ %s r_ = (%s + 1) & %s; %s = (r_ == 0); %s }"
                % (T, rd, mask, ZF, wr % "r_"))
    if len(args) != 2:
        raise Asm2CError("unexpected operand count in %r" % line)
    _, srd, _ = op(args[0])
    dk, drd, dwr = op(args[1])
    if base == 'mov':
        return "{ %s s_ = %s; %s }" % (T, srd, dwr % "s_")
    if base == 'xor':
        return ("{ %s r_ = (%s ^ %s) & %s; %s = 0; %s = (r_ == 0); %s }"
                % (T, drd, srd, mask, CF, ZF, dwr % "r_"))
    if base in ('add', 'adc'):
        cin = CF if base == 'adc' else "0"
        return ("{ %s w_ = (%s) %s + (%s) %s + (%s) (%s); %s r_ = (%s) (w_ & %s); "
                "%s = (unsigned) ((w_ >> %d) & 1); %s = (r_ == 0); %s }"
                % (W, W, drd, W, srd, W, cin, T, T, mask, CF, width, ZF, dwr % "r_"))
    if base in ('sub', 'sbb'):
        cin = CF if base == 'sbb' else "0"
        return ("{ %s d_ = %s, s_ = %s; %s c_ = (%s) (%s); "
                "%s r_ = (d_ - s_ - c_) & %s; "
                "%s = ((%s) d_ < (%s) s_ + (%s) c_); %s = (r_ == 0); %s }"
                % (T, drd, srd, T, T, cin, T, mask, CF, W, W, W, ZF, dwr % "r_"))
    if base == 'test':
        return "{ %s = ((%s & %s) == 0); %s = 0; }" % (ZF, drd, srd, CF)
    if base == 'cmp':
        return ("{ %s d_ = %s, s_ = %s; %s = (d_ == s_); %s = (d_ < s_); }"
                % (T, drd, srd, ZF, CF))
    if base == 'cmove':
        return "{ %s s_ = %s; %s d_ = %s; %s r_ = %s ? s_ : d_; %s }" % (
            T, srd, T, drd, T, ZF, dwr % "r_")
    if base == 'shr':
        if not args[0].strip().startswith('$'):
            raise Asm2CError("shr with non-immediate count")
        return ("{ %s d_ = %s; %s n_ = %s; %s = (unsigned) ((d_ >> (n_ - 1)) & 1); "
                "%s r_ = (d_ >> n_) & %s; %s = (r_ == 0); %s }"
                % (T, drd, T, srd, CF, T, mask, ZF, dwr % "r_"))
    raise Asm2CError("unhandled %r" % line)


def translate_stmt(body):
    """body: text between the outer parentheses of the asm statement."""
    parts = split_top(body, ':')
    template = parse_strings(parts[0])
    outs = parse_operands(parts[1]) if len(parts) > 1 else []
    ins = parse_operands(parts[2]) if len(parts) > 2 else []
    ctx = Ctx(outs, ins)
    decl, post = [], []
    for i, (nm, cons, expr) in enumerate(outs):
        v = "__a2c_r%d" % i
        if cons.startswith('+'):
            decl.append("__typeof__(%s) %s = (%s);" % (expr, v, expr))
        elif cons.startswith('='):
            decl.append("__typeof__(%s) %s;" % (expr, v))
        else:
            raise Asm2CError("output constraint %r" % cons)
        post.append("(%s) = %s;" % (expr, v))
    for j, (nm, cons, expr) in enumerate(ins):
        i = len(outs) + j
        if cons.isdigit():
            k = int(cons)
            decl.append("__a2c_r%d = (__typeof__(__a2c_r%d)) (%s);" % (k, k, expr))
        else:
            decl.append("__typeof__((%s) + 0) __a2c_r%d = (%s);" % (expr, i, expr))

    t = template.strip()
    if t == "":
        code = []  # optimisation barrier: identity on "+r" operands
    elif 'cpuid' in t:
        # outputs: a, b(any reg), c, d ; inputs: "0"(leaf), "2"(subleaf)
        if len(outs) != 4 or len(ins) != 2:
            raise Asm2CError("unexpected cpuid operand shape")
        code = ["{ unsigned int a_, b_, c_, d_; "
                "__verif_cpuid((unsigned int) __a2c_r0, (unsigned int) __a2c_r2, "
                "&a_, &b_, &c_, &d_); __a2c_r0 = a_; __a2c_r1 = b_; __a2c_r2 = c_; "
                "__a2c_r3 = d_; }"]
    elif re.match(r'^\.byte\s+0x0f\s*,\s*0x01\s*,\s*0xd0$', t):
        if len(outs) != 1 or len(ins) != 1:
            raise Asm2CError("unexpected xgetbv operand shape")
        code = ["__a2c_r0 = __verif_xgetbv((unsigned int) __a2c_r1);"]
    else:
        code = []
        for line in re.split(r'[\n;]', t):
            code.append(translate_insn(ctx, line))
    return ("{ unsigned __a2c_cf = 0, __a2c_zf = 0; (void) __a2c_cf; (void) __a2c_zf; "
            + ' '.join(decl) + ' ' + ' '.join(c for c in code if c) + ' '
            + ' '.join(post) + " }")


ASM_RE = re.compile(r'\b(__asm__|__asm|asm)\b\s*(__volatile__|volatile)?\s*\(')


def rewrite(text, strict=True):
    """strict=False: statements with instructions outside the table are left untouched (IR route: clang keeps
    them as inline-asm calls and the interpreter refuses to execute them)"""
    out = []
    pos = 0
    count = 0
    while True:
        m = ASM_RE.search(text, pos)
        if not m:
            out.append(text[pos:])
            break
        lp = m.end() - 1
        rp = find_matching(text, lp)
        body = text[lp + 1:rp]
        is_stmt = bool(m.group(2)) or len(split_top(body, ':')) > 1
        if not is_stmt:
            # asm label on a declaration: keep
            out.append(text[pos:rp + 1])
            pos = rp + 1
            continue
        # statement: swallow the trailing ';'
        end = rp + 1
        k = end
        while k < len(text) and text[k] in ' \t\r\n':
            k += 1
        if k < len(text) and text[k] == ';':
            end = k + 1
        orig = text[m.start():end]
        try:
            repl = translate_stmt(body)
        except Asm2CError:
            if strict:
                raise
            out.append(text[pos:end])
            pos = end
            continue
        repl = repl.replace('\n', ' ') + '\n' * orig.count('\n')
        out.append(text[pos:m.start()])
        out.append(repl)
        pos = end
        count += 1
    res = ''.join(out)
    if count:
        res = PRELUDE + res
    return res, count


def main():
    src, dst = sys.argv[1], sys.argv[2]
    with open(src) as f:
        text = f.read()
    try:
        res, n = rewrite(text)
    except Asm2CError as e:
        sys.stderr.write("asm2c: %s: %s\n" % (src, e))
        sys.exit(2)
    with open(dst, 'w') as f:
        f.write(res)
    print(n)


if __name__ == '__main__':
    main()
