#!/bin/sh
# usage: tools/eval_seed.sh <ID> [check-args...]   (ID like C03; files /tmp/seed/<ID>.{patch.diff,demo.c,meta.json})
# confirms the seeded change independently, then runs the property's check on a scratch worktree with the patch
ID=$1; shift
S=/tmp/seed
WT=/tmp/wt
set -u
echo "== $ID: patch applies to a clean worktree at /repo HEAD?"
git -C $WT checkout -q -- . && git -C $WT checkout -q --detach "$(git -C /repo rev-parse HEAD)" || exit 9
git -C $WT apply $S/$ID.patch.diff && echo "applied" || { echo "PATCH DOES NOT APPLY"; exit 9; }
echo "== demo on unmodified /repo build (expect exit 0)"
CC="gcc -O1 -w"
EXTRA=$(grep -o 'Wl,--wrap=[a-z_]*' $S/$ID.demo.c | sort -u | sed 's/^/-/' | tr '\n' ' ')
$CC -I/repo/src/libsodium/include $S/$ID.demo.c /repo/src/libsodium/.libs/libsodium.a -lpthread $EXTRA -o $S/$ID.demo.clean 2>&1 | tail -3
$S/$ID.demo.clean > $S/$ID.demo.clean.out 2>&1; echo "clean exit=$?"
echo "== demo on the patched build in $S/$ID (expect non-zero)"
(cd $S/$ID && make -j8 >/dev/null 2>&1)
$CC -I$S/$ID/src/libsodium/include $S/$ID.demo.c $S/$ID/src/libsodium/.libs/libsodium.a -lpthread $EXTRA -o $S/$ID.demo.patched 2>&1 | tail -3
$S/$ID.demo.patched > $S/$ID.demo.patched.out 2>&1; echo "patched exit=$?"; tail -2 $S/$ID.demo.patched.out | cut -c1-200
echo "== test suite on the patched build"
(cd $S/$ID && make -j8 check > $S/$ID.check.log 2>&1; grep -E "^# (TOTAL|PASS|FAIL|ERROR)" $S/$ID.check.log | tr '\n' ' '); echo
echo "== my check on the patched worktree"
cd /verif && VERIF_REPO=$WT timeout 3000 bin/check $ID "$@" 2>&1 | grep -v "^  replay" | tail -6 | cut -c1-400
git -C $WT checkout -q -- .
