#!/bin/sh
# usage: tools/eval_seed2.sh <PROP> [check-args...]   (files /tmp/seed2/<PROP>.{patch.diff,demo.c,meta.json}, built tree /tmp/seed2/<PROP>)
# confirms the seeded change independently (patch applies to /repo HEAD, demo passes on the clean build and fails on the
# patched one), then runs the property's check with VERIF_REPO pointing at a scratch worktree carrying the patch.
ID=$1; shift
S=/tmp/seed2
WT=/tmp/wt
echo "== $ID: patch applies to a clean worktree at /repo HEAD?"
git -C $WT checkout -q -- . && git -C $WT checkout -q --detach "$(git -C /repo rev-parse HEAD)" || exit 9
git -C $WT apply $S/$ID.patch.diff && echo "applied" || { echo "PATCH DOES NOT APPLY"; exit 9; }
CC="gcc -O1 -w"
EXTRA=$(grep -o 'Wl,--wrap=[a-z_]*' $S/$ID.demo.c | sort -u | sed 's/^/-/' | tr '\n' ' ')
$CC -I/repo/src/libsodium/include $S/$ID.demo.c /repo/src/libsodium/.libs/libsodium.a -lpthread $EXTRA -o $S/$ID.demo.clean 2>&1 | tail -3
$S/$ID.demo.clean > $S/$ID.demo.clean.out 2>&1; echo "demo on clean build: exit=$?"
$CC -I$S/$ID/src/libsodium/include $S/$ID.demo.c $S/$ID/src/libsodium/.libs/libsodium.a -lpthread $EXTRA -o $S/$ID.demo.patched 2>&1 | tail -3
$S/$ID.demo.patched > $S/$ID.demo.patched.out 2>&1; echo "demo on patched build: exit=$?"; tail -2 $S/$ID.demo.patched.out | cut -c1-200
echo "== check on the patched worktree"
cd /verif && VERIF_REPO=$WT timeout 3000 bin/check $ID "$@" 2>&1 | grep -v "^  replay" | tail -6 | cut -c1-400
git -C $WT checkout -q -- .
