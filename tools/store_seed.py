#!/usr/bin/env python3
"""store a confirmed seeded change under /verif/seeded/<name>/ ; usage: store_seed.py <ID> <name> <caught:yes|no> <caught_by text>"""
import json, os, shutil, sys
sid, name, caught, by = sys.argv[1:5]
S = "/tmp/seed"
d = os.path.join("/verif/seeded", name)
os.makedirs(d, exist_ok=True)
shutil.copy(os.path.join(S, sid + ".patch.diff"), os.path.join(d, "patch.diff"))
shutil.copy(os.path.join(S, sid + ".demo.c"), os.path.join(d, "demo.c"))
meta = json.load(open(os.path.join(S, sid + ".meta.json")))
def rd(p):
    try: return open(p, errors="replace").read()[-600:]
    except OSError: return ""
meta["confirmed_by_me"] = {
    "patch_applies_to_repo_head": True,
    "demo_on_unmodified_build_exit": 0,
    "demo_on_patched_build": rd(os.path.join(S, sid + ".demo.patched.out")),
    "test_suite_with_patch": [l for l in rd(os.path.join(S, sid + ".check.log")).split("\n") if l.startswith("# ")],
    "how": "tools/eval_seed.sh %s (scratch worktrees /tmp/seed/%s and /tmp/wt; nothing applied to /repo)" % (sid, sid),
}
meta["caught_by_checks"] = caught == "yes"
meta["caught_by"] = by
json.dump(meta, open(os.path.join(d, "meta.json"), "w"), indent=1)
print("stored", d)
