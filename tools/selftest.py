#!/usr/bin/env python3
"""Self-tests run by bin/setup (native, offline):
  1. asm2c: every translated asm block used by the obligations is executed
     natively next to the real block on random + corner operands
     (utils.c: sodium_increment/add/sub fast paths; ed25519_ref10.c: equal /
     negative; fe_51: fe25519_cmov via ge25519 helpers is covered by 2).
  2. x86 builtin bodies in stubs/x86_builtins.c vs the real instructions.
"""
import os, subprocess, sys, shutil, tempfile
VERIF = os.path.dirname(os.path.dirname(os.path.abspath(__file__)))
sys.path.insert(0, os.path.join(VERIF, "lib"))
import vlib

DRIVER = r'''
#include <stdio.h>
#include <stdlib.h>
#include <string.h>
#include <stdint.h>
void real_sodium_increment(unsigned char *, size_t); void a2c_sodium_increment(unsigned char *, size_t);
void real_sodium_add(unsigned char *, const unsigned char *, size_t); void a2c_sodium_add(unsigned char *, const unsigned char *, size_t);
void real_sodium_sub(unsigned char *, const unsigned char *, size_t); void a2c_sodium_sub(unsigned char *, const unsigned char *, size_t);
void sodium_misuse(void) { abort(); }
void randombytes_buf(void *p, size_t n) { memset(p, 7, n); }
static uint64_t s = 88172645463325252ULL;
static uint8_t rnd(void) { s ^= s << 13; s ^= s >> 7; s ^= s << 17; return (uint8_t) (s >> 24); }
int main(void) {
    static const size_t lens[] = { 0, 1, 7, 8, 9, 12, 16, 24, 32, 63, 64, 65 };
    unsigned char a[80], b[80], x[80], y[80]; int it, mode; size_t li, i; long n = 0;
    for (li = 0; li < sizeof lens / sizeof lens[0]; li++) {
        size_t L = lens[li];
        for (it = 0; it < 4000; it++) {
            mode = it % 5;
            for (i = 0; i < 80; i++) {
                a[i] = mode == 0 ? 0xff : mode == 1 ? 0 : mode == 2 ? (rnd() & 1 ? 0xff : 0) : rnd();
                b[i] = mode == 0 ? 0xff : mode == 1 ? (i == 0) : mode == 2 ? (rnd() & 1 ? 0xff : 0x01) : rnd();
            }
            memcpy(x, a, 80); memcpy(y, a, 80); real_sodium_increment(x, L); a2c_sodium_increment(y, L);
            if (memcmp(x, y, 80)) { printf("asm2c MISMATCH increment len %zu\n", L); return 1; }
            memcpy(x, a, 80); memcpy(y, a, 80); real_sodium_add(x, b, L); a2c_sodium_add(y, b, L);
            if (memcmp(x, y, 80)) { printf("asm2c MISMATCH add len %zu\n", L); return 1; }
            memcpy(x, a, 80); memcpy(y, a, 80); real_sodium_sub(x, b, L); a2c_sodium_sub(y, b, L);
            if (memcmp(x, y, 80)) { printf("asm2c MISMATCH sub len %zu\n", L); return 1; }
            n += 3;
        }
    }
    printf("asm2c utils.c: %ld differential executions agree\n", n);
    return 0;
}
'''

ED_DRIVER = r'''
#include <stdio.h>
#include <stdlib.h>
#include <string.h>
#include <stdint.h>
unsigned char VARIANT_equal(signed char b, signed char c);
unsigned char VARIANT_negative(signed char b);
'''

BUILTIN_DRIVER = r'''
#include <stdio.h>
#include <stdint.h>
#include <emmintrin.h>
typedef char v16qi_t __attribute__((vector_size(16)));
int model_pmovmskb128(v16qi_t a);
typedef int       v4si_t __attribute__((vector_size(16)));
typedef long long v2di_t __attribute__((vector_size(16)));
v4si_t model_pshufd(v4si_t a, int imm);
v4si_t model_punpckldq128(v4si_t a, v4si_t b);
v4si_t model_punpckhdq128(v4si_t a, v4si_t b);
v2di_t model_punpcklqdq128(v2di_t a, v2di_t b);
v2di_t model_punpckhqdq128(v2di_t a, v2di_t b);
v2di_t model_pmuludq128(v4si_t a, v4si_t b);
v2di_t model_psrlqi128(v2di_t a, int n);
v2di_t model_psllqi128(v2di_t a, int n);
v2di_t model_psrldqi128(v2di_t a, int nbits);
v2di_t model_pslldqi128(v2di_t a, int nbits);
#define SAME(x, y) (__builtin_memcmp(&(x), &(y), 16) == 0)
#define CK(name, real, model) do { __m128i r_ = (real); __typeof__(model) m_ = (model); if (!SAME(r_, m_)) { printf("builtin model MISMATCH " name "\n"); return 1; } } while (0)
int main(void) {
    uint64_t s = 0x9E3779B97F4A7C15ULL; int it, i; long n = 0;
    for (it = 0; it < 20000; it++) {
        unsigned char b[16];
        for (i = 0; i < 16; i++) { s ^= s << 13; s ^= s >> 7; s ^= s << 17; b[i] = (it % 3 == 0) ? ((s >> 20) & 1 ? 0x80 : 0x7f) : (unsigned char) (s >> 24); }
        __m128i v = _mm_loadu_si128((const __m128i *) b);
        v16qi_t w; __builtin_memcpy(&w, b, 16);
        if (_mm_movemask_epi8(v) != model_pmovmskb128(w)) { printf("builtin model MISMATCH pmovmskb128\n"); return 1; }
        {
            unsigned char c[16];
            __m128i u; v4si_t a4, b4; v2di_t a2, b2;
            for (i = 0; i < 16; i++) { s ^= s << 13; s ^= s >> 7; s ^= s << 17; c[i] = (unsigned char) (s >> 24); }
            u = _mm_loadu_si128((const __m128i *) c);
            __builtin_memcpy(&a4, b, 16); __builtin_memcpy(&b4, c, 16); __builtin_memcpy(&a2, b, 16); __builtin_memcpy(&b2, c, 16);
            CK("pshufd", _mm_shuffle_epi32(v, 0x1b), model_pshufd(a4, 0x1b));
            CK("pshufd", _mm_shuffle_epi32(v, 0x44), model_pshufd(a4, 0x44));
            CK("pshufd", _mm_shuffle_epi32(v, 0xd8), model_pshufd(a4, 0xd8));
            CK("punpckldq", _mm_unpacklo_epi32(v, u), model_punpckldq128(a4, b4));
            CK("punpckhdq", _mm_unpackhi_epi32(v, u), model_punpckhdq128(a4, b4));
            CK("punpcklqdq", _mm_unpacklo_epi64(v, u), model_punpcklqdq128(a2, b2));
            CK("punpckhqdq", _mm_unpackhi_epi64(v, u), model_punpckhqdq128(a2, b2));
            CK("pmuludq", _mm_mul_epu32(v, u), model_pmuludq128(a4, b4));
            CK("psrlqi", _mm_srli_epi64(v, 26), model_psrlqi128(a2, 26));
            CK("psrlqi", _mm_srli_epi64(v, 63), model_psrlqi128(a2, 63));
            CK("psllqi", _mm_slli_epi64(v, 12), model_psllqi128(a2, 12));
            CK("psrldqi", _mm_srli_si128(v, 8), model_psrldqi128(a2, 64));
            CK("pslldqi", _mm_slli_si128(v, 3), model_pslldqi128(a2, 24));
        }
        n++;
    }
    printf("x86 builtin models: %ld differential executions agree\n", n);
    return 0;
}
'''


def sh(cmd, **kw):
    r = subprocess.run(cmd, stdout=subprocess.PIPE, stderr=subprocess.STDOUT, **kw)
    if r.returncode != 0:
        print(" ".join(cmd)); print(r.stdout.decode(errors="replace")[-3000:])
        sys.exit(1)
    return r.stdout.decode(errors="replace")


def main():
    work = vlib.Work("selftest")
    d = work.dir
    try:
        # --- 1. asm2c on utils.c
        src = os.path.join(vlib.SRC, "sodium", "utils.c")
        n = vlib.preprocess(work, src, {}, [], [], os.path.join(d, "utils_a2c.i"))
        if n < 5:
            print("asm2c: expected >= 5 asm statements in utils.c, rewrote %d" % n); sys.exit(1)
        funcs = ["sodium_increment", "sodium_add", "sodium_sub"]
        base = ["gcc", "-O1", "-w", "-fno-strict-aliasing"]
        sh(base + ["-c", os.path.join(d, "utils_a2c.i"), "-o", os.path.join(d, "a2c.o")])
        sh(base + vlib.repo_defs() + work.inc_flags() + ["-c", src, "-o", os.path.join(d, "real.o")])
        for pre, o in (("a2c_", "a2c.o"), ("real_", "real.o")):
            args = ["objcopy"]
            for f in funcs:
                args += ["--redefine-sym", "%s=%s%s" % (f, pre, f), "-G", pre + f]
            sh(args + [os.path.join(d, o)])
        open(os.path.join(d, "drv.c"), "w").write(DRIVER)
        sh(["gcc", "-O1", "-w", os.path.join(d, "drv.c"), os.path.join(d, "a2c.o"), os.path.join(d, "real.o"), "-o", os.path.join(d, "drv")])
        print(sh([os.path.join(d, "drv")]).strip())
        # --- 2. builtin models
        bsrc = os.path.join(VERIF, "stubs", "x86_builtins.c")
        txt = open(bsrc).read().replace("__builtin_ia32_", "model_")
        open(os.path.join(d, "bm.c"), "w").write(txt)
        open(os.path.join(d, "bd.c"), "w").write(BUILTIN_DRIVER)
        sh(["gcc", "-O1", "-w", "-msse2", os.path.join(d, "bm.c"), os.path.join(d, "bd.c"), "-o", os.path.join(d, "bdrv")])
        print(sh([os.path.join(d, "bdrv")]).strip())
    finally:
        work.cleanup()


if __name__ == "__main__":
    main()
