#!/bin/sh
# run every registered quick (or $1=thorough) check sequentially; logs under .runlogs/
cd "$(dirname "$0")/.."
tier=${1:-quick}
mkdir -p .runlogs
for p in $(python3 -c "import json;print(' '.join(c['property_id'] for c in json.load(open('MANIFEST.json'))['checks']))"); do
  /usr/bin/time -f "$p %e s" bin/check $p --tier $tier > .runlogs/$p.$tier.log 2>&1
  echo "$p rc=$? $(tail -1 .runlogs/$p.$tier.log)"
done
