/* C04 (K): SHA256_Transform / SHA512_Transform (real code, included) == FIPS
 * 180-4 compression for ALL chaining values and blocks; LEMMAS: the three
 * algebraic rewrites used in models/sha2_spec.h hold for all operand values. */
#include "verif.h"
#include "sha2_spec.h"
#if ALG == 256
# include "crypto_hash/sha256/cp/hash_sha256_cp.c"
#elif ALG == 512
# include "crypto_hash/sha512/cp/hash_sha512_cp.c"
#endif

struct IN {
    uint64_t h[8];
    uint8_t  block[128];
    uint64_t x, y, z, k, w;
};

VERIF_MAIN
{
    VERIF_INPUT(struct IN, in);
    int i;
#if ALG == 256
    uint32_t st[8], sp[8], W[64], S[8];
    for (i = 0; i < 8; i++) st[i] = sp[i] = (uint32_t) in.h[i];
    SHA256_Transform(st, in.block, W, S);
    spec_sha256_compress(sp, in.block);
    for (i = 0; i < 8; i++) CHECK(st[i] == sp[i], "SHA256_Transform = FIPS 180-4 SHA-256 compression");
#elif ALG == 512
    uint64_t st[8], sp[8], W[80], S[8];
    for (i = 0; i < 8; i++) st[i] = sp[i] = in.h[i];
    SHA512_Transform(st, in.block, W, S);
    spec_sha512_compress(sp, in.block);
    for (i = 0; i < 8; i++) CHECK(st[i] == sp[i], "SHA512_Transform = FIPS 180-4 SHA-512 compression");
#else
    {
        uint64_t x = in.x, y = in.y, z = in.z;
        uint32_t a = (uint32_t) in.x, b = (uint32_t) in.y, c = (uint32_t) in.z, k = (uint32_t) in.k, w = (uint32_t) in.w;
        CHECK(SPEC_CH(x, y, z) == LIT_CH(x, y, z), "Ch(e,f,g) = (e&f)^(~e&g) = ((f^g)&e)^g");
        CHECK(SPEC_MAJ(x, y, z) == LIT_MAJ(x, y, z), "Maj(a,b,c) = (a&b)^(a&c)^(b&c) = (a&(b|c))|(b&c)");
        CHECK((uint32_t) (a + ((b + c) + (w + k))) == (uint32_t) (a + b + c + k + w), "32-bit modular sum is associative/commutative");
        CHECK((uint64_t) (in.x + ((in.y + in.z) + (in.w + in.k))) == (uint64_t) (in.x + in.y + in.z + in.k + in.w), "64-bit modular sum is associative/commutative");
        (void) i;
    }
#endif
    WITNESS();
}
