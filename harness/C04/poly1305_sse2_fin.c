/* C04 (K): the finalisation of the SSE2 Poly1305 unit (poly1305_sse2.c) -- the code every tag on an x86-64 machine goes
 * through: poly1305_finish_ext -> poly1305_blocks(st, NULL, 32) [lanes multiplied by [r^2, r], SIMD carry chain, lanes
 * added, 26-bit -> 44-bit limbs, two carry passes with the 5*c fold, conditional subtraction of p = 2^130 - 5] -> pad
 * addition -> 16 little-endian bytes.
 * The key is fixed to r = 1 (so R = R2 = [1,0,0,0,0] and the lane multiplication is the identity); the accumulator --
 * both lanes, five 26-bit limbs each, every limb below 2^27 as the block loop leaves them (it leaves them below
 * 2^26 + 2^7) -- and the pad are symbolic.  Claim: tag = (((lane0 + lane1) mod 2^130-5) + pad) mod 2^128.
 * The lane multiplication for general r (and the block loop) is outside this obligation.
 * The unit is compiled without HAVE_AMD64_ASM: the two-instruction addq/adcq pad addition is replaced by the unit's
 * own portable branch (recorded cut). */
#include "verif.h"
#include "misuse.h"
#include "crypto_onetimeauth_poly1305.h"
#include "crypto_onetimeauth/poly1305/sse2/poly1305_sse2.c"

struct IN {
    uint32_t hh[10];
    uint64_t pad0, pad1;
};

VERIF_MAIN
{
    VERIF_INPUT(struct IN, in);
    typedef unsigned __CPROVER_bitvector[140] w_t;
    poly1305_state_internal_t st;
    uint8_t                   mac[16];
    w_t                       H = 0, P = (((w_t) 1) << 130) - 5, M130 = (((w_t) 1) << 130) - 1;
    unsigned __int128         T, PADV, got = 0;
    int                       i;

    memset(&st, 0, sizeof st);
    for (i = 0; i < 10; i++) {
        ASSUME(in.hh[i] < (1U << 27));
        st.H.hh[i] = in.hh[i];
    }
    st.R[0] = 1;
    st.R2[0] = 1;
    st.R4[0] = 1;
    st.pad[0] = in.pad0;
    st.pad[1] = in.pad1;
    st.flags = poly1305_started;
    st.leftover = 0;
    for (i = 4; i >= 0; i--) {
        H = (H << 26) + (w_t) in.hh[2 * i] + (w_t) in.hh[2 * i + 1];
    }
    H = (H & M130) + 5 * (H >> 130);
    H = (H & M130) + 5 * (H >> 130);
    if (H >= P) {
        H -= P;
    }
    PADV = ((unsigned __int128) in.pad1 << 64) | in.pad0;
    T = (unsigned __int128) H + PADV;
    poly1305_finish(&st, mac);
    for (i = 15; i >= 0; i--) {
        got = (got << 8) | mac[i];
    }
    CHECK(got == T, "SSE2 Poly1305 finalisation = (((lane0 + lane1) mod 2^130-5) + pad) mod 2^128, little endian");
    WITNESS();
}
