/* C04 (G + K): Poly1305 (donna, the build's limb width) around its block function.
 * PART 0 (G): with poly1305_blocks replaced by an uninterpreted chaining function
 *   that logs what it is given, the one-shot call and init/update(a)/update(b)/
 *   update(rest)/final (split enumerated, empty chunks included) feed exactly the
 *   RFC 8439 2.5 block sequence -- every full 16-byte block with the 2^128 bit,
 *   then the last partial block as tail || 0x01 || 0* WITHOUT that bit -- in order;
 *   both give the same tag; verify accepts <=> all 16 presented bytes equal it;
 *   r = clamped key[0..16), pad = key[16..32).
 * PART 1 (K): poly1305_finish on an arbitrary partially reduced accumulator
 *   (limbs below 2^46) returns ((h mod 2^130-5) + pad) mod 2^128, little endian.
 * The block multiplication (h + m) * r mod 2^130-5 itself is outside. */
#ifndef LEN
# define LEN 33
#endif
#ifndef PART
# define PART 0
#endif
#include "verif.h"
#include "misuse.h"
#include "crypto_onetimeauth_poly1305.h"
#include "crypto_onetimeauth/poly1305/donna/poly1305_donna.c"

typedef unsigned __CPROVER_bitvector[192] acc_t;
acc_t __CPROVER_uninterpreted_poly_block(acc_t h, acc_t r, unsigned __int128 block, unsigned char final);

#define MAXLOG 8
static struct { uint8_t b[16]; uint8_t final; } blog[MAXLOG];
static int nlog;

/* installed over poly1305_blocks with goto-instrument --replace-calls */
void
cut_blocks(poly1305_state_internal_t *st, const unsigned char *m, unsigned long long bytes)
{
    while (bytes >= 16) {
        acc_t             h = ((acc_t) st->h[2] << 128) | ((acc_t) st->h[1] << 64) | st->h[0];
        acc_t             r = ((acc_t) st->r[2] << 128) | ((acc_t) st->r[1] << 64) | st->r[0];
        unsigned __int128 blk = 0;
        int               i;
        for (i = 15; i >= 0; i--) blk = (blk << 8) | m[i];
        CHECK(nlog < MAXLOG, "block log capacity");
        memcpy(blog[nlog].b, m, 16);
        blog[nlog].final = st->final;
        nlog++;
        h = __CPROVER_uninterpreted_poly_block(h, r, blk, st->final);
        st->h[0] = (unsigned long long) h;
        st->h[1] = (unsigned long long) (h >> 64);
        st->h[2] = (unsigned long long) (h >> 128);
        m += 16;
        bytes -= 16;
    }
}

#define LB (LEN > 0 ? LEN : 1)
struct IN {
    uint8_t  m[LB];
    uint8_t  key[32];
    uint8_t  tag[16];
    uint64_t h0, h1, h2, pad0, pad1;
};

static void
check_log(const uint8_t *m, const char *what)
{
    int i, full = LEN / 16, tail = LEN % 16;
    (void) what;
    CHECK(nlog == full + (tail ? 1 : 0), "number of blocks = ceil(len / 16)");
    for (i = 0; i < full; i++) {
        CHECK(v_eq(blog[i].b, m + 16 * i, 16) && blog[i].final == 0, "full block i = message bytes [16i, 16i+16), with the 2^128 bit");
    }
    if (tail) {
        uint8_t last[16];
        memset(last, 0, 16);
        memcpy(last, m + 16 * full, tail);
        last[tail] = 1;
        CHECK(v_eq(blog[full].b, last, 16) && blog[full].final == 1, "last block = tail || 0x01 || zeros, without the 2^128 bit");
    }
}

VERIF_MAIN
{
    VERIF_INPUT(struct IN, in);
    verif_misuse_expected = 0;
#if PART == 0
    {
        uint8_t                           t1[16], t2[16];
        /* the streaming wrappers only cast the opaque public state to this struct; it is used directly so that
         * CBMC keeps the buffer bookkeeping (leftover) concrete */
        CRYPTO_ALIGN(64) poly1305_state_internal_t sti;
        poly1305_state_internal_t        *si = &sti;
        uint8_t                           rk[16];
        unsigned                          a = SPLIT_A, b = SPLIT_B;
        int                               v, i, same = 1;

        nlog = 0;
        CHECK(crypto_onetimeauth_poly1305_donna(t1, in.m, LEN, in.key) == 0, "one-shot returns 0");
        check_log(in.m, "one-shot");
        nlog = 0;
        poly1305_init(si, in.key);
        /* RFC 8439 2.5.1 clamp */
        memcpy(rk, in.key, 16);
        rk[3] &= 15; rk[7] &= 15; rk[11] &= 15; rk[15] &= 15; rk[4] &= 252; rk[8] &= 252; rk[12] &= 252;
        {
            unsigned __int128 R = 0, got;
            for (i = 15; i >= 0; i--) R = (R << 8) | rk[i];
# ifdef HAVE_TI_MODE
            got = (unsigned __int128) si->r[0] | ((unsigned __int128) si->r[1] << 44) | ((unsigned __int128) si->r[2] << 88);
            CHECK(got == R, "r = clamp(key[0..16)) (44/44/42-bit limbs)");
            CHECK(si->pad[0] == v_ld64le(in.key + 16) && si->pad[1] == v_ld64le(in.key + 24), "pad = key[16..32)");
# endif
            CHECK(si->h[0] == 0 && si->h[1] == 0 && si->h[2] == 0 && si->leftover == 0 && si->final == 0, "accumulator starts at zero");
        }
        poly1305_update(si, in.m, a);
        poly1305_update(si, in.m + a, b);
        poly1305_update(si, in.m + a + b, LEN - a - b);
        poly1305_finish(si, t2);
        check_log(in.m, "streaming");
        CHECK(v_eq(t1, t2, 16), "streaming tag = one-shot tag");
        v = crypto_onetimeauth_poly1305_donna_verify(in.tag, in.m, LEN, in.key);
        for (i = 0; i < 16; i++) same &= in.tag[i] == t1[i];
        CHECK((v == 0) == same && (v == 0 || v == -1), "verify returns 0 <=> all 16 presented bytes equal the tag, else -1");
        if (v == 0) WITNESS_AT("verify accepts"); else WITNESS_AT("verify rejects");
    }
#else
    {
        typedef unsigned __CPROVER_bitvector[140] w_t;
        poly1305_state_internal_t st;
        uint8_t                   mac[16];
        w_t                       H, P = (((w_t) 1) << 130) - 5, M130 = (((w_t) 1) << 130) - 1;
        unsigned __int128         T, PADV, got = 0;
        int                       i;

        memset(&st, 0, sizeof st);
        ASSUME(in.h0 < (1ULL << 46) && in.h1 < (1ULL << 46) && in.h2 < (1ULL << 46));
        st.h[0] = in.h0; st.h[1] = in.h1; st.h[2] = in.h2;
        st.pad[0] = in.pad0; st.pad[1] = in.pad1;
        st.leftover = 0;
        H = (w_t) in.h0 + ((w_t) in.h1 << 44) + ((w_t) in.h2 << 88);
        H = (H & M130) + 5 * (H >> 130);
        H = (H & M130) + 5 * (H >> 130);
        if (H >= P) H -= P;
        PADV = ((unsigned __int128) in.pad1 << 64) | in.pad0;
        T = (unsigned __int128) H + PADV;
        poly1305_finish(&st, mac);
        for (i = 15; i >= 0; i--) got = (got << 8) | mac[i];
        CHECK(got == T, "poly1305_finish = ((h mod 2^130-5) + pad) mod 2^128, little endian");
        CHECK(st.h[0] == 0 && st.h[1] == 0 && st.h[2] == 0 && st.r[0] == 0 && st.pad[0] == 0 && st.pad[1] == 0, "state wiped");
    }
#endif
    WITNESS();
}
