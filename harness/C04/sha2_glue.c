/* C04 (G): SHA-256 / SHA-512 padding, block splitting and streaming (real
 * hash_sha{256,512}_cp.c, included) with the compression function replaced by
 * an uninterpreted function: for a message of LEN bytes (concrete) with all
 * contents symbolic, the one-shot hash and init/update(a)/update(b)/update(c)/
 * final for the split a+b+c = LEN (SPLIT_A, SPLIT_B; enumerated, incl. empty chunks) feed exactly the FIPS
 * 180-4 padded blocks, in order, into the compression chain. */
#ifndef LEN
# define LEN 70
#endif
#include "verif.h"
#if ALG == 256
# define BS 64
# define OUTB 32
# define WORD uint32_t
typedef unsigned __CPROVER_bitvector[256] st_t;
typedef unsigned __CPROVER_bitvector[512] blk_t;
# define STATE crypto_hash_sha256_state
# define HINIT crypto_hash_sha256_init
# define HUPDATE crypto_hash_sha256_update
# define HFINAL crypto_hash_sha256_final
# define HONESHOT crypto_hash_sha256
# define LENBYTES 8
#else
# define BS 128
# define OUTB 64
# define WORD uint64_t
typedef unsigned __CPROVER_bitvector[512]  st_t;
typedef unsigned __CPROVER_bitvector[1024] blk_t;
# define STATE crypto_hash_sha512_state
# define HINIT crypto_hash_sha512_init
# define HUPDATE crypto_hash_sha512_update
# define HFINAL crypto_hash_sha512_final
# define HONESHOT crypto_hash_sha512
# define LENBYTES 16
#endif
st_t __CPROVER_uninterpreted_sha2_compress(st_t h, blk_t block);

static void
uf_compress(WORD *state, const uint8_t *block)
{
    st_t  h = 0, r;
    blk_t b = 0;
    int   i;
    for (i = 7; i >= 0; i--) h = (h << (8 * sizeof(WORD))) | (st_t) state[i];
    for (i = BS - 1; i >= 0; i--) b = (b << 8) | (blk_t) block[i];
    r = __CPROVER_uninterpreted_sha2_compress(h, b);
    for (i = 0; i < 8; i++) state[i] = (WORD) (r >> (8 * sizeof(WORD) * i));
}
/* installed over SHA256_Transform / SHA512_Transform with goto-instrument --replace-calls */
void
cut_transform(WORD *state, const uint8_t *block, WORD *W, WORD *S)
{
    (void) W; (void) S;
    uf_compress(state, block);
}

#if ALG == 256
# include "crypto_hash/sha256/cp/hash_sha256_cp.c"
static const WORD IV[8] = { 0x6a09e667, 0xbb67ae85, 0x3c6ef372, 0xa54ff53a, 0x510e527f, 0x9b05688c, 0x1f83d9ab, 0x5be0cd19 };
#else
# include "crypto_hash/sha512/cp/hash_sha512_cp.c"
static const WORD IV[8] = { 0x6a09e667f3bcc908ULL, 0xbb67ae8584caa73bULL, 0x3c6ef372fe94f82bULL, 0xa54ff53a5f1d36f1ULL,
                            0x510e527fade682d1ULL, 0x9b05688c2b3e6c1fULL, 0x1f83d9abfb41bd6bULL, 0x5be0cd19137e2179ULL };
#endif

#define LB (LEN > 0 ? LEN : 1)
#define PADDED (((LEN + 1 + LENBYTES + BS - 1) / BS) * BS)

struct IN {
    uint8_t  m[LB];
    uint32_t a, b;
};

VERIF_MAIN
{
    VERIF_INPUT(struct IN, in);
    uint8_t padded[PADDED], ref[OUTB], one[OUTB], str[OUTB];
    WORD    h[8];
    STATE   st;
    size_t  i, j;

    /* FIPS 180-4 5.1: message || 0x80 || 0* || bit length (big endian) */
    memset(padded, 0, PADDED);
    memcpy(padded, in.m, LEN);
    padded[LEN] = 0x80;
    {
        uint64_t bits = (uint64_t) LEN * 8;
        for (i = 0; i < 8; i++) padded[PADDED - 1 - i] = (uint8_t) (bits >> (8 * i));
    }
    for (i = 0; i < 8; i++) h[i] = IV[i];
    for (i = 0; i < PADDED; i += BS) uf_compress(h, padded + i);
    for (i = 0; i < 8; i++) {
        for (j = 0; j < sizeof(WORD); j++) ref[i * sizeof(WORD) + j] = (uint8_t) (h[i] >> (8 * (sizeof(WORD) - 1 - j)));
    }
    CHECK(HONESHOT(one, in.m, LEN) == 0, "one-shot returns 0");
    CHECK(v_eq(one, ref, OUTB), "one-shot hash = compression chain over the FIPS 180-4 padded message from the standard IV, big-endian output");
    /* split points are enumerated by the registry (with symbolic split points no back
     * end decided the query within 280 s; with concrete ones it takes ~1 s) */
    in.a = SPLIT_A;
    in.b = SPLIT_B;
    HINIT(&st);
    HUPDATE(&st, in.m, in.a);
    HUPDATE(&st, in.m + in.a, in.b);
    HUPDATE(&st, in.m + in.a + in.b, LEN - in.a - in.b);
    HFINAL(&st, str);
    CHECK(v_eq(str, ref, OUTB), "init/update x3/final with any split (incl. empty chunks) = one-shot");
    WITNESS();
}
