/* C04 (G): HMAC-SHA-256/512/512-256, HKDF-SHA-256/512 and the BLAKE2b subkey
 * derivation (real glue code) over idealised hash functions == RFC 2104 /
 * RFC 5869 / libsodium KDF specification.  ALG: 256, 512, 512256 (HMAC only).
 * MLEN, KLEN, OUTLEN, CTXLEN concrete; all contents symbolic. */
#include "verif.h"
#include "ideal_hash.h"
#include "misuse.h"
#include <errno.h>
#include "crypto_auth_hmacsha256.h"
#include "crypto_auth_hmacsha512.h"
#include "crypto_auth_hmacsha512256.h"
#include "crypto_auth.h"
#include "crypto_kdf_hkdf_sha256.h"
#include "crypto_kdf_hkdf_sha512.h"
#include "crypto_kdf.h"

#ifndef ALG
# define ALG 256
#endif
#ifndef MLEN
# define MLEN 20
#endif
#ifndef KLEN
# define KLEN 32
#endif
#ifndef OUTLEN
# define OUTLEN 70
#endif
#ifndef CTXLEN
# define CTXLEN 5
#endif
#if ALG == 256
# define B 64
# define HL 32
# define TL 32
# define IDH IDEAL_SHA256
# define ST crypto_auth_hmacsha256_state
# define H_INIT crypto_auth_hmacsha256_init
# define H_UPDATE crypto_auth_hmacsha256_update
# define H_FINAL crypto_auth_hmacsha256_final
# define H_ONE crypto_auth_hmacsha256
# define H_VERIFY crypto_auth_hmacsha256_verify
# define K_EXTRACT crypto_kdf_hkdf_sha256_extract
# define K_EXTRACT_STATE crypto_kdf_hkdf_sha256_state
# define K_EXTRACT_INIT crypto_kdf_hkdf_sha256_extract_init
# define K_EXTRACT_UPDATE crypto_kdf_hkdf_sha256_extract_update
# define K_EXTRACT_FINAL crypto_kdf_hkdf_sha256_extract_final
# define K_EXPAND crypto_kdf_hkdf_sha256_expand
#elif ALG == 512
# define B 128
# define HL 64
# define TL 64
# define IDH IDEAL_SHA512
# define ST crypto_auth_hmacsha512_state
# define H_INIT crypto_auth_hmacsha512_init
# define H_UPDATE crypto_auth_hmacsha512_update
# define H_FINAL crypto_auth_hmacsha512_final
# define H_ONE crypto_auth_hmacsha512
# define H_VERIFY crypto_auth_hmacsha512_verify
# define K_EXTRACT crypto_kdf_hkdf_sha512_extract
# define K_EXTRACT_STATE crypto_kdf_hkdf_sha512_state
# define K_EXTRACT_INIT crypto_kdf_hkdf_sha512_extract_init
# define K_EXTRACT_UPDATE crypto_kdf_hkdf_sha512_extract_update
# define K_EXTRACT_FINAL crypto_kdf_hkdf_sha512_extract_final
# define K_EXPAND crypto_kdf_hkdf_sha512_expand
#else
# define B 128
# define HL 64
# define TL 32
# define IDH IDEAL_SHA512
# define ST crypto_auth_hmacsha512256_state
# define H_INIT crypto_auth_hmacsha512256_init
# define H_UPDATE crypto_auth_hmacsha512256_update
# define H_FINAL crypto_auth_hmacsha512256_final
# define H_ONE crypto_auth_hmacsha512256
# define H_VERIFY crypto_auth_hmacsha512256_verify
#endif
#define MB (MLEN > 0 ? MLEN : 1)
#define KB (KLEN > 0 ? KLEN : 1)
#define CB (CTXLEN > 0 ? CTXLEN : 1)

static void
spec_hmac(uint8_t out[HL], const uint8_t *key, size_t klen, const uint8_t *m1, size_t l1, const uint8_t *m2, size_t l2,
          const uint8_t *m3, size_t l3)
{
    uint8_t k0[B], buf[B + 2 * HL + MLEN + CTXLEN + 8], inner[HL];
    size_t  i, n;
    memset(k0, 0, B);
    if (klen > B) {
        ideal_hash(IDH, k0, HL, key, klen, NULL, 0, NULL, NULL);
    } else {
        memcpy(k0, key, klen);
    }
    for (i = 0; i < B; i++) buf[i] = k0[i] ^ 0x36;
    n = B;
    if (l1) memcpy(buf + n, m1, l1); n += l1;
    if (l2) memcpy(buf + n, m2, l2); n += l2;
    if (l3) memcpy(buf + n, m3, l3); n += l3;
    ideal_hash(IDH, inner, HL, buf, n, NULL, 0, NULL, NULL);
    for (i = 0; i < B; i++) buf[i] = k0[i] ^ 0x5c;
    memcpy(buf + B, inner, HL);
    ideal_hash(IDH, out, HL, buf, B + HL, NULL, 0, NULL, NULL);
}

struct IN {
    uint8_t  key[KB], k32[32];
    uint8_t  m[MB];
    uint8_t  ctx[CB];
    uint8_t  delta[TL];
    uint64_t big;
    uint64_t id;
    uint8_t  kctx[8];
};

VERIF_MAIN
{
    VERIF_INPUT(struct IN, in);
    uint8_t ref[HL], got[HL], tag[TL];
    ST      st;
    int     i, dz = 1;

    verif_misuse_expected = 0;
#if PART == 0
    /* HMAC, arbitrary key length, streaming in two chunks */
    spec_hmac(ref, in.key, KLEN, in.m, MLEN, NULL, 0, NULL, 0);
    CHECK(H_INIT(&st, in.key, KLEN) == 0, "hmac init");
    H_UPDATE(&st, in.m, MLEN / 2);
    H_UPDATE(&st, in.m + MLEN / 2, MLEN - MLEN / 2);
    H_FINAL(&st, got);
    CHECK(v_eq(got, ref, TL), "HMAC = H((K0 ^ opad) || H((K0 ^ ipad) || m)), K0 = key (hashed first if longer than a block), truncated for 512-256");
    /* one-shot with the 32-byte API key and verify */
    spec_hmac(ref, in.k32, 32, in.m, MLEN, NULL, 0, NULL, 0);
    CHECK(H_ONE(tag, in.m, MLEN, in.k32) == 0 && v_eq(tag, ref, TL), "one-shot HMAC with a 32-byte key");
    for (i = 0; i < TL; i++) {
        tag[i] ^= in.delta[i];
        if (in.delta[i]) dz = 0;
    }
    CHECK((H_VERIFY(tag, in.m, MLEN, in.k32) == 0) == dz, "verify accepts exactly the correct tag (all bytes compared)");
# if ALG == 512256
    CHECK(crypto_auth(got, in.m, MLEN, in.k32) == 0 && v_eq(got, ref, 32), "crypto_auth = HMAC-SHA-512-256");
    CHECK((crypto_auth_verify(tag, in.m, MLEN, in.k32) == 0) == dz, "crypto_auth_verify exact");
# endif
#elif PART == 1
    /* HKDF */
    {
        uint8_t prk[HL], sprk[HL], out[OUTLEN + 1], sout[((OUTLEN + HL - 1) / HL) * HL + HL], t[HL], ctr;
        size_t  n = 0;
        spec_hmac(sprk, in.key, KLEN, in.m, MLEN, NULL, 0, NULL, 0);
        CHECK(K_EXTRACT(prk, in.key, KLEN, in.m, MLEN) == 0 && v_eq(prk, sprk, HL), "HKDF-Extract = HMAC(salt, ikm)");
        {
            /* streaming extract: init(salt) / update(ikm[0..a)) / update(rest) / final == one-shot */
            K_EXTRACT_STATE xs;
            uint8_t         prk2[HL];
            CHECK(K_EXTRACT_INIT(&xs, in.key, KLEN) == 0, "extract_init");
            CHECK(K_EXTRACT_UPDATE(&xs, in.m, MLEN / 2) == 0, "extract_update");
            CHECK(K_EXTRACT_UPDATE(&xs, in.m + MLEN / 2, MLEN - MLEN / 2) == 0, "extract_update");
            CHECK(K_EXTRACT_FINAL(&xs, prk2) == 0 && v_eq(prk2, sprk, HL), "streaming HKDF-Extract = HMAC(salt, ikm)");
        }
        for (ctr = 1; n < OUTLEN; ctr++) {
            spec_hmac(t, prk, HL, ctr == 1 ? NULL : sout + n - HL, ctr == 1 ? 0 : HL, in.ctx, CTXLEN, &ctr, 1);
            memcpy(sout + n, t, HL);
            n += HL;
        }
        out[OUTLEN] = 0x3c;
        CHECK(K_EXPAND(out, OUTLEN, (const char *) in.ctx, CTXLEN, prk) == 0, "HKDF-Expand returns 0");
        CHECK(v_eq(out, sout, OUTLEN), "HKDF-Expand = T(1) || T(2) || ... with T(i) = HMAC(prk, T(i-1) || info || i), counter from 1");
        CHECK(out[OUTLEN] == 0x3c, "HKDF-Expand writes exactly out_len bytes");
        /* concrete oversize requests (a symbolic out_len would make the symbolic executor
         * unroll the expand loop under an infeasible guard) */
        errno = 0;
        CHECK(K_EXPAND(NULL, 255ULL * HL + 1, (const char *) in.ctx, CTXLEN, prk) == -1 && errno == EINVAL, "HKDF-Expand refuses out_len = 255 * hash length + 1");
        CHECK(K_EXPAND(NULL, (size_t) -1, (const char *) in.ctx, CTXLEN, prk) == -1, "HKDF-Expand refuses out_len = SIZE_MAX");
    }
#else
    /* BLAKE2b KDF */
    {
        uint8_t sub[64], ssub[64], salt[16], pers[16];
        memset(salt, 0, 16); v_st64le(salt, in.id);
        memset(pers, 0, 16); memcpy(pers, in.kctx, 8);
        ideal_hash(IDEAL_BLAKE2B, ssub, OUTLEN, NULL, 0, in.k32, 32, salt, pers);
        errno = 0;
# if OUTLEN >= 16 && OUTLEN <= 64
        CHECK(crypto_kdf_derive_from_key(sub, OUTLEN, in.id, (const char *) in.kctx, in.k32) == 0, "kdf returns 0");
        CHECK(v_eq(sub, ssub, OUTLEN), "subkey = BLAKE2b(key = master key, salt = LE64(id) || 0, personal = ctx || 0, empty message)");
# else
        CHECK(crypto_kdf_derive_from_key(sub, OUTLEN, in.id, (const char *) in.kctx, in.k32) == -1 && errno == EINVAL, "kdf refuses subkey lengths outside 16..64");
# endif
    }
#endif
    (void) ref; (void) got; (void) tag; (void) st; (void) i; (void) dz;
    WITNESS();
}
