/* C10: sodium/runtime.c with CPUID / XGETBV replaced by arbitrary register
 * values (asm2c routes the asm blocks to __verif_cpuid / __verif_xgetbv):
 * for ALL CPUID leaf 0/1/7 contents and XCR0, every reported feature flag
 * implies that the processor reports the feature and, for AVX-class features,
 * that the OS has enabled the register state; XGETBV is executed only when
 * CPUID reports OSXSAVE; nothing is reported when leaf 0 is empty. */
#include "verif.h"
#include "runtime.h"

struct IN {
    uint32_t l0[4], l1[4], l7[4], other[4];
    uint32_t xcr0;
};
static struct IN *src;
static int        xgetbv_calls;

void
__verif_cpuid(unsigned int leaf, unsigned int subleaf, unsigned int *a, unsigned int *b, unsigned int *c,
              unsigned int *d)
{
    const uint32_t *r = leaf == 0 ? src->l0 : leaf == 1 ? src->l1 : leaf == 7 ? src->l7 : src->other;
    CHECK(subleaf == 0, "cpuid executed with ECX = 0");
    *a = r[0]; *b = r[1]; *c = r[2]; *d = r[3];
}
unsigned int
__verif_xgetbv(unsigned int idx)
{
    CHECK(idx == 0, "xgetbv reads XCR0");
    CHECK((src->l1[2] & 0x08000000u) != 0, "XGETBV is executed only when CPUID.1:ECX.OSXSAVE is set (it faults otherwise)");
    xgetbv_calls++;
    return src->xcr0;
}

#define BIT(x, n) (((x) >> (n)) & 1u)

VERIF_MAIN
{
    VERIF_INPUT(struct IN, in);
    uint32_t ecx, edx, ebx7;
    int      os_avx, os_avx512;

    src = &in;
    _sodium_runtime_get_cpu_features();
    ecx = in.l1[2]; edx = in.l1[3]; ebx7 = in.l7[1];
    os_avx    = BIT(ecx, 27) && BIT(ecx, 26) && (in.xcr0 & 0x6) == 0x6;
    os_avx512 = os_avx && (in.xcr0 & 0xe0) == 0xe0;
    if (in.l0[0] == 0) {
        CHECK(!sodium_runtime_has_sse2() && !sodium_runtime_has_sse3() && !sodium_runtime_has_ssse3() &&
              !sodium_runtime_has_sse41() && !sodium_runtime_has_avx() && !sodium_runtime_has_avx2() &&
              !sodium_runtime_has_avx512f() && !sodium_runtime_has_pclmul() && !sodium_runtime_has_aesni() &&
              !sodium_runtime_has_rdrand(), "no feature reported when CPUID leaf 0 is empty");
    }
    CHECK(!sodium_runtime_has_sse2() || BIT(edx, 26), "has_sse2 => CPUID.1:EDX.SSE2");
    CHECK(!sodium_runtime_has_sse3() || BIT(ecx, 0), "has_sse3 => CPUID.1:ECX.SSE3");
    CHECK(!sodium_runtime_has_ssse3() || BIT(ecx, 9), "has_ssse3 => CPUID.1:ECX.SSSE3");
    CHECK(!sodium_runtime_has_sse41() || BIT(ecx, 19), "has_sse41 => CPUID.1:ECX.SSE4.1");
    CHECK(!sodium_runtime_has_pclmul() || BIT(ecx, 1), "has_pclmul => CPUID.1:ECX.PCLMULQDQ");
    CHECK(!sodium_runtime_has_aesni() || BIT(ecx, 25), "has_aesni => CPUID.1:ECX.AESNI");
    CHECK(!sodium_runtime_has_rdrand() || BIT(ecx, 30), "has_rdrand => CPUID.1:ECX.RDRAND");
    CHECK(!sodium_runtime_has_avx() || (BIT(ecx, 28) && os_avx), "has_avx => CPUID AVX+XSAVE+OSXSAVE and XCR0[2:1] = 11");
    CHECK(!sodium_runtime_has_avx2() || (sodium_runtime_has_avx() && BIT(ebx7, 5)), "has_avx2 => has_avx and CPUID.7:EBX.AVX2");
    CHECK(!sodium_runtime_has_avx512f() || (sodium_runtime_has_avx2() && BIT(ebx7, 16) && os_avx512),
          "has_avx512f => has_avx2, CPUID.7:EBX.AVX512F and XCR0[7:5] = 111");
    CHECK(!sodium_runtime_has_neon() && !sodium_runtime_has_armcrypto(), "no ARM feature on x86");
    CHECK(sodium_runtime_has_sse2() == 0 || sodium_runtime_has_sse2() == 1, "flags are 0/1");
    if (sodium_runtime_has_avx512f()) { WITNESS_AT("avx512f detectable"); }
    if (!sodium_runtime_has_avx() && BIT(ecx, 28)) { WITNESS_AT("avx masked by OS state"); }
    WITNESS();
}
