/* C10: private/common.h LOAD/STORE/ROTL helpers: the native-endian fast paths
 * (memcpy) and the portable byte-wise variants return the same values as the
 * definition, for all inputs.  Built twice: with and without NATIVE_LITTLE_ENDIAN. */
#include "verif.h"
#include "private/common.h"

struct IN {
    uint8_t  b[8];
    uint64_t w64;
    uint32_t w32;
    uint8_t  r;
};

VERIF_MAIN
{
    VERIF_INPUT(struct IN, in);
    uint8_t  o[8];
    uint64_t be64 = 0;
    uint32_t be32 = 0;
    int      i;
    for (i = 0; i < 8; i++) be64 = (be64 << 8) | in.b[i];
    for (i = 0; i < 4; i++) be32 = (be32 << 8) | in.b[i];
    CHECK(LOAD64_LE(in.b) == v_ld64le(in.b), "LOAD64_LE");
    CHECK(LOAD32_LE(in.b) == v_ld32le(in.b), "LOAD32_LE");
    CHECK(LOAD64_BE(in.b) == be64, "LOAD64_BE");
    CHECK(LOAD32_BE(in.b) == be32, "LOAD32_BE");
    STORE64_LE(o, in.w64);
    CHECK(v_ld64le(o) == in.w64, "STORE64_LE");
    STORE32_LE(o, in.w32);
    CHECK(v_ld32le(o) == in.w32, "STORE32_LE");
    STORE64_BE(o, in.w64);
    for (i = 0, be64 = 0; i < 8; i++) be64 = (be64 << 8) | o[i];
    CHECK(be64 == in.w64, "STORE64_BE");
    STORE32_BE(o, in.w32);
    for (i = 0, be32 = 0; i < 4; i++) be32 = (be32 << 8) | o[i];
    CHECK(be32 == in.w32, "STORE32_BE");
    ASSUME(in.r >= 1 && in.r <= 31);
    CHECK(ROTL32(in.w32, in.r) == ((in.w32 << in.r) | (in.w32 >> (32 - in.r))), "ROTL32");
    CHECK(ROTR32(in.w32, in.r) == ((in.w32 >> in.r) | (in.w32 << (32 - in.r))), "ROTR32");
    CHECK(ROTL64(in.w64, in.r) == ((in.w64 << in.r) | (in.w64 >> (64 - in.r))), "ROTL64");
    CHECK(ROTR64(in.w64, in.r) == ((in.w64 >> in.r) | (in.w64 << (64 - in.r))), "ROTR64");
    WITNESS();
}
