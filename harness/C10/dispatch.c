/* C10: every _pick_best_implementation() selects, for EVERY combination of
 * detected CPU features, a back end whose required feature was detected.
 * DISP selects the dispatcher (its .c file is included so that the static
 * `implementation` pointer is visible). */
#include "verif.h"
#include "runtime.h"
#include "misuse.h"

struct IN {
    uint8_t f[12];
};
static struct IN *src;
#define FLAG(i) (src->f[i] & 1)
int sodium_runtime_has_neon(void) { return 0; }
int sodium_runtime_has_armcrypto(void) { return 0; }
int sodium_runtime_has_sse2(void) { return FLAG(0); }
int sodium_runtime_has_sse3(void) { return FLAG(1); }
int sodium_runtime_has_ssse3(void) { return FLAG(2); }
int sodium_runtime_has_sse41(void) { return FLAG(3); }
int sodium_runtime_has_avx(void) { return FLAG(4); }
int sodium_runtime_has_avx2(void) { return FLAG(5); }
int sodium_runtime_has_avx512f(void) { return FLAG(6); }
int sodium_runtime_has_pclmul(void) { return FLAG(7); }
int sodium_runtime_has_aesni(void) { return FLAG(8); }
int sodium_runtime_has_rdrand(void) { return FLAG(9); }

#if DISP == 0
# include "crypto_stream/chacha20/stream_chacha20.c"
# define PICK _crypto_stream_chacha20_pick_best_implementation
# define CHECKS                                                                                        \
    CHECK(implementation != &crypto_stream_chacha20_dolbeau_avx2_implementation || FLAG(5), "chacha20 AVX2 back end only with has_avx2"); \
    CHECK(implementation != &crypto_stream_chacha20_dolbeau_ssse3_implementation || FLAG(2), "chacha20 SSSE3 back end only with has_ssse3"); \
    CHECK(implementation == &crypto_stream_chacha20_dolbeau_avx2_implementation || implementation == &crypto_stream_chacha20_dolbeau_ssse3_implementation || implementation == &crypto_stream_chacha20_ref_implementation, "chacha20: one of the known back ends");
#elif DISP == 1
# include "crypto_stream/salsa20/stream_salsa20.c"
# define PICK _crypto_stream_salsa20_pick_best_implementation
# define CHECKS                                                                                        \
    CHECK(implementation != &crypto_stream_salsa20_xmm6int_avx2_implementation || FLAG(5), "salsa20 AVX2 back end only with has_avx2"); \
    CHECK(implementation == &crypto_stream_salsa20_xmm6int_avx2_implementation || implementation == &crypto_stream_salsa20_xmm6_implementation, "salsa20: AVX2 or the SSE2 assembly baseline (x86-64 always has SSE2)");
#elif DISP == 2
# include "crypto_onetimeauth/poly1305/onetimeauth_poly1305.c"
# define PICK _crypto_onetimeauth_poly1305_pick_best_implementation
# define CHECKS                                                                                        \
    CHECK(implementation != &crypto_onetimeauth_poly1305_sse2_implementation || FLAG(0), "poly1305 SSE2 back end only with has_sse2"); \
    CHECK(implementation == &crypto_onetimeauth_poly1305_sse2_implementation || implementation == &crypto_onetimeauth_poly1305_donna_implementation, "poly1305: known back end");
#elif DISP == 3
# include "crypto_scalarmult/curve25519/scalarmult_curve25519.c"
# define PICK _crypto_scalarmult_curve25519_pick_best_implementation
# define CHECKS                                                                                        \
    CHECK(implementation != &crypto_scalarmult_curve25519_sandy2x_implementation || FLAG(4), "X25519 AVX assembly back end only with has_avx"); \
    CHECK(implementation == &crypto_scalarmult_curve25519_sandy2x_implementation || implementation == &crypto_scalarmult_curve25519_ref10_implementation, "X25519: known back end");
#elif DISP == 4
# include "crypto_aead/aegis128l/aead_aegis128l.c"
# define PICK _crypto_aead_aegis128l_pick_best_implementation
# define CHECKS                                                                                        \
    CHECK(implementation != &aegis128l_aesni_implementation || (FLAG(8) && FLAG(4)), "AEGIS-128L AES-NI back end only with has_aesni and has_avx"); \
    CHECK(implementation == &aegis128l_aesni_implementation || implementation == &aegis128l_soft_implementation, "AEGIS-128L: known back end");
#elif DISP == 5
# include "crypto_aead/aegis256/aead_aegis256.c"
# define PICK _crypto_aead_aegis256_pick_best_implementation
# define CHECKS                                                                                        \
    CHECK(implementation != &aegis256_aesni_implementation || (FLAG(8) && FLAG(4)), "AEGIS-256 AES-NI back end only with has_aesni and has_avx"); \
    CHECK(implementation == &aegis256_aesni_implementation || implementation == &aegis256_soft_implementation, "AEGIS-256: known back end");
#elif DISP == 6
# include "crypto_generichash/blake2b/ref/blake2b-ref.c"
# define PICK blake2b_pick_best_implementation
# define CHECKS                                                                                        \
    CHECK(blake2b_compress != blake2b_compress_avx2 || FLAG(5), "BLAKE2b AVX2 compression only with has_avx2"); \
    CHECK(blake2b_compress != blake2b_compress_sse41 || FLAG(3), "BLAKE2b SSE4.1 compression only with has_sse41"); \
    CHECK(blake2b_compress != blake2b_compress_ssse3 || FLAG(2), "BLAKE2b SSSE3 compression only with has_ssse3"); \
    CHECK(blake2b_compress == blake2b_compress_avx2 || blake2b_compress == blake2b_compress_sse41 || blake2b_compress == blake2b_compress_ssse3 || blake2b_compress == blake2b_compress_ref, "BLAKE2b: known compression function");
#elif DISP == 7
# include "crypto_pwhash/argon2/argon2-core.c"
# define PICK _crypto_pwhash_argon2_pick_best_implementation
# define CHECKS                                                                                        \
    CHECK(fill_segment != argon2_fill_segment_avx512f || FLAG(6), "Argon2 AVX-512F fill only with has_avx512f"); \
    CHECK(fill_segment != argon2_fill_segment_avx2 || FLAG(5), "Argon2 AVX2 fill only with has_avx2"); \
    CHECK(fill_segment != argon2_fill_segment_ssse3 || FLAG(2), "Argon2 SSSE3 fill only with has_ssse3"); \
    CHECK(fill_segment == argon2_fill_segment_avx512f || fill_segment == argon2_fill_segment_avx2 || fill_segment == argon2_fill_segment_ssse3 || fill_segment == argon2_fill_segment_ref, "Argon2: known fill function");
#else
# include "crypto_aead/aes256gcm/aesni/aead_aes256gcm_aesni.c"
# define PICK() 0
# define CHECKS                                                                                        \
    CHECK((crypto_aead_aes256gcm_is_available() != 0) == (FLAG(7) && FLAG(8) && FLAG(4)), "AES-256-GCM reports itself available exactly when PCLMUL, AES-NI and AVX are detected");
#endif

VERIF_MAIN
{
    VERIF_INPUT(struct IN, in);
    src = &in;
    verif_misuse_expected = 0;
    (void) PICK();
    CHECKS
    WITNESS();
}
