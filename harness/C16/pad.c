/* C16: sodium_pad for block size BS (concrete, enumerated), every unpadded
 * length 0..NMAX (symbolic), every capacity 0..BUF (symbolic), all contents;
 * then sodium_unpad of the result returns the original length. */
#include "verif.h"
#include "utils.h"
#include "misuse.h"

#ifndef BS
# define BS 7
#endif
#ifndef NMAX
# define NMAX 36
#endif
#define BUF (NMAX + BS + 2)

struct IN {
    uint8_t  buf[BUF];
    uint32_t unpadded, max_buflen;
    uint8_t  null_lenp;
};

VERIF_MAIN
{
    VERIF_INPUT(struct IN, in);
    uint8_t w[BUF];
    size_t  padded = 99999, want, i, un = 777;
    int     r;

    /* the stated capacity may be smaller than the data already in the buffer: the call must then fail without writing */
    ASSUME(in.unpadded <= NMAX && in.max_buflen <= BUF);
    memcpy(w, in.buf, BUF);
    want = (in.unpadded / BS + 1) * (size_t) BS;
    verif_misuse_expected = 0;
    r = sodium_pad(in.null_lenp ? NULL : &padded, w, in.unpadded, BS, in.max_buflen);
    if (want > in.max_buflen) {
        CHECK(r == -1, "sodium_pad: fails when the padded length does not fit");
        CHECK(v_eq(w, in.buf, BUF), "sodium_pad: no write on failure");
        CHECK(padded == 99999, "sodium_pad: length not reported on failure");
    } else {
        CHECK(r == 0, "sodium_pad: succeeds when the padded length fits");
        CHECK(in.null_lenp || padded == want, "sodium_pad: reported length = next multiple of the block size");
        for (i = 0; i < BUF; i++) {
            if (i < in.unpadded) {
                CHECK(w[i] == in.buf[i], "sodium_pad: data bytes untouched");
            } else if (i == in.unpadded) {
                CHECK(w[i] == 0x80, "sodium_pad: 0x80 marker right after the data");
            } else if (i < want) {
                CHECK(w[i] == 0, "sodium_pad: zero bytes after the marker");
            } else {
                CHECK(w[i] == in.buf[i], "sodium_pad: bytes beyond the padded length untouched");
            }
        }
        CHECK(sodium_unpad(&un, w, want, BS) == 0 && un == in.unpadded, "sodium_unpad(sodium_pad(x)) = |x|");
    }
    WITNESS();
}
