/* C16: sodium_unpad on an arbitrary buffer: block size BS concrete, buffer
 * length symbolic 0..NB, all contents.  EXACT=1: the buffer handed in is exactly
 * one block long and sits at the very start of its object, so any read before
 * the final block is an out-of-bounds read. */
#include "verif.h"
#include "utils.h"
#include "misuse.h"

#ifndef BS
# define BS 7
#endif
#ifndef EXACT
# define EXACT 0
#endif
#define NB (EXACT ? BS : 2 * BS + 3)

struct IN {
    uint8_t  buf[NB];
    uint32_t len;
};

VERIF_MAIN
{
    VERIF_INPUT(struct IN, in);
    size_t un = 4242, len = in.len, i, marker = 0;
    int    r, ok = 0, seen_nonzero = 0;

    ASSUME(len <= NB);
#if EXACT
    ASSUME(len == BS);
#endif
    verif_misuse_expected = 0;
    r = sodium_unpad(&un, in.buf, len, BS);
    if (len >= BS) {
        for (i = 0; i < BS; i++) {
            uint8_t c = in.buf[len - 1 - i];
            if (!seen_nonzero && c != 0) {
                seen_nonzero = 1;
                if (c == 0x80) {
                    ok = 1;
                    marker = len - 1 - i;
                }
            }
        }
    }
    if (ok) {
        CHECK(r == 0, "sodium_unpad: accepts a final block ...0x80 00*");
        CHECK(un == marker, "sodium_unpad: unpadded length = position of the marker");
    } else {
        CHECK(r == -1, "sodium_unpad: rejects a final block without a 0x80 marker followed only by zeros (or a buffer shorter than a block)");
    }
    WITNESS();
}
