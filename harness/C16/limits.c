/* C16: sodium_pad size arithmetic on full 64-bit lengths / block sizes:
 * blocksize 0 -> -1; padded length overflowing size_t -> sodium_misuse;
 * otherwise (capacity 0) -> -1 without touching the (NULL) buffer. */
#include "verif.h"
#include "utils.h"
#include "misuse.h"

struct IN {
    uint64_t unpadded, blocksize;
};

VERIF_MAIN
{
    VERIF_INPUT(struct IN, in);
    size_t            padded = 5;
    unsigned __int128 want;
    int               r;

#ifdef K
    ASSUME(in.blocksize == (1ULL << K)); /* power-of-two block sizes: enumerated, K = 0..63 */
#else
    ASSUME(in.blocksize == BSVAL); /* other block sizes: enumerated list (a symbolic 64-bit divisor stalls every back end) */
#endif
    if (in.blocksize == 0) {
        verif_misuse_expected = 0;
        CHECK(sodium_pad(&padded, NULL, in.unpadded, 0, 0) == -1, "sodium_pad: blocksize 0 rejected");
    } else {
        /* next multiple of blocksize strictly above unpadded, i.e. (q+1)*bs = u - (u mod bs) + bs,
         * written without a multiplication (a 128-bit symbolic product stalls every back end) */
        want = (unsigned __int128) in.unpadded + (in.blocksize - in.unpadded % in.blocksize);
        verif_misuse_expected = want > (unsigned __int128) UINT64_MAX;
        r = sodium_pad(&padded, NULL, in.unpadded, in.blocksize, 0);
        MISUSE_MUST_HAVE_FIRED();
        CHECK(r == -1 && padded == 5, "sodium_pad: capacity 0 -> -1, nothing reported");
    }
    WITNESS();
}
