/* AEGIS-256 / AEGIS-128L specification model (draft-irtf-cfrg-aegis-aead:
 * Init, Absorb, Enc, Dec, DecPartial, Finalize), written over byte blocks and
 * the abstract AES round R; AESRound(in, rk) = R(in) XOR rk.  AEGIS = 256 or 128 */
#ifndef AEGIS_SPEC_H
#define AEGIS_SPEC_H
#include "verif.h"
#include "ideal_aes.h"

typedef struct { uint8_t b[16]; } blk;
static const blk AE_C0 = { { 0x00, 0x01, 0x01, 0x02, 0x03, 0x05, 0x08, 0x0d, 0x15, 0x22, 0x37, 0x59, 0x90, 0xe9, 0x79, 0x62 } };
static const blk AE_C1 = { { 0xdb, 0x3d, 0x18, 0x55, 0x6d, 0xc2, 0x2f, 0xf1, 0x20, 0x11, 0x31, 0x42, 0x73, 0xb5, 0x28, 0xdd } };

static blk bx(blk a, blk b) { int i; for (i = 0; i < 16; i++) a.b[i] ^= b.b[i]; return a; }
static blk band(blk a, blk b) { int i; for (i = 0; i < 16; i++) a.b[i] &= b.b[i]; return a; }
static blk bld(const uint8_t *p) { blk r; memcpy(r.b, p, 16); return r; }
static blk aesround(blk in, blk rk) { blk r; ideal_aes_round(r.b, in.b); return bx(r, rk); }

#if AEGIS == 256
# define AE_NS 6
# define AE_RATE 16
# define AE_KEYB 32
# define AE_NPUB 32
static void ae_update(blk *S, blk m)
{
    blk n[6];
    n[5] = aesround(S[4], S[5]); n[4] = aesround(S[3], S[4]); n[3] = aesround(S[2], S[3]);
    n[2] = aesround(S[1], S[2]); n[1] = aesround(S[0], S[1]);
    n[0] = aesround(S[5], bx(S[0], m));
    memcpy(S, n, sizeof n);
}
static void ae_init(blk *S, const uint8_t *k, const uint8_t *n)
{
    blk k0 = bld(k), k1 = bld(k + 16), n0 = bld(n), n1 = bld(n + 16);
    int i;
    S[0] = bx(k0, n0); S[1] = bx(k1, n1); S[2] = AE_C1; S[3] = AE_C0; S[4] = bx(k0, AE_C0); S[5] = bx(k1, AE_C1);
    for (i = 0; i < 4; i++) { ae_update(S, k0); ae_update(S, k1); ae_update(S, bx(k0, n0)); ae_update(S, bx(k1, n1)); }
}
static void ae_absorb(blk *S, const uint8_t *a) { ae_update(S, bld(a)); }
static void ae_z(const blk *S, uint8_t *z) { blk t = bx(bx(S[1], S[4]), bx(S[5], band(S[2], S[3]))); memcpy(z, t.b, 16); }
static void ae_update_msg(blk *S, const uint8_t *x) { ae_update(S, bld(x)); }
static void ae_finalize(blk *S, uint8_t tag[32], uint64_t adlen, uint64_t mlen)
{
    blk t, a, b;
    int i;
    v_st64le(t.b, adlen * 8); v_st64le(t.b + 8, mlen * 8);
    t = bx(t, S[3]);
    for (i = 0; i < 7; i++) ae_update(S, t);
    a = bx(bx(S[0], S[1]), S[2]); b = bx(bx(S[3], S[4]), S[5]);
    memcpy(tag, a.b, 16); memcpy(tag + 16, b.b, 16);
}
#else
# define AE_NS 8
# define AE_RATE 32
# define AE_KEYB 16
# define AE_NPUB 16
static void ae_update2(blk *S, blk m0, blk m1)
{
    blk n[8];
    n[7] = aesround(S[6], S[7]); n[6] = aesround(S[5], S[6]); n[5] = aesround(S[4], S[5]); n[4] = aesround(S[3], bx(S[4], m1));
    n[3] = aesround(S[2], S[3]); n[2] = aesround(S[1], S[2]); n[1] = aesround(S[0], S[1]); n[0] = aesround(S[7], bx(S[0], m0));
    memcpy(S, n, sizeof n);
}
static void ae_init(blk *S, const uint8_t *k, const uint8_t *n)
{
    blk key = bld(k), nonce = bld(n);
    int i;
    S[0] = bx(key, nonce); S[1] = AE_C1; S[2] = AE_C0; S[3] = AE_C1; S[4] = bx(key, nonce);
    S[5] = bx(key, AE_C0); S[6] = bx(key, AE_C1); S[7] = bx(key, AE_C0);
    for (i = 0; i < 10; i++) ae_update2(S, nonce, key);
}
static void ae_absorb(blk *S, const uint8_t *a) { ae_update2(S, bld(a), bld(a + 16)); }
static void ae_z(const blk *S, uint8_t *z)
{
    blk z0 = bx(bx(S[6], S[1]), band(S[2], S[3])), z1 = bx(bx(S[2], S[5]), band(S[6], S[7]));
    memcpy(z, z0.b, 16); memcpy(z + 16, z1.b, 16);
}
static void ae_update_msg(blk *S, const uint8_t *x) { ae_update2(S, bld(x), bld(x + 16)); }
static void ae_finalize(blk *S, uint8_t tag[32], uint64_t adlen, uint64_t mlen)
{
    blk t, a, b;
    int i;
    v_st64le(t.b, adlen * 8); v_st64le(t.b + 8, mlen * 8);
    t = bx(t, S[2]);
    for (i = 0; i < 7; i++) ae_update2(S, t, t);
    a = bx(bx(S[0], S[1]), bx(S[2], S[3])); b = bx(bx(S[4], S[5]), bx(S[6], S[7]));
    memcpy(tag, a.b, 16); memcpy(tag + 16, b.b, 16);
}
#endif

#ifdef AEGIS_ABSTRACT_INIT_MAC
/* Decomposition: Init (16 resp. 10 updates) and Finalize (7 updates) are checked on their own against the
 * specification (PART 2 / 3) and are abstract functions here: state = INIT(key, nonce), tag = FIN(state, adlen, mlen). */
# ifndef REPLAY
typedef unsigned __CPROVER_bitvector[256]  ae256_t;
typedef unsigned __CPROVER_bitvector[1024] aest_t;
aest_t  __CPROVER_uninterpreted_aegis_init(ae256_t key, ae256_t nonce);
ae256_t __CPROVER_uninterpreted_aegis_fin(aest_t state, uint64_t adlen, uint64_t mlen);
static void abs_init(blk *S, const uint8_t *k, const uint8_t *n)
{
    ae256_t kv = 0, nv = 0;
    aest_t  st;
    int     i, j;
    for (i = AE_KEYB - 1; i >= 0; i--) kv = (kv << 8) | (ae256_t) k[i];
    for (i = AE_NPUB - 1; i >= 0; i--) nv = (nv << 8) | (ae256_t) n[i];
    st = __CPROVER_uninterpreted_aegis_init(kv, nv);
    for (i = 0; i < AE_NS; i++) for (j = 0; j < 16; j++) S[i].b[j] = (uint8_t) (st >> (128 * i + 8 * j));
}
static void abs_fin(const blk *S, uint8_t tag[32], uint64_t adlen, uint64_t mlen)
{
    aest_t  st = 0;
    ae256_t t;
    int     i, j;
    for (i = AE_NS - 1; i >= 0; i--) for (j = 15; j >= 0; j--) st = (st << 8) | (aest_t) S[i].b[j];
    t = __CPROVER_uninterpreted_aegis_fin(st, adlen, mlen);
    for (i = 0; i < 32; i++) tag[i] = (uint8_t) (t >> (8 * i));
}
#  define AE_INIT abs_init
#  define AE_FIN abs_fin
# endif
#endif
#ifndef AE_INIT
# define AE_INIT ae_init
# define AE_FIN ae_finalize
#endif

/* whole AEAD; dec = 0: c = Enc(m); dec = 1: out = Dec(in) ; tag = 32-byte tag */
static void
spec_aegis(int dec, uint8_t *out, uint8_t tag[32], const uint8_t *in, size_t len, const uint8_t *ad, size_t adlen,
           const uint8_t *npub, const uint8_t *k)
{
    blk     S[AE_NS];
    uint8_t z[AE_RATE], pad[AE_RATE], x[AE_RATE];
    size_t  i, j;
    AE_INIT(S, k, npub);
    for (i = 0; i + AE_RATE <= adlen; i += AE_RATE) ae_absorb(S, ad + i);
    if (adlen % AE_RATE) {
        memset(pad, 0, AE_RATE);
        memcpy(pad, ad + i, adlen % AE_RATE);
        ae_absorb(S, pad);
    }
    for (i = 0; i < len; i += AE_RATE) {
        size_t n = len - i < AE_RATE ? len - i : AE_RATE;
        ae_z(S, z);
        memset(x, 0, AE_RATE);
        for (j = 0; j < n; j++) {
            out[i + j] = in[i + j] ^ z[j];
            x[j] = dec ? out[i + j] : in[i + j];   /* plaintext block, zero padded */
        }
        ae_update_msg(S, x);
    }
    AE_FIN(S, tag, adlen, len);
}
#endif
