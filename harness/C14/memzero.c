/* C14: sodium_memzero zeroes exactly [p+off, p+off+len) and nothing else */
#include "verif.h"
#include "utils.h"

#ifndef N
# define N 24
#endif

struct IN {
    uint8_t  buf[N];
    uint32_t off, len, probe;
};

VERIF_MAIN
{
    VERIF_INPUT(struct IN, in);
    uint8_t w[N];

    ASSUME(in.off <= N && in.len <= N - in.off && in.probe < N);
    memcpy(w, in.buf, N);
    sodium_memzero(w + in.off, in.len);
    if (in.probe >= in.off && in.probe < in.off + in.len) {
        CHECK(w[in.probe] == 0, "sodium_memzero: byte inside the range is zero");
    } else {
        CHECK(w[in.probe] == in.buf[in.probe], "sodium_memzero: byte outside the range untouched");
    }
    sodium_stackzero(in.len);
    WITNESS();
}
