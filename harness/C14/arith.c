/* C14: sodium_increment / sodium_add / sodium_sub = little-endian arithmetic
 * modulo 2^(8*LEN) for the concrete length LEN (enumerated by the registry),
 * all operand values.  Spec: one wide bit-vector addition/subtraction. */
#include "verif.h"
#include "utils.h"

#ifndef LEN
# define LEN 12
#endif
#define BUFN (LEN > 0 ? LEN : 1)

struct IN {
    uint8_t a[BUFN];
    uint8_t b[BUFN];
};

#ifdef REPLAY
/* native reference: schoolbook byte arithmetic */
static void
ref_add(uint8_t *r, const uint8_t *a, const uint8_t *b, int sub, int one)
{
    int      i;
    unsigned c = sub ? 1 : 0;
    for (i = 0; i < LEN; i++) {
        unsigned bb = one ? (i == 0 ? 1u : 0u) : b[i];
        unsigned t  = a[i] + (sub ? (0xffu ^ bb) : bb) + c;
        r[i]        = (uint8_t) t;
        c           = t >> 8;
    }
}
#else
typedef unsigned __CPROVER_bitvector[8 * BUFN] wide_t;
static wide_t
to_wide(const uint8_t *p)
{
    wide_t v = 0;
    int    i;
    for (i = LEN - 1; i >= 0; i--) {
# if LEN > 1
        v = (v << 8) | (wide_t) p[i];
# else
        v = (wide_t) p[i];
# endif
    }
    return v;
}
static void
from_wide(uint8_t *r, wide_t v)
{
    int i;
    for (i = 0; i < LEN; i++) {
        r[i] = (uint8_t) (v & 0xff);
# if LEN > 1
        v >>= 8;
# endif
    }
}
static void
ref_add(uint8_t *r, const uint8_t *a, const uint8_t *b, int sub, int one)
{
    wide_t A = to_wide(a), B = one ? (wide_t) 1 : to_wide(b);
    from_wide(r, sub ? (wide_t) (A - B) : (wide_t) (A + B));
}
#endif

VERIF_MAIN
{
    VERIF_INPUT(struct IN, in);
    uint8_t x[BUFN], r[BUFN], b0[BUFN];

    memcpy(b0, in.b, BUFN);

    memcpy(x, in.a, BUFN);
    sodium_increment(x, LEN);
    ref_add(r, in.a, in.b, 0, 1);
    CHECK(v_eq(x, r, LEN), "sodium_increment = a + 1 mod 2^(8 len)");

    memcpy(x, in.a, BUFN);
    sodium_add(x, in.b, LEN);
    ref_add(r, in.a, in.b, 0, 0);
    CHECK(v_eq(x, r, LEN), "sodium_add = a + b mod 2^(8 len)");

    memcpy(x, in.a, BUFN);
    sodium_sub(x, in.b, LEN);
    ref_add(r, in.a, in.b, 1, 0);
    CHECK(v_eq(x, r, LEN), "sodium_sub = a - b mod 2^(8 len)");

    CHECK(v_eq(b0, in.b, BUFN), "second operand unchanged");
    WITNESS();
}
