/* C14: sodium_memcmp / sodium_is_zero / sodium_compare are exact for every
 * length 0..N (symbolic) and all contents. */
#include "verif.h"
#include "utils.h"

#ifndef N
# define N 72
#endif

struct IN {
    uint8_t  a[N];
    uint8_t  b[N];
    uint32_t len;
};

VERIF_MAIN
{
    VERIF_INPUT(struct IN, in);
    size_t len = in.len, i;
    int    eq = 1, zero = 1, ord = 0;

    ASSUME(len <= N);
    for (i = 0; i < len; i++) {
        if (in.a[i] != in.b[i]) {
            eq = 0;
        }
        if (in.a[i] != 0) {
            zero = 0;
        }
    }
    /* little-endian numeric order: the most significant differing byte decides */
    for (i = len; i-- > 0;) {
        if (ord == 0 && in.a[i] != in.b[i]) {
            ord = in.a[i] < in.b[i] ? -1 : 1;
        }
    }
    CHECK(sodium_memcmp(in.a, in.b, len) == (eq ? 0 : -1), "sodium_memcmp: 0 iff equal else -1");
    CHECK(sodium_is_zero(in.a, len) == zero, "sodium_is_zero: 1 iff all bytes zero");
    CHECK(sodium_compare(in.a, in.b, len) == ord, "sodium_compare: little-endian order -1/0/1");
    WITNESS();
}
