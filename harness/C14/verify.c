/* C14: crypto_verify_16/32/64 return 0 iff equal, -1 otherwise (all contents) */
#include "verif.h"
#include "crypto_verify_16.h"
#include "crypto_verify_32.h"
#include "crypto_verify_64.h"

struct IN {
    uint8_t x[64];
    uint8_t y[64];
};

VERIF_MAIN
{
    VERIF_INPUT(struct IN, in);
    int e16 = v_eq(in.x, in.y, 16), e32 = v_eq(in.x, in.y, 32), e64 = v_eq(in.x, in.y, 64);

    CHECK(crypto_verify_16(in.x, in.y) == (e16 ? 0 : -1), "crypto_verify_16 exact");
    CHECK(crypto_verify_32(in.x, in.y) == (e32 ? 0 : -1), "crypto_verify_32 exact");
    CHECK(crypto_verify_64(in.x, in.y) == (e64 ? 0 : -1), "crypto_verify_64 exact");
    WITNESS();
}
