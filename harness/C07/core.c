/* C07 (G): crypto_core_ed25519 / crypto_scalarmult_ed25519 drivers (real code)
 * over the abstract group / scalar field:
 *  PART 0 scalar add/sub/negate/complement: the 64-byte value handed to the
 *         reduction is x+y, x+(-y), L*2^256 - s, 1 + L*2^256 - s (all == the
 *         mathematical result mod L); reduce/mul/invert/is_canonical wrappers;
 *  PART 1 is_valid_point / add / sub: validation order and error returns;
 *  PART 2 scalarmult (clamp / noclamp / base): validation, clamping, identity
 *         result and zero scalar => -1;
 *  PART 3 random point / random scalar: derived only from served random bytes,
 *         rejection loop (bounded to 2 draws). */
#include "verif.h"
#include "ideal_ed25519.h"
#include "rng.h"
#include "misuse.h"
#include "crypto_core_ed25519.h"
#include "crypto_scalarmult_ed25519.h"

struct IN {
    uint8_t x[32], y[32], p[32], q[32];
    uint8_t nr[64];
    uint8_t rng[64];
};
typedef unsigned __CPROVER_bitvector[512] w512_t;

#ifndef REPLAY
static w512_t
w_of(const uint8_t *b, int n)
{
    w512_t v = 0;
    int    i;
    for (i = n - 1; i >= 0; i--) v = (v << 8) | (w512_t) b[i];
    return v;
}
static void
w_to(uint8_t out[64], w512_t v)
{
    int i;
    for (i = 0; i < 64; i++) out[i] = (uint8_t) (v >> (8 * i));
}
#endif
static const uint8_t Lb[32] = { 0xed, 0xd3, 0xf5, 0x5c, 0x1a, 0x63, 0x12, 0x58, 0xd6, 0x9c, 0xf7, 0xa2, 0xde, 0xf9, 0xde, 0x14,
                                0, 0, 0, 0, 0, 0, 0, 0, 0, 0, 0, 0, 0, 0, 0, 0x10 };

VERIF_MAIN
{
    VERIF_INPUT(struct IN, in);
    uint8_t z[32], e[32], t64[64];
    int     r;
    verif_misuse_expected = 0;
#if PART == 0
# ifndef REPLAY
    {
        w512_t X = w_of(in.x, 32), Y = w_of(in.y, 32), L = w_of(Lb, 32), NEGY;
        /* inputs reduced, as the documentation of add/sub requires */
        ASSUME(X < L && Y < L);
        crypto_core_ed25519_scalar_add(z, in.x, in.y);
        w_to(t64, X + Y);
        ied_sc_reduce(e, t64);
        CHECK(v_eq(z, e, 32), "scalar_add = reduce(x + y)");
        crypto_core_ed25519_scalar_negate(z, in.x);
        w_to(t64, (L << 256) - X);
        ied_sc_reduce(e, t64);
        CHECK(v_eq(z, e, 32), "scalar_negate = reduce(L*2^256 - x)  (== -x mod L)");
        crypto_core_ed25519_scalar_complement(z, in.x);
        w_to(t64, (L << 256) + 1 - X);
        ied_sc_reduce(e, t64);
        CHECK(v_eq(z, e, 32), "scalar_complement = reduce(1 + L*2^256 - x)  (== 1 - x mod L)");
        /* sub = add(x, negate(y)) */
        w_to(t64, (L << 256) - Y);
        ied_sc_reduce(e, t64);
        NEGY = w_of(e, 32);
        crypto_core_ed25519_scalar_sub(z, in.x, in.y);
        w_to(t64, (X + NEGY) & ((((w512_t) 1) << 256) - 1)); /* the driver adds the 32-byte values */
        ied_sc_reduce(e, t64);
        CHECK(v_eq(z, e, 32), "scalar_sub = reduce(x + reduce(L*2^256 - y))");
    }
# endif
    crypto_core_ed25519_scalar_reduce(z, in.nr);
    ied_sc_reduce(e, in.nr);
    CHECK(v_eq(z, e, 32), "scalar_reduce = sc25519_reduce on all 64 bytes");
    crypto_core_ed25519_scalar_mul(z, in.x, in.y);
    ied_sc_mul(e, in.x, in.y);
    CHECK(v_eq(z, e, 32), "scalar_mul = sc25519_mul");
    r = crypto_core_ed25519_scalar_invert(z, in.x);
    ied_sc_invert(e, in.x);
    {
        int zero = 1, i;
        for (i = 0; i < 32; i++) if (in.x[i]) zero = 0;
        CHECK(v_eq(z, e, 32) && r == (zero ? -1 : 0), "scalar_invert = sc25519_invert, -1 for the zero scalar");
    }
    CHECK(crypto_core_ed25519_scalar_is_canonical(in.x) == ied_sc_is_canonical(in.x), "scalar_is_canonical wrapper");
#elif PART == 1
    {
        int valid = ied_ge_is_canonical(in.p) && ied_decode_ok(in.p) && ied_on_curve_enc(in.p) &&
                    !ied_small_order_enc(in.p, 0) && ied_main_subgroup_enc(in.p);
        int okpq = ied_decode_ok(in.p) && ied_on_curve_enc(in.p) && ied_decode_ok(in.q) && ied_on_curve_enc(in.q);
        CHECK(crypto_core_ed25519_is_valid_point(in.p) == valid, "is_valid_point <=> canonical, decodes, on curve, not small order, in the main subgroup");
        r = crypto_core_ed25519_add(z, in.p, in.q);
        CHECK((r == 0) == okpq && (r == 0 || r == -1), "add fails exactly when an operand does not decode to a curve point");
        if (r == 0) { ied_addsub_bytes(e, in.p, in.q, 0); CHECK(v_eq(z, e, 32), "add = encode(P + Q)"); }
        r = crypto_core_ed25519_sub(z, in.p, in.q);
        CHECK((r == 0) == okpq, "sub fails exactly when an operand does not decode to a curve point");
        if (r == 0) { ied_addsub_bytes(e, in.p, in.q, 1); CHECK(v_eq(z, e, 32), "sub = encode(P - Q)"); }
        (void) t64;
    }
#elif PART == 2
    {
        uint8_t t[32];
        int     okp = ied_ge_is_canonical(in.p) && ied_decode_ok(in.p) && !ied_small_order_enc(in.p, 0) && ied_main_subgroup_enc(in.p);
        int     nz = 0, i, inf;
        for (i = 0; i < 32; i++) if (in.x[i]) nz = 1;
        memcpy(t, in.x, 32);
# if CLAMP
        t[0] &= 248; t[31] |= 64;
# endif
        t[31] &= 127;
# if CLAMP
        r = crypto_scalarmult_ed25519(z, in.x, in.p);
# else
        r = crypto_scalarmult_ed25519_noclamp(z, in.x, in.p);
# endif
        ied_scalarmult_bytes(e, t, in.p);
        inf = e[0] == 1 && (e[31] & 0x7f) == 0;
        for (i = 1; i < 31; i++) if (e[i]) inf = 0;
        if (!okp) {
            CHECK(r == -1, "scalarmult rejects non-canonical / undecodable / small-order / off-subgroup points");
        } else {
            CHECK(v_eq(z, e, 32), "scalarmult = encode((clamped?) n mod 2^255 * P)");
            CHECK((r == 0) == (!inf && nz), "scalarmult reports -1 exactly for an identity result or the all-zero scalar");
        }
        /* base-point forms */
# if CLAMP
        r = crypto_scalarmult_ed25519_base(z, in.x);
# else
        r = crypto_scalarmult_ed25519_base_noclamp(z, in.x);
# endif
        ied_base_mult_bytes(e, t);
        inf = e[0] == 1 && (e[31] & 0x7f) == 0;
        for (i = 1; i < 31; i++) if (e[i]) inf = 0;
        CHECK(v_eq(z, e, 32), "scalarmult_base = encode((clamped?) n mod 2^255 * B)");
        CHECK((r == 0) == (!inf && nz) && (r == 0 || r == -1), "scalarmult_base reports -1 exactly for an identity result or the all-zero scalar");
        (void) t64;
    }
#else
    {
        verif_rng_src = in.rng; verif_rng_cap = 64; verif_rng_pos = 0; verif_rng_nreq = 0;
        crypto_core_ed25519_random(z);
        ied_from_uniform(e, in.rng);
        CHECK(verif_rng_pos == 32 && v_eq(z, e, 32), "random point = from_uniform(32 bytes from the random source)");
        /* scalar_random: first draw accepted or second draw accepted (bound: 2 draws) */
        verif_rng_pos = 0; verif_rng_nreq = 0;
        {
            uint8_t d1[32], d2[32];
            int     ok1, ok2, i, z1 = 1, z2 = 1;
            memcpy(d1, in.rng, 32); d1[31] &= 0x1f;
            memcpy(d2, in.rng + 32, 32); d2[31] &= 0x1f;
            for (i = 0; i < 32; i++) { if (d1[i]) z1 = 0; if (d2[i]) z2 = 0; }
            ok1 = ied_sc_is_canonical(d1) && !z1;
            ok2 = ied_sc_is_canonical(d2) && !z2;
            ASSUME(ok1 || ok2);
            crypto_core_ed25519_scalar_random(z);
            CHECK(v_eq(z, ok1 ? d1 : d2, 32), "random scalar = first drawn 32-byte string (top 3 bits cleared) that is canonical and non-zero");
            CHECK(verif_rng_pos == (ok1 ? 32 : 64), "rejected draws are discarded, nothing beyond the accepted draw is consumed");
        }
        (void) t64; (void) r;
    }
#endif
    WITNESS();
}
