/* C07 (K): the decision ge25519_is_on_main_subgroup() takes on L * P.
 * ge25519_mul_l (the fixed addition chain; "returns L * P" is the E2 obligation limb-ed25519-scalarmult-alg-opmull) is
 * replaced -- goto-instrument --replace-calls -- by a stub that returns an ARBITRARY representation of L * P of one of
 * three kinds; the real predicate must answer 1 exactly when L * P is the neutral element, i.e. X = 0 and Y = Z:
 *   kind 0: X != 0 (mod p)             -- not the neutral element (Y, Z, T arbitrary)
 *   kind 1: X == 0, Y == Z (Z != 0)     -- the neutral element (0 : Z : Z)
 *   kind 2: X == 0, Y == -Z (Z != 0)    -- the point (0, -1) of order 2: P has order 2L (or 2), NOT in the main subgroup
 * On the curve -x^2 + y^2 = 1 + d x^2 y^2, x = 0 forces y^2 = 1, so kinds 1 and 2 are all the curve points with X == 0.
 * Field elements come from arbitrary 32-byte strings through the real fe25519_frombytes (all values below 2^255,
 * including the non-canonical representations p .. 2^255-1), so "== 0 (mod p)" means the string is 0 or p. */
#include "verif.h"
#include "private/ed25519_ref10.h"

struct IN {
    uint8_t xb[32], yb[32], zb[32], tb[32];
    uint8_t kind, xp;
    ge25519_p3 p;
};

static struct IN *gin;

static int
is_zero_mod_p(const uint8_t s[32])
{
    /* value of bits 0..254 is 0 or p = 2^255 - 19 */
    int i, z = 1, isp;
    for (i = 0; i < 32; i++) {
        z &= (i == 31 ? (s[i] & 0x7f) : s[i]) == 0;
    }
    isp = s[0] == 0xed && (s[31] & 0x7f) == 0x7f;
    for (i = 1; i < 31; i++) {
        isp &= s[i] == 0xff;
    }
    return z | isp;
}

void
stub_mul_l(ge25519_p3 *r, const ge25519_p3 *p)
{
    static const uint8_t P_BYTES[32] = { 0xed, 0xff, 0xff, 0xff, 0xff, 0xff, 0xff, 0xff, 0xff, 0xff, 0xff, 0xff, 0xff, 0xff, 0xff, 0xff,
                                         0xff, 0xff, 0xff, 0xff, 0xff, 0xff, 0xff, 0xff, 0xff, 0xff, 0xff, 0xff, 0xff, 0xff, 0xff, 0x7f };
    static const uint8_t Z_BYTES[32] = { 0 };

    (void) p;
    fe25519_frombytes(r->T, gin->tb);
    fe25519_frombytes(r->Z, gin->zb);
    if (gin->kind == 0) {
        fe25519_frombytes(r->X, gin->xb);
        fe25519_frombytes(r->Y, gin->yb);
    } else {
        fe25519_frombytes(r->X, gin->xp ? P_BYTES : Z_BYTES);   /* both representations of 0 */
        if (gin->kind == 1) {
            fe25519_copy(r->Y, r->Z);
        } else {
            fe25519_neg(r->Y, r->Z);
        }
    }
}

VERIF_MAIN
{
    VERIF_INPUT(struct IN, in);
    int r;

    gin = &in;
    ASSUME(in.kind <= 2);
    ASSUME(in.xp <= 1);
    if (in.kind == 0) {
        ASSUME(!is_zero_mod_p(in.xb));
    } else {
        ASSUME(!is_zero_mod_p(in.zb));
    }
    r = ge25519_is_on_main_subgroup(&in.p);
    CHECK(r == 0 || r == 1, "the predicate returns 0 or 1");
    /* one assertion per kind, so that a recorded finding names exactly the case that fails */
    CHECK(in.kind != 0 || r == 0, "main-subgroup test refuses P when L * P has X != 0");
    CHECK(in.kind != 1 || r == 1, "main-subgroup test accepts P when L * P is the neutral element (0 : Z : Z)");
    CHECK(in.kind != 2 || r == 0, "main-subgroup test refuses P when L * P = (0, -1), i.e. P of order 2L or 2 (X = 0 but Y = -Z)");
    if (in.kind == 0) { WITNESS_AT("L*P with X != 0"); }
    if (in.kind == 1) { WITNESS_AT("L*P neutral"); }
    if (in.kind == 2) { WITNESS_AT("L*P = (0,-1)"); }
    WITNESS();
}
