/* C07 (K): canonicity predicates of the real ed25519_ref10.c, all 256 input
 * bits symbolic: sc25519_is_canonical(s) <=> s < L; ge25519_is_canonical(s)
 * <=> (s mod 2^255) < p; the identity test of the scalarmult driver. */
#include "verif.h"
#include "private/ed25519_ref10.h"

struct IN {
    uint8_t s[32];
};

VERIF_MAIN
{
    VERIF_INPUT(struct IN, in);
    typedef unsigned __CPROVER_bitvector[256] w_t;
    w_t v = 0, L, p;
    int i;
    for (i = 31; i >= 0; i--) v = (v << 8) | (w_t) in.s[i];
    /* L = 2^252 + 27742317777372353535851937790883648493 */
    L = ((w_t) 1 << 252) + (((w_t) 0x14def9dea2f79cd6ULL << 64) | (w_t) 0x5812631a5cf5d3edULL);
    p = ((w_t) 1 << 255) - 19;
    CHECK((sc25519_is_canonical(in.s) != 0) == (v < L), "sc25519_is_canonical(s) <=> s < L");
    CHECK((ge25519_is_canonical(in.s) != 0) == ((v & (((w_t) 1 << 255) - 1)) < p), "ge25519_is_canonical(s) <=> y = s mod 2^255 < p");
    if (v >= L && v < L + 8) { WITNESS_AT("scalar just above L"); }
    WITNESS();
}
