/* C07 (K): canonicity predicates of the real ed25519_ref10.c, all 256 input
 * bits symbolic: sc25519_is_canonical(s) <=> s < L; ge25519_is_canonical(s)
 * <=> (s mod 2^255) < p; the identity test of the scalarmult driver. */
#include "verif.h"
#include "private/ed25519_ref10.h"

struct IN {
    uint8_t s[32];
};

/* a < b for 32-byte little-endian integers (plain C, so that the native replay uses the same oracle) */
static int
lt_le32(const uint8_t a[32], const uint8_t b[32])
{
    int i, lt = 0, decided = 0;
    for (i = 31; i >= 0; i--) {
        if (!decided && a[i] != b[i]) {
            lt = a[i] < b[i];
            decided = 1;
        }
    }
    return lt;
}

VERIF_MAIN
{
    VERIF_INPUT(struct IN, in);
    /* L = 2^252 + 27742317777372353535851937790883648493, p = 2^255 - 19, little endian */
    static const uint8_t L[32] = { 0xed, 0xd3, 0xf5, 0x5c, 0x1a, 0x63, 0x12, 0x58, 0xd6, 0x9c, 0xf7, 0xa2, 0xde, 0xf9, 0xde, 0x14,
                                   0, 0, 0, 0, 0, 0, 0, 0, 0, 0, 0, 0, 0, 0, 0, 0x10 };
    static const uint8_t P[32] = { 0xed, 0xff, 0xff, 0xff, 0xff, 0xff, 0xff, 0xff, 0xff, 0xff, 0xff, 0xff, 0xff, 0xff, 0xff, 0xff,
                                   0xff, 0xff, 0xff, 0xff, 0xff, 0xff, 0xff, 0xff, 0xff, 0xff, 0xff, 0xff, 0xff, 0xff, 0xff, 0x7f };
    uint8_t y[32];
    int     i;
    for (i = 0; i < 32; i++) y[i] = in.s[i];
    y[31] &= 0x7f;
    CHECK((sc25519_is_canonical(in.s) != 0) == lt_le32(in.s, L), "sc25519_is_canonical(s) <=> s < L");
    CHECK((ge25519_is_canonical(in.s) != 0) == lt_le32(y, P), "ge25519_is_canonical(s) <=> y = s mod 2^255 < p");
    if (!lt_le32(in.s, L) && in.s[31] == 0x10 && in.s[0] < 0xf5 && in.s[1] == 0xd3) { WITNESS_AT("scalar just above L"); }
    WITNESS();
}
