/* C07 (G): crypto_core_ristretto255 / crypto_scalarmult_ristretto255 drivers
 * (real code) over the abstract group with an abstract Ristretto encoding
 * layer (decode, validity, encode, hash-to-group are uninterpreted functions):
 *  PART 0 is_valid_point <=> the encoding decodes; add / sub return -1 <=>
 *         either operand is invalid, otherwise encode(P +- Q);
 *  PART 1 scalarmult: -1 <=> invalid point or all-zero (identity) result; the
 *         scalar is used with bit 255 cleared and NOT clamped; base variant;
 *  PART 2 from_hash / random: element = map(64 bytes), random draws exactly 64
 *         bytes from the installed source; scalar_* wrappers = ed25519 ones. */
#include "verif.h"
#include "ideal_ed25519.h"
#include "rng.h"
#include "misuse.h"
#include "crypto_core_ristretto255.h"
#include "crypto_core_ed25519.h"
#include "crypto_scalarmult_ristretto255.h"

struct IN {
    uint8_t p[32], q[32], n[32];
    uint8_t h[64];
    uint8_t rng[64];
};

static int
all_zero(const uint8_t *b, int n)
{
    int     i;
    uint8_t d = 0;
    for (i = 0; i < n; i++) d |= b[i];
    return d == 0;
}

VERIF_MAIN
{
    VERIF_INPUT(struct IN, in);
    uint8_t z[32], e[32], t[32];
    int     r;
    verif_misuse_expected = 0;
#if PART == 0
    CHECK(crypto_core_ristretto255_is_valid_point(in.p) == ied_ris_decode_ok(in.p), "is_valid_point <=> the encoding decodes to a group element");
    memset(z, 0x5a, 32);
    r = crypto_core_ristretto255_add(z, in.p, in.q);
    CHECK((r == -1) == (!ied_ris_decode_ok(in.p) || !ied_ris_decode_ok(in.q)), "add fails <=> an operand is not a valid encoding");
    CHECK(r == 0 || r == -1, "add returns 0 or -1");
    if (r == 0) {
        ied_ris_addsub_bytes(e, in.p, in.q, 0);
        CHECK(v_eq(z, e, 32), "add = encode(decode(p) + decode(q))");
        WITNESS_AT("add accepted");
    }
    r = crypto_core_ristretto255_sub(z, in.p, in.q);
    CHECK((r == -1) == (!ied_ris_decode_ok(in.p) || !ied_ris_decode_ok(in.q)), "sub fails <=> an operand is not a valid encoding");
    if (r == 0) {
        ied_ris_addsub_bytes(e, in.p, in.q, 1);
        CHECK(v_eq(z, e, 32), "sub = encode(decode(p) - decode(q))");
    } else {
        WITNESS_AT("sub rejected");
    }
#elif PART == 1
    memcpy(t, in.n, 32);
    t[31] &= 127;
    r = crypto_scalarmult_ristretto255(z, in.n, in.p);
    ied_ris_scalarmult_bytes(e, t, in.p);
    CHECK((r == -1) == (!ied_ris_decode_ok(in.p) || all_zero(e, 32)), "scalarmult fails <=> invalid point or identity result");
    CHECK(r == 0 || r == -1, "scalarmult returns 0 or -1");
    if (r == 0) {
        CHECK(v_eq(z, e, 32), "scalarmult = encode((n mod 2^255) * decode(p)), no clamping");
        WITNESS_AT("scalarmult accepted");
    }
    r = crypto_scalarmult_ristretto255_base(z, in.n);
    ied_ris_base_mult_bytes(e, t);
    CHECK((r == -1) == all_zero(e, 32), "scalarmult_base fails <=> identity result");
    CHECK(v_eq(z, e, 32), "scalarmult_base = encode((n mod 2^255) * B)");
    if (r == -1) {
        WITNESS_AT("base identity rejected");
    }
#else
    verif_rng_src = in.rng; verif_rng_cap = 64; verif_rng_pos = 0; verif_rng_nreq = 0;
    CHECK(crypto_core_ristretto255_from_hash(z, in.h) == 0, "from_hash returns 0");
    ied_ris_from_hash(e, in.h);
    CHECK(v_eq(z, e, 32), "from_hash = map(h)");
    crypto_core_ristretto255_random(z);
    CHECK(verif_rng_pos == 64, "random element draws exactly 64 bytes from the installed source");
    ied_ris_from_hash(e, in.rng);
    CHECK(v_eq(z, e, 32), "random element = map(the 64 served bytes)");
    CHECK(crypto_core_ristretto255_scalar_is_canonical(in.n) == crypto_core_ed25519_scalar_is_canonical(in.n), "scalar_is_canonical");
    crypto_core_ristretto255_scalar_add(z, in.p, in.q);
    crypto_core_ed25519_scalar_add(e, in.p, in.q);
    CHECK(v_eq(z, e, 32), "scalar_add = ed25519 scalar_add");
    crypto_core_ristretto255_scalar_sub(z, in.p, in.q);
    crypto_core_ed25519_scalar_sub(e, in.p, in.q);
    CHECK(v_eq(z, e, 32), "scalar_sub");
    crypto_core_ristretto255_scalar_mul(z, in.p, in.q);
    crypto_core_ed25519_scalar_mul(e, in.p, in.q);
    CHECK(v_eq(z, e, 32), "scalar_mul");
    crypto_core_ristretto255_scalar_negate(z, in.p);
    crypto_core_ed25519_scalar_negate(e, in.p);
    CHECK(v_eq(z, e, 32), "scalar_negate");
    crypto_core_ristretto255_scalar_complement(z, in.p);
    crypto_core_ed25519_scalar_complement(e, in.p);
    CHECK(v_eq(z, e, 32), "scalar_complement");
    crypto_core_ristretto255_scalar_reduce(z, in.h);
    crypto_core_ed25519_scalar_reduce(e, in.h);
    CHECK(v_eq(z, e, 32), "scalar_reduce");
    CHECK(crypto_core_ristretto255_scalar_invert(z, in.p) == crypto_core_ed25519_scalar_invert(e, in.p) && v_eq(z, e, 32), "scalar_invert");
#endif
    WITNESS();
}
