/* C07 (G): hash-to-group glue over an abstract SHA-256 / SHA-512 and abstract maps:
 *  PART 0 core_h2c_string_to_hash == RFC 9380 5.3.1 expand_message_xmd(msg, DST = ctx, len): b_0 = H(Z_pad || msg ||
 *         I2OSP(len, 2) || 0 || DST'), b_1 = H(b_0 || 1 || DST'), b_i = H((b_0 xor b_{i-1}) || i || DST'), DST' = DST ||
 *         I2OSP(|DST|, 1), a DST longer than 255 bytes replaced by H("H2C-OVERSIZE-DST-" || DST); unknown hash -> -1 / EINVAL;
 *  PART 1 crypto_core_ed25519_from_string (NU: one 48-byte big-endian field element -> map) and _from_string_ro (RO: two
 *         elements, sum of the two mapped points); crypto_core_ristretto255_from_string(_ro) (64 uniform bytes -> map).
 * HALG 1 = SHA-256, 2 = SHA-512; HLEN, CTXLEN (0 = NULL context), MLEN concrete; message bytes symbolic, context a concrete string. */
#include <errno.h>
#include "verif.h"
#include "ideal_hash.h"
#include "ideal_ed25519.h"
#include "rng.h"
#include "misuse.h"
#include "crypto_core_ed25519.h"
#include "crypto_core_ristretto255.h"
#include "crypto_core/ed25519/core_h2c.h"

#ifndef HALG
# define HALG 2
#endif
#if HALG == 1
# define HB 32
# define SB 64
# define IDH IDEAL_SHA256
#else
# define HB 64
# define SB 128
# define IDH IDEAL_SHA512
#endif
#ifndef HLEN
# define HLEN 48
#endif
#define MB (MLEN > 0 ? MLEN : 1)
#define CB (CTXLEN > 0 ? CTXLEN : 1)

struct IN {
    uint8_t m[MB];
    uint8_t ctx[CB];
    int32_t alg;
};

static void
spec_xmd(uint8_t *out, size_t len, const uint8_t *ctx, size_t ctxlen, const uint8_t *msg, size_t mlen)
{
    uint8_t buf[SB + MLEN + 3 + 256 + 1 + 32], dst[HB > CTXLEN ? HB + 1 : CTXLEN + 1], b0[HB], bi[HB], x[HB];
    size_t  dl = ctxlen, n, i, j, ell = (len + HB - 1) / HB;
    if (ctxlen > 255) {
        uint8_t big[17 + CB];
        memcpy(big, "H2C-OVERSIZE-DST-", 17);
        memcpy(big + 17, ctx, ctxlen);
        ideal_hash(IDH, dst, HB, big, 17 + ctxlen, NULL, 0, NULL, NULL);
        dl = HB;
    } else if (ctxlen) {
        memcpy(dst, ctx, ctxlen);
    }
    dst[dl] = (uint8_t) dl;                              /* DST' = DST || I2OSP(len(DST), 1) */
    memset(buf, 0, SB);                                   /* Z_pad */
    n = SB;
    if (mlen) memcpy(buf + n, msg, mlen);
    n += mlen;
    buf[n++] = (uint8_t) (len >> 8); buf[n++] = (uint8_t) len; buf[n++] = 0;
    memcpy(buf + n, dst, dl + 1); n += dl + 1;
    ideal_hash(IDH, b0, HB, buf, n, NULL, 0, NULL, NULL);
    memset(bi, 0, HB);
    for (i = 1; i <= ell; i++) {
        for (j = 0; j < HB; j++) x[j] = b0[j] ^ bi[j];
        memcpy(buf, x, HB);
        buf[HB] = (uint8_t) i;
        memcpy(buf + HB + 1, dst, dl + 1);
        ideal_hash(IDH, bi, HB, buf, HB + 1 + dl + 1, NULL, 0, NULL, NULL);
        memcpy(out + (i - 1) * HB, bi, len - (i - 1) * HB >= HB ? HB : len - (i - 1) * HB);
    }
}

VERIF_MAIN
{
    VERIF_INPUT(struct IN, in);
    char    ctxs[CB + 1];
    uint8_t h[HLEN + 1], sh[HLEN + HB];
    int     i, r;
    verif_misuse_expected = 0;
    /* the context (domain separation tag) is a concrete string: its length is found with strlen(), and a symbolic
     * length makes every later hash update a symbolic-length copy (no verdict in 20 min); the message is symbolic */
    for (i = 0; i < CTXLEN; i++) { in.ctx[i] = (uint8_t) ('A' + i % 26); ctxs[i] = (char) in.ctx[i]; }
    ctxs[CTXLEN] = 0;
#if PART == 0
    h[HLEN] = 0x77;
    ideal_hash_count = 0;
    r = core_h2c_string_to_hash(h, HLEN, CTXLEN ? ctxs : NULL, in.m, MLEN, HALG);
    ideal_hash_count = 0;
    spec_xmd(sh, HLEN, in.ctx, CTXLEN, in.m, MLEN);
    CHECK(r == 0 && v_eq(h, sh, HLEN), "string_to_hash = RFC 9380 expand_message_xmd");
    CHECK(h[HLEN] == 0x77, "exactly len bytes written");
    ASSUME(in.alg != 1 && in.alg != 2);
    errno = 0;
    CHECK(core_h2c_string_to_hash(h, HLEN, CTXLEN ? ctxs : NULL, in.m, MLEN, in.alg) == -1 && errno == EINVAL, "unknown hash algorithm: -1 / EINVAL");
#else
    {
        uint8_t p[32], e[32], e2[32], u[64], ub[96], q[32];
        int     j;
        /* NU: 48 uniform bytes, big endian -> little endian, zero-extended to 64, mapped */
        ideal_hash_count = 0;
        r = crypto_core_ed25519_from_string(p, CTXLEN ? ctxs : NULL, in.m, MLEN, HALG);
        ideal_hash_count = 0;
        spec_xmd(ub, 48, in.ctx, CTXLEN, in.m, MLEN);
        memset(u, 0, 64);
        for (j = 0; j < 48; j++) u[j] = ub[47 - j];
        ied_from_hash(e, u);
        CHECK(r == 0 && v_eq(p, e, 32), "from_string (NU) = map(OS2IP(expand_message_xmd(msg, ctx, 48)))");
        /* RO: two elements, the mapped points are added */
        ideal_hash_count = 0;
        r = crypto_core_ed25519_from_string_ro(p, CTXLEN ? ctxs : NULL, in.m, MLEN, HALG);
        ideal_hash_count = 0;
        spec_xmd(ub, 96, in.ctx, CTXLEN, in.m, MLEN);
        memset(u, 0, 64);
        for (j = 0; j < 48; j++) u[j] = ub[47 - j];
        ied_from_hash(e, u);
        for (j = 0; j < 48; j++) u[j] = ub[95 - j];
        ied_from_hash(e2, u);
        CHECK(r == crypto_core_ed25519_add(q, e, e2) && (r != 0 || v_eq(p, q, 32)), "from_string_ro (RO) = map(u0) + map(u1) with u0 || u1 = expand_message_xmd(msg, ctx, 96)");
        /* Ristretto255: 64 uniform bytes */
        ideal_hash_count = 0;
        r = crypto_core_ristretto255_from_string(p, CTXLEN ? ctxs : NULL, in.m, MLEN, HALG);
        ideal_hash_count = 0;
        spec_xmd(u, 64, in.ctx, CTXLEN, in.m, MLEN);
        ied_ris_from_hash(e, u);
        CHECK(r == 0 && v_eq(p, e, 32), "ristretto255 from_string = map(expand_message_xmd(msg, ctx, 64))");
        ideal_hash_count = 0;
        r = crypto_core_ristretto255_from_string_ro(q, CTXLEN ? ctxs : NULL, in.m, MLEN, HALG);
        CHECK(r == 0 && v_eq(q, e, 32), "ristretto255 from_string_ro = from_string");
    }
#endif
    WITNESS();
}
