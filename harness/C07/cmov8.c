/* C07 (K): constant-time table look-ups of the Ed25519 scalar multiplications (real ed25519_ref10.c, included):
 * for every table content and every digit b in -8..8,
 *   ge25519_cmov8(t, tab, b)        = neutral (1, 1, 0) if b = 0, tab[|b|-1] if b > 0, its negation (y-x, y+x, -2dxy) if b < 0;
 *   ge25519_cmov8_cached(t, tab, b) = neutral (1, 1, 1, 0) / tab[|b|-1] / (Y-X, Y+X, Z, -2dT).
 * fe25519_neg itself is decided by E2 limb mode. */
#include "verif.h"
#include "misuse.h"
#include "crypto_core/ed25519/ref10/ed25519_ref10.c"

struct IN {
    uint64_t tab[8][4][5];
    int8_t   b;
};

static int
fe_eq(const fe25519 a, const fe25519 b)
{
    int i, ok = 1;
    for (i = 0; i < 5; i++) ok &= a[i] == b[i];
    return ok;
}

VERIF_MAIN
{
    VERIF_INPUT(struct IN, in);
    int i, j, k, babs;
    fe25519 one, zero, neg;
    ASSUME(in.b >= -8 && in.b <= 8);
    babs = in.b < 0 ? -in.b : in.b;
    fe25519_1(one);
    fe25519_0(zero);
#if CACHED
    {
        ge25519_cached tab[8], t, e;
        for (i = 0; i < 8; i++) for (k = 0; k < 5; k++) {
            tab[i].YplusX[k] = in.tab[i][0][k]; tab[i].YminusX[k] = in.tab[i][1][k]; tab[i].Z[k] = in.tab[i][2][k]; tab[i].T2d[k] = in.tab[i][3][k];
        }
        ge25519_cmov8_cached(&t, tab, in.b);
        if (babs == 0) {
            fe25519_copy(e.YplusX, one); fe25519_copy(e.YminusX, one); fe25519_copy(e.Z, one); fe25519_copy(e.T2d, zero);
        } else {
            e = tab[babs - 1];
        }
        if (in.b < 0) {
            fe25519 tmp;
            fe25519_copy(tmp, e.YplusX); fe25519_copy(e.YplusX, e.YminusX); fe25519_copy(e.YminusX, tmp);
            fe25519_neg(neg, e.T2d); fe25519_copy(e.T2d, neg);
            WITNESS_AT("negative digit");
        }
        CHECK(fe_eq(t.YplusX, e.YplusX) && fe_eq(t.YminusX, e.YminusX) && fe_eq(t.Z, e.Z) && fe_eq(t.T2d, e.T2d),
              "cmov8_cached selects b * P from the table (neutral for 0, negated entry for b < 0)");
    }
#else
    {
        ge25519_precomp tab[8], t, e;
        for (i = 0; i < 8; i++) for (k = 0; k < 5; k++) {
            tab[i].yplusx[k] = in.tab[i][0][k]; tab[i].yminusx[k] = in.tab[i][1][k]; tab[i].xy2d[k] = in.tab[i][2][k];
        }
        ge25519_cmov8(&t, tab, in.b);
        if (babs == 0) {
            fe25519_copy(e.yplusx, one); fe25519_copy(e.yminusx, one); fe25519_copy(e.xy2d, zero);
        } else {
            e = tab[babs - 1];
        }
        if (in.b < 0) {
            fe25519 tmp;
            fe25519_copy(tmp, e.yplusx); fe25519_copy(e.yplusx, e.yminusx); fe25519_copy(e.yminusx, tmp);
            fe25519_neg(neg, e.xy2d); fe25519_copy(e.xy2d, neg);
            WITNESS_AT("negative digit");
        }
        CHECK(fe_eq(t.yplusx, e.yplusx) && fe_eq(t.yminusx, e.yminusx) && fe_eq(t.xy2d, e.xy2d),
              "cmov8 selects b * P from the table (neutral for 0, negated entry for b < 0)");
    }
#endif
    (void) j;
    WITNESS();
}
