/* C01: secretbox (XSalsa20 / XChaCha20 variants): detached, easy, NaCl
 * zero-padded forms agree with the specification and round-trip. */
#ifndef MLEN
# define MLEN 33
#endif
#include "secretbox_spec.h"
#include "misuse.h"
#define MB (MLEN > 0 ? MLEN : 1)

struct IN {
    uint8_t k[32];
    uint8_t n[24];
    uint8_t m[MB];
};

VERIF_MAIN
{
    VERIF_INPUT(struct IN, in);
    uint8_t sc[MB], smac[16], c1[MB], mac1[16], c2[MLEN + 16], m2[MB], m3[MB];

    verif_misuse_expected = 0;
    spec_secretbox(sc, smac, in.m, MLEN, in.n, in.k);

    CHECK(SB_DETACHED(c1, mac1, in.m, MLEN, in.n, in.k) == 0, "secretbox_detached returns 0");
    CHECK(v_eq(c1, sc, MLEN), "secretbox_detached: c = m XOR keystream[32..] (message starts at byte 32 of block 0)");
    CHECK(v_eq(mac1, smac, 16), "secretbox_detached: tag = Poly1305(keystream[0..32], c)");
    CHECK(SB_EASY(c2, in.m, MLEN, in.n, in.k) == 0, "secretbox_easy returns 0");
    CHECK(v_eq(c2, mac1, 16) && v_eq(c2 + 16, c1, MLEN), "easy form = tag || detached ciphertext");
    CHECK(SB_OPEN_EASY(m2, c2, MLEN + 16, in.n, in.k) == 0, "open_easy(easy(m)) succeeds");
    CHECK(v_eq(m2, in.m, MLEN), "open_easy(easy(m)) = m");
    CHECK(SB_OPEN_DETACHED(m3, c1, mac1, MLEN, in.n, in.k) == 0, "open_detached(detached(m)) succeeds");
    CHECK(v_eq(m3, in.m, MLEN), "open_detached(detached(m)) = m");
#if SBVAR == 0
    {
        /* NaCl form: 32 zero bytes before m, 16 zero bytes before the boxed output */
        uint8_t mp[MLEN + 32], cp[MLEN + 32], mq[MLEN + 32];
        int     i, z = 1;
        memset(mp, 0, 32);
        memcpy(mp + 32, in.m, MLEN);
        CHECK(crypto_secretbox(cp, mp, MLEN + 32, in.n, in.k) == 0, "NaCl crypto_secretbox returns 0");
        for (i = 0; i < 16; i++) if (cp[i] != 0) z = 0;
        CHECK(z, "NaCl form: 16 leading zero bytes");
        CHECK(v_eq(cp + 16, c2, MLEN + 16), "NaCl zero-padded form = easy form byte for byte");
        CHECK(crypto_secretbox_open(mq, cp, MLEN + 32, in.n, in.k) == 0, "NaCl crypto_secretbox_open succeeds");
        CHECK(v_eq(mq, mp, MLEN + 32), "NaCl open returns 32 zero bytes || m");
        CHECK(crypto_secretbox(cp, mp, 31, in.n, in.k) == -1, "NaCl form rejects mlen < 32");
    }
#endif
    WITNESS();
}
