/* C01: ChaCha20-Poly1305 (original / IETF / XChaCha20) glue == specification,
 * all call forms agree, decrypt(encrypt(m)) = m.  MLEN, ADLEN concrete. */
#ifndef VARIANT
# define VARIANT 1
#endif
#ifndef MLEN
# define MLEN 17
#endif
#ifndef ADLEN
# define ADLEN 5
#endif
#include "aead_chacha_spec.h"
#include "misuse.h"
#define MB (MLEN > 0 ? MLEN : 1)
#define AB (ADLEN > 0 ? ADLEN : 1)

struct IN {
    uint8_t k[32];
    uint8_t npub[NPUB];
    uint8_t m[MB];
    uint8_t ad[AB];
};

VERIF_MAIN
{
    VERIF_INPUT(struct IN, in);
    uint8_t            sc[MB], smac[16];
    uint8_t            c1[MB], mac1[16], c2[MLEN + 16], m2[MB], m3[MB];
    unsigned long long maclen = 99, clen = 99, mlen2 = 99;

    verif_misuse_expected = 0;
    spec_encrypt(sc, smac, in.m, MLEN, in.ad, ADLEN, in.npub, in.k);

    CHECK(ENC_DET(c1, mac1, &maclen, in.m, MLEN, in.ad, ADLEN, NULL, in.npub, in.k) == 0, "encrypt_detached returns 0");
    CHECK(maclen == 16, "encrypt_detached: maclen = ABYTES");
    CHECK(v_eq(c1, sc, MLEN), "encrypt_detached: ciphertext = m XOR keystream from block 1 (spec)");
    CHECK(v_eq(mac1, smac, 16), "encrypt_detached: tag = Poly1305(one-time key from block 0, spec MAC input)");
#ifndef REPLAY
    {
        uint8_t macin[SPEC_MACIN_MAX];
        size_t  n = spec_macin(macin, sc, MLEN, in.ad, ADLEN);
        CHECK(ideal_macs[0].len == n && v_eq(ideal_macs[0].data, macin, n), "MAC input layout (ad, padding, ciphertext, padding, length block)");
    }
#endif
    CHECK(ENC(c2, &clen, in.m, MLEN, in.ad, ADLEN, NULL, in.npub, in.k) == 0, "encrypt returns 0");
    CHECK(clen == MLEN + 16, "encrypt: clen = mlen + ABYTES");
    CHECK(v_eq(c2, c1, MLEN) && v_eq(c2 + MLEN, mac1, 16), "combined form = detached ciphertext || tag");

    CHECK(DEC(m2, &mlen2, NULL, c2, clen, in.ad, ADLEN, in.npub, in.k) == 0, "decrypt(encrypt(m)) succeeds");
    CHECK(mlen2 == MLEN, "decrypt: reported length = mlen");
    CHECK(v_eq(m2, in.m, MLEN), "decrypt(encrypt(m)) = m");
    CHECK(DEC_DET(m3, NULL, c1, MLEN, mac1, in.ad, ADLEN, in.npub, in.k) == 0, "decrypt_detached succeeds");
    CHECK(v_eq(m3, in.m, MLEN), "decrypt_detached(encrypt_detached(m)) = m");
    WITNESS();
}
