/* C01 + C02: AEGIS-256 / AEGIS-128L portable implementation (real
 * aegis*_soft.c + aegis*_common.h, included so that the static phases can be
 * cut, + public wrappers) over an abstract AES round:
 *  PART 0  encrypt(_detached) == draft-irtf-cfrg-aegis-aead, combined ==
 *          detached, decrypt(encrypt(m)) == m        (Init/Finalize abstract)
 *  PART 1  decryption of an ARBITRARY ciphertext: accept <=> tag delta == 0;
 *          zero-filled output and mlen = 0 on rejection; NULL-output mode;
 *          short input                               (Init/Finalize abstract)
 *  PART 2  the real Init == spec Init (all keys / nonces)
 *  PART 3  the real Finalize == spec Finalize from an arbitrary state, 128-
 *          and 256-bit tags, all lengths
 * MLEN, ADLEN concrete. */
#ifndef AEGIS
# define AEGIS 256
#endif
#ifndef MLEN
# define MLEN 17
#endif
#ifndef ADLEN
# define ADLEN 5
#endif
#if PART == 0 || PART == 1
# define AEGIS_ABSTRACT_INIT_MAC
#endif
#include "aegis_spec.h"
#include "misuse.h"
#include "crypto_aead_aegis256.h"
#include "crypto_aead_aegis128l.h"
#if AEGIS == 256
# define A_(x) crypto_aead_aegis256_##x
# include "crypto_aead/aegis256/aegis256_soft.c"
# define REAL_INIT aegis256_init
# define REAL_MAC aegis256_mac
#else
# define A_(x) crypto_aead_aegis128l_##x
# include "crypto_aead/aegis128l/aegis128l_soft.c"
# define REAL_INIT aegis128l_init
# define REAL_MAC aegis128l_mac
#endif
#define MB (MLEN > 0 ? MLEN : 1)
#define AB (ADLEN > 0 ? ADLEN : 1)

static void
blk2soft(aes_block_t *d, const blk *s, int n)
{
    int i;
    for (i = 0; i < n; i++) d[i] = softaes_block_load(s[i].b);
}
static void
soft2blk(blk *d, const aes_block_t *s, int n)
{
    int i;
    for (i = 0; i < n; i++) softaes_block_store(d[i].b, s[i]);
}
#ifdef AEGIS_ABSTRACT_INIT_MAC
/* installed over the static aegis*_init / aegis*_mac with goto-instrument --replace-calls (CBMC mode only) */
void
cut_init(const uint8_t *key, const uint8_t *nonce, aes_block_t *const state)
{
    blk S[AE_NS];
    AE_INIT(S, key, nonce);
    blk2soft(state, S, AE_NS);
}
int
cut_mac(uint8_t *mac, size_t maclen, uint64_t adlen, uint64_t mlen, aes_block_t *const state)
{
    blk     S[AE_NS];
    uint8_t t[32];
    soft2blk(S, state, AE_NS);
    CHECK(maclen == 32, "libsodium's AEGIS API uses the 256-bit tag");
    AE_FIN(S, t, adlen, mlen);
    memcpy(mac, t, 32);
    return 0;
}
#endif

struct IN {
    uint8_t  k[AE_KEYB], npub[AE_NPUB];
    uint8_t  m[MB], ad[AB];
    uint8_t  c[MB], tag_delta[32], fill[MB];
    uint8_t  st[AE_NS][16];
    uint64_t adlen, mlen;
};

VERIF_MAIN
{
    VERIF_INPUT(struct IN, in);
    uint8_t            sc[MB], stag[32], c1[MB], mac1[32], c2[MLEN + 32], m2[MB];
    unsigned long long maclen = 9, clen = 9, mlen2 = 9;
    int                i, dz = 1, ret, zeroed = 1;

    verif_misuse_expected = 0;
#if PART == 0
    spec_aegis(0, sc, stag, in.m, MLEN, in.ad, ADLEN, in.npub, in.k);
    CHECK(A_(encrypt_detached)(c1, mac1, &maclen, in.m, MLEN, in.ad, ADLEN, NULL, in.npub, in.k) == 0 && maclen == 32, "encrypt_detached returns 0, maclen 32");
    CHECK(v_eq(c1, sc, MLEN), "ciphertext = spec (keystream word from the state, block by block, zero-padded tail)");
    CHECK(v_eq(mac1, stag, 32), "tag = Finalize(state after absorbing ad and message, adlen, mlen)");
    CHECK(A_(encrypt)(c2, &clen, in.m, MLEN, in.ad, ADLEN, NULL, in.npub, in.k) == 0 && clen == MLEN + 32, "combined encrypt");
    CHECK(v_eq(c2, c1, MLEN) && v_eq(c2 + MLEN, mac1, 32), "combined = detached ciphertext || tag");
    CHECK(A_(decrypt)(m2, &mlen2, NULL, c2, clen, in.ad, ADLEN, in.npub, in.k) == 0 && mlen2 == MLEN && v_eq(m2, in.m, MLEN), "decrypt(encrypt(m)) = m");
#elif PART == 1
    {
        uint8_t cin[MLEN + 32], mexp[MB], mout[MB];
        memcpy(cin, in.c, MLEN);
        spec_aegis(1, mexp, stag, cin, MLEN, in.ad, ADLEN, in.npub, in.k);
        for (i = 0; i < 32; i++) {
            cin[MLEN + i] = stag[i] ^ in.tag_delta[i];
            if (in.tag_delta[i]) dz = 0;
        }
        memcpy(mout, in.fill, MB);
        ret = A_(decrypt)(mout, &mlen2, NULL, cin, MLEN + 32, in.ad, ADLEN, in.npub, in.k);
        CHECK((ret == 0) == dz && (ret == 0 || ret == -1), "accepted <=> all 32 presented tag bytes equal the recomputed tag");
        if (ret == 0) {
            CHECK(mlen2 == MLEN && v_eq(mout, mexp, MLEN), "plaintext = spec decryption");
            WITNESS_AT("accept");
        } else {
            for (i = 0; i < MLEN; i++) if (mout[i] != 0) zeroed = 0;
            CHECK(mlen2 == 0, "mlen = 0 on rejection");
            CHECK(zeroed, "on rejection the whole output is zero-filled (the unauthenticated plaintext was written there before the tag check)");
            WITNESS_AT("reject");
        }
        CHECK((A_(decrypt_detached)(NULL, NULL, cin, MLEN, cin + MLEN, in.ad, ADLEN, in.npub, in.k) == 0) == dz, "m == NULL verify-only mode: same verdict");
        CHECK(A_(decrypt)(mout, &mlen2, NULL, cin, 31, in.ad, ADLEN, in.npub, in.k) == -1 && mlen2 == 0, "input shorter than the tag rejected");
    }
#elif PART == 2
    {
        blk         S[AE_NS], G[AE_NS];
        aes_block_t st[AE_NS];
        ae_init(S, in.k, in.npub);
        REAL_INIT(in.k, in.npub, st);
        soft2blk(G, st, AE_NS);
        for (i = 0; i < AE_NS; i++) CHECK(v_eq(G[i].b, S[i].b, 16), "Init: state after initialisation = spec (constants, key/nonce placement, number and order of updates)");
    }
#else
    {
        blk         S[AE_NS];
        aes_block_t st[AE_NS];
        uint8_t     t16[16], t32[32], x16[16];
        for (i = 0; i < AE_NS; i++) memcpy(S[i].b, in.st[i], 16);
        blk2soft(st, S, AE_NS);
        ASSUME(in.adlen < (1ULL << 61) && in.mlen < (1ULL << 61));
        ae_finalize(S, stag, in.adlen, in.mlen);
        CHECK(REAL_MAC(t32, 32, in.adlen, in.mlen, st) == 0 && v_eq(t32, stag, 32), "Finalize (256-bit tag) = spec: length block (adlen, mlen in bits, little endian), 7 updates, tag folding");
        /* 128-bit tag = XOR of all state words after the same updates */
        blk2soft(st, (const blk *) in.st, AE_NS);
        CHECK(REAL_MAC(t16, 16, in.adlen, in.mlen, st) == 0, "Finalize (128-bit tag) returns 0");
        memset(x16, 0, 16);
# if AEGIS == 256
        for (i = 0; i < 6; i++) { int j; for (j = 0; j < 16; j++) x16[j] ^= S[i].b[j]; }
# else
        for (i = 0; i < 7; i++) { int j; for (j = 0; j < 16; j++) x16[j] ^= S[i].b[j]; }
# endif
        CHECK(v_eq(t16, x16, 16), "Finalize (128-bit tag) = XOR of the state words per the draft");
    }
#endif
    (void) sc; (void) c1; (void) mac1; (void) c2; (void) m2; (void) maclen; (void) clen; (void) dz; (void) ret; (void) zeroed; (void) i; (void) stag; (void) mlen2;
    WITNESS();
}
