/* C01 (+C05 box precomputation): crypto_box / sealed boxes, both cipher
 * variants: beforenm = H*Salsa20/ChaCha20(0^16, X25519(sk, pk)); easy,
 * detached, afternm and NaCl forms agree with the secretbox specification
 * under that key; recipients open what senders box (given DH commutativity);
 * sealed box = epk || box(m, nonce = BLAKE2b-24(epk || pk), pk, esk). */
#ifndef MLEN
# define MLEN 17
#endif
#ifndef SBVAR
# define SBVAR 0
#endif
#ifndef PART
# define PART 1 /* 1 sender forms, 2 recipient round trips, 3 NaCl padded form, 4 sealed box */
#endif
#include "secretbox_spec.h"
#include "ideal_dh.h"
#include "ideal_hash.h"
#include "rng.h"
#include "misuse.h"
#include "crypto_box.h"
#include "crypto_box_curve25519xchacha20poly1305.h"
#define MB (MLEN > 0 ? MLEN : 1)

#if SBVAR == 0
# define BOX_BEFORENM crypto_box_beforenm
# define BOX_EASY crypto_box_easy
# define BOX_EASY_AFTERNM crypto_box_easy_afternm
# define BOX_DETACHED crypto_box_detached
# define BOX_OPEN_EASY crypto_box_open_easy
# define BOX_OPEN_EASY_AFTERNM crypto_box_open_easy_afternm
# define BOX_OPEN_DETACHED crypto_box_open_detached
# define BOX_DETACHED_AFTERNM crypto_box_detached_afternm
# define BOX_OPEN_DETACHED_AFTERNM crypto_box_open_detached_afternm
# define BOX_SEAL crypto_box_seal
# define BOX_SEAL_OPEN crypto_box_seal_open
# define BOX_KEYPAIR crypto_box_keypair
#else
# define BOX_BEFORENM crypto_box_curve25519xchacha20poly1305_beforenm
# define BOX_EASY crypto_box_curve25519xchacha20poly1305_easy
# define BOX_EASY_AFTERNM crypto_box_curve25519xchacha20poly1305_easy_afternm
# define BOX_DETACHED crypto_box_curve25519xchacha20poly1305_detached
# define BOX_OPEN_EASY crypto_box_curve25519xchacha20poly1305_open_easy
# define BOX_OPEN_EASY_AFTERNM crypto_box_curve25519xchacha20poly1305_open_easy_afternm
# define BOX_OPEN_DETACHED crypto_box_curve25519xchacha20poly1305_open_detached
# define BOX_DETACHED_AFTERNM crypto_box_curve25519xchacha20poly1305_detached_afternm
# define BOX_OPEN_DETACHED_AFTERNM crypto_box_curve25519xchacha20poly1305_open_detached_afternm
# define BOX_SEAL crypto_box_curve25519xchacha20poly1305_seal
# define BOX_SEAL_OPEN crypto_box_curve25519xchacha20poly1305_seal_open
# define BOX_KEYPAIR crypto_box_curve25519xchacha20poly1305_keypair
#endif

struct IN {
    uint8_t sk_a[32], sk_b[32];
    uint8_t n[24];
    uint8_t m[MB];
    uint8_t rng[32];
};

static int
spec_beforenm(uint8_t k[32], const uint8_t pk[32], const uint8_t sk[32])
{
    static const uint8_t zero[16] = { 0 };
    uint8_t              s[32];
    if (ideal_dh(s, sk, pk) != 0) {
        return -1;
    }
#if SBVAR == 0
    ideal_hsalsa20(k, zero, s, NULL);
#else
    ideal_hchacha20(k, zero, s, NULL);
#endif
    return 0;
}

VERIF_MAIN
{
    VERIF_INPUT(struct IN, in);
    uint8_t pk_a[32], pk_b[32], k[32], k1[32], sc[MB], smac[16];
    uint8_t c1[MLEN + 16], c2[MLEN + 16], cd[MB], macd[16], m2[MB], m3[MB];
    int     r;

    verif_misuse_expected = 0;
    ideal_dh_base(pk_a, in.sk_a);
    ideal_dh_base(pk_b, in.sk_b);
    ideal_dh_assume_commutes(in.sk_a, in.sk_b);

#if PART != 4
    r = BOX_EASY(c1, in.m, MLEN, in.n, pk_b, in.sk_a);
    if (spec_beforenm(k, pk_b, in.sk_a) != 0) {
        CHECK(r == -1, "box_easy fails when X25519 reports an all-zero shared point");
        CHECK(BOX_BEFORENM(k1, pk_b, in.sk_a) == -1, "beforenm fails when X25519 fails");
    } else {
        CHECK(r == 0, "box_easy returns 0");
        spec_secretbox(sc, smac, in.m, MLEN, in.n, k);
        CHECK(v_eq(c1, smac, 16) && v_eq(c1 + 16, sc, MLEN), "box_easy = secretbox(m, n, H(0^16, X25519(sk, pk)))");
        CHECK(BOX_BEFORENM(k1, pk_b, in.sk_a) == 0 && v_eq(k1, k, 32), "beforenm = HSalsa20/HChaCha20(0^16, X25519(sk, pk))");
#if PART == 1
        CHECK(BOX_EASY_AFTERNM(c2, in.m, MLEN, in.n, k1) == 0 && v_eq(c2, c1, MLEN + 16), "afternm o beforenm = direct form");
        CHECK(BOX_DETACHED(cd, macd, in.m, MLEN, in.n, pk_b, in.sk_a) == 0 && v_eq(cd, c1 + 16, MLEN) && v_eq(macd, c1, 16), "detached form = easy form");
        memset(cd, 0, sizeof cd); memset(macd, 0, sizeof macd);
        CHECK(BOX_DETACHED_AFTERNM(cd, macd, in.m, MLEN, in.n, k1) == 0 && v_eq(cd, c1 + 16, MLEN) && v_eq(macd, c1, 16), "detached_afternm form = easy form");
#elif PART == 2
        /* recipient side */
        CHECK(BOX_OPEN_EASY(m2, c1, MLEN + 16, in.n, pk_a, in.sk_b) == 0, "recipient opens the box (shared secrets agree)");
        CHECK(v_eq(m2, in.m, MLEN), "open_easy(box_easy(m)) = m");
        CHECK(BOX_OPEN_DETACHED(m3, c1 + 16, c1, MLEN, in.n, pk_a, in.sk_b) == 0 && v_eq(m3, in.m, MLEN), "open_detached round trip");
        CHECK(BOX_OPEN_EASY_AFTERNM(m3, c1, MLEN + 16, in.n, k1) == 0 && v_eq(m3, in.m, MLEN), "open_easy_afternm round trip");
        memset(m3, 0, sizeof m3);
        CHECK(BOX_OPEN_DETACHED_AFTERNM(m3, c1 + 16, c1, MLEN, in.n, k1) == 0 && v_eq(m3, in.m, MLEN), "open_detached_afternm round trip");
#elif PART == 3 && SBVAR == 0
        {
            uint8_t mp[MLEN + 32], cp[MLEN + 32], mq[MLEN + 32];
            memset(mp, 0, 32);
            memcpy(mp + 32, in.m, MLEN);
            CHECK(crypto_box(cp, mp, MLEN + 32, in.n, pk_b, in.sk_a) == 0, "NaCl crypto_box returns 0");
            CHECK(v_eq(cp + 16, c1, MLEN + 16), "NaCl zero-padded box = easy form");
            CHECK(crypto_box_open(mq, cp, MLEN + 32, in.n, pk_a, in.sk_b) == 0 && v_eq(mq, mp, MLEN + 32), "NaCl box_open round trip");
            {
                uint8_t cp2[MLEN + 32], mq2[MLEN + 32];
                CHECK(crypto_box_afternm(cp2, mp, MLEN + 32, in.n, k1) == 0 && v_eq(cp2, cp, MLEN + 32), "NaCl crypto_box_afternm = crypto_box");
                CHECK(crypto_box_open_afternm(mq2, cp, MLEN + 32, in.n, k1) == 0 && v_eq(mq2, mp, MLEN + 32), "NaCl box_open_afternm round trip");
            }
        }
#endif
    }
#endif
#if PART == 4
    /* sealed box */
    {
        uint8_t cs[MLEN + 48], epk[32], nonce[24], both[64], ke[32], ms[MB];
        verif_rng_src = in.rng; verif_rng_cap = 32; verif_rng_pos = 0; verif_rng_nreq = 0;
        ideal_dh_assume_commutes(in.rng, in.sk_b);
        r = BOX_SEAL(cs, in.m, MLEN, pk_b);
        ideal_dh_base(epk, in.rng);
        memcpy(both, epk, 32);
        memcpy(both + 32, pk_b, 32);
        ideal_hash(IDEAL_BLAKE2B, nonce, 24, both, 64, NULL, 0, NULL, NULL);
        if (spec_beforenm(ke, pk_b, in.rng) != 0) {
            CHECK(r == -1, "seal fails when X25519 fails");
        } else {
            CHECK(r == 0, "seal returns 0");
            CHECK(verif_rng_pos == 32, "seal draws exactly one 32-byte ephemeral secret key from the random source");
            spec_secretbox(sc, smac, in.m, MLEN, nonce, ke);
            CHECK(v_eq(cs, epk, 32), "sealed box starts with the ephemeral public key");
            CHECK(v_eq(cs + 32, smac, 16) && v_eq(cs + 48, sc, MLEN), "sealed box body = box(m, BLAKE2b-24(epk || pk), pk, esk)");
            CHECK(BOX_SEAL_OPEN(ms, cs, MLEN + 48, pk_b, in.sk_b) == 0, "seal_open succeeds");
            CHECK(v_eq(ms, in.m, MLEN), "seal_open(seal(m)) = m");
            CHECK(BOX_SEAL_OPEN(ms, cs, 47, pk_b, in.sk_b) == -1, "seal_open rejects input shorter than SEALBYTES");
        }
    }
#endif
    WITNESS();
}
