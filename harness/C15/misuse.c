/* C15: encoders refuse (sodium_misuse) exactly when the output capacity is too
 * small or the variant is invalid; symbolic 64-bit sizes, encoder loops cut by
 * bin_len <= 4. */
#include "verif.h"
#include "utils.h"
#include "misuse.h"

struct IN {
    uint8_t  bin[4];
    uint64_t bin_len, maxlen;
    int32_t  variant;
    uint8_t  which;
};

VERIF_MAIN
{
    VERIF_INPUT(struct IN, in);
    static char out[16];
    int    valid = in.variant == 1 || in.variant == 3 || in.variant == 5 || in.variant == 7;

    ASSUME(in.bin_len <= 4 && in.maxlen <= 16);
    if (in.which == 0) {
        verif_misuse_expected = in.maxlen <= 2 * in.bin_len;
        sodium_bin2hex(out, in.maxlen, in.bin, in.bin_len);
        MISUSE_MUST_HAVE_FIRED();
    } else if (in.which == 1) {
        size_t need = 0;
        if (valid) {
            need = sodium_base64_ENCODED_LEN(in.bin_len, in.variant);
        }
        verif_misuse_expected = !valid || in.maxlen < need;
        sodium_bin2base64(out, in.maxlen, in.bin, in.bin_len, in.variant);
        MISUSE_MUST_HAVE_FIRED();
    } else {
        verif_misuse_expected = !valid;
        (void) sodium_base64_encoded_len(in.bin_len, in.variant);
        MISUSE_MUST_HAVE_FIRED();
    }
    WITNESS();
}
