/* C15: sodium_base642bin acceptance set, outputs, end pointer and capacity
 * handling equal a reference decoder, for ALL texts of length L (concrete,
 * enumerated) over the full 8-bit alphabet, variant VARIANT (concrete), all
 * capacities 0..CAP, with/without ignore set (<= 2 symbolic characters) and
 * with/without end pointer. */
#include "verif.h"
#include "utils.h"
#include "misuse.h"

#ifndef L
# define L 5
#endif
#ifndef VARIANT
# define VARIANT 1
#endif
#ifndef IGN
# define IGN 1
#endif
#define CAP 8
#define TN (L > 0 ? L : 1)

struct IN {
    char     text[TN];
    char     ig[2];
    uint8_t  maxlen;
    uint8_t  want_end;
    uint8_t  fill[CAP + 2];
};

static int
alpha(unsigned char c, int urlsafe)
{
    if (c >= 'A' && c <= 'Z') return c - 'A';
    if (c >= 'a' && c <= 'z') return c - 'a' + 26;
    if (c >= '0' && c <= '9') return c - '0' + 52;
    if (!urlsafe && c == '+') return 62;
    if (!urlsafe && c == '/') return 63;
    if (urlsafe && c == '-') return 62;
    if (urlsafe && c == '_') return 63;
    return -1;
}

static const char *ign; /* NULL or NUL-terminated */
static int
ignored(char c)
{
    const char *p;
    if (ign == NULL || c == 0) {
        return 0;
    }
    for (p = ign; *p != 0; p++) {
        if (*p == c) return 1;
    }
    return 0;
}

VERIF_MAIN
{
    VERIF_INPUT(struct IN, in);
    char          igs[3];
    unsigned char out[CAP + 2], ref[CAP + 2];
    size_t        bin_len = 12345, maxlen = in.maxlen;
    const char   *end = NULL;
    int           ret, urlsafe = (VARIANT & 4) != 0, padded = (VARIANT & 2) == 0;
    /* reference state */
    size_t   pos = 0, n = 0, sext = 0;
    unsigned acc = 0, nbits = 0;
    int      rret = 0;

    ASSUME(maxlen <= CAP);
    igs[0] = in.ig[0]; igs[1] = in.ig[1]; igs[2] = 0;
    ign = IGN ? igs : NULL;
    memcpy(out, in.fill, sizeof out);
    memcpy(ref, in.fill, sizeof ref);

    verif_misuse_expected = 0;
    ret = sodium_base642bin(out, maxlen, in.text, L, ign, &bin_len,
                            in.want_end ? &end : NULL, VARIANT);

    /* ---- reference decoder ---- */
    while (pos < L) {
        int v = alpha((unsigned char) in.text[pos], urlsafe);
        if (v >= 0) {
            acc = ((acc << 6) | (unsigned) v) & 0xffff;
            nbits += 6;
            sext++;
            if (nbits >= 8) {
                nbits -= 8;
                if (n >= maxlen) { rret = -1; break; }
                ref[n++] = (unsigned char) (acc >> nbits);
            }
            pos++;
        } else if (ignored(in.text[pos])) {
            pos++;
        } else {
            break;
        }
    }
    if ((sext % 4) == 1 || (acc & ((1u << nbits) - 1u)) != 0) {
        rret = -1; /* dangling sextet or non-zero trailing bits */
    } else if (rret == 0 && padded) {
        size_t need = (sext % 4) == 2 ? 2 : (sext % 4) == 3 ? 1 : 0;
        while (need > 0) {
            if (pos >= L) { rret = -1; break; }
            if (in.text[pos] == '=') need--;
            else if (!ignored(in.text[pos])) { rret = -1; break; }
            pos++;
        }
    }
    if (rret == 0 && ign != NULL) {
        while (pos < L && ignored(in.text[pos])) pos++;
    }
    if (!in.want_end && pos != L) {
        rret = -1;
    }
    /* ---- comparison ---- */
    CHECK(ret == rret, "base642bin: accept/reject differs from the reference decoder");
    if (rret == 0) {
        CHECK(bin_len == n, "base642bin: decoded length");
        CHECK(v_eq(out, ref, CAP + 2), "base642bin: decoded bytes / bytes beyond bin_len untouched");
        if (in.want_end) {
            CHECK(end == in.text + pos, "base642bin: end pointer");
        }
    } else {
        /* *bin_len after a failed call is not specified by the documentation: not checked */
        if (in.want_end) {
            CHECK(end >= in.text && end <= in.text + L, "base642bin: end pointer inside the text on failure");
        }
    }
    {
        size_t k;
        for (k = 0; k < CAP + 2; k++) {
            if (k >= maxlen) {
                CHECK(out[k] == in.fill[k], "base642bin: wrote beyond bin_maxlen");
            }
        }
    }
    WITNESS();
}
