/* C15: sodium_hex2bin vs reference decoder; same quantification as b64_decode.c */
#include "verif.h"
#include "utils.h"
#include "misuse.h"

#ifndef L
# define L 5
#endif
#ifndef IGN
# define IGN 1
#endif
#define CAP 6
#define TN (L > 0 ? L : 1)

struct IN {
    char    text[TN];
    char    ig[2];
    uint8_t maxlen;
    uint8_t want_end;
    uint8_t fill[CAP + 2];
};

static int
hexval(unsigned char c)
{
    if (c >= '0' && c <= '9') return c - '0';
    if (c >= 'a' && c <= 'f') return c - 'a' + 10;
    if (c >= 'A' && c <= 'F') return c - 'A' + 10;
    return -1;
}

static const char *ign;
static int
ignored(char c)
{
    const char *p;
    if (ign == NULL || c == 0) return 0;
    for (p = ign; *p != 0; p++) {
        if (*p == c) return 1;
    }
    return 0;
}

VERIF_MAIN
{
    VERIF_INPUT(struct IN, in);
    char          igs[3];
    unsigned char out[CAP + 2], ref[CAP + 2];
    size_t        bin_len = 12345, maxlen = in.maxlen, pos = 0, n = 0, k;
    const char   *end = NULL;
    int           ret, rret = 0, have_hi = 0, hi = 0;

    ASSUME(maxlen <= CAP);
    igs[0] = in.ig[0]; igs[1] = in.ig[1]; igs[2] = 0;
    ign = IGN ? igs : NULL;
    memcpy(out, in.fill, sizeof out);
    memcpy(ref, in.fill, sizeof ref);

    verif_misuse_expected = 0;
    ret = sodium_hex2bin(out, maxlen, in.text, L, ign, &bin_len, in.want_end ? &end : NULL);

    while (pos < L) {
        int v = hexval((unsigned char) in.text[pos]);
        if (v >= 0) {
            if (n >= maxlen) { rret = -1; break; }
            if (!have_hi) { hi = v; have_hi = 1; }
            else { ref[n++] = (unsigned char) (hi * 16 + v); have_hi = 0; }
            pos++;
        } else if (!have_hi && ignored(in.text[pos])) {
            pos++;
        } else {
            break;
        }
    }
    if (have_hi) { rret = -1; pos--; }
    if (!in.want_end && pos != L) rret = -1;

    CHECK(ret == rret, "hex2bin: accept/reject differs from the reference decoder");
    if (rret == 0) {
        CHECK(bin_len == n, "hex2bin: decoded length");
        CHECK(v_eq(out, ref, CAP + 2), "hex2bin: decoded bytes / bytes beyond bin_len untouched");
        if (in.want_end) CHECK(end == in.text + pos, "hex2bin: end pointer");
    } else {
        /* *bin_len after a failed call is not specified by the documentation: not checked */
        if (in.want_end) CHECK(end >= in.text && end <= in.text + L, "hex2bin: end inside text on failure");
    }
    for (k = 0; k < CAP + 2; k++) {
        if (k >= maxlen) CHECK(out[k] == in.fill[k], "hex2bin: wrote beyond bin_maxlen");
    }
    WITNESS();
}
