/* C15: encoders produce the standard text (RFC 4648 alphabets / lower-case hex),
 * NUL-terminated, of the documented length, and decoding returns the input.
 * BINLEN and VARIANT concrete (enumerated); all byte values symbolic. */
#include "verif.h"
#include "utils.h"
#include "misuse.h"

#ifndef BINLEN
# define BINLEN 4
#endif
#ifndef VARIANT
# define VARIANT 1
#endif
#define BN (BINLEN > 0 ? BINLEN : 1)
#define ENC sodium_base64_ENCODED_LEN(BINLEN, VARIANT)
#define SLACK 3

struct IN {
    uint8_t bin[BN];
    uint8_t extra; /* extra capacity 0..SLACK given to the encoder */
};

static const char STD[] = "ABCDEFGHIJKLMNOPQRSTUVWXYZabcdefghijklmnopqrstuvwxyz0123456789+/";
static const char URL[] = "ABCDEFGHIJKLMNOPQRSTUVWXYZabcdefghijklmnopqrstuvwxyz0123456789-_";
static const char HEX[] = "0123456789abcdef";

VERIF_MAIN
{
    VERIF_INPUT(struct IN, in);
    char          b64[ENC + SLACK + 1], hex[2 * BINLEN + 1 + 1];
    unsigned char back[BN];
    const char   *abc = (VARIANT & 4) ? URL : STD;
    size_t        i, o = 0, blen = 777, cap;
    char         *r;

    ASSUME(in.extra <= SLACK);
    cap = ENC + in.extra;
    memset(b64, 0x55, sizeof b64);
    verif_misuse_expected = 0;

    CHECK(sodium_base64_encoded_len(BINLEN, VARIANT) == ENC, "encoded_len function = macro");
    r = sodium_bin2base64(b64, cap, in.bin, BINLEN, VARIANT);
    CHECK(r == b64, "bin2base64 returns its output buffer");
    /* RFC 4648 model, 3 bytes -> 4 characters */
    for (i = 0; i + 3 <= BINLEN; i += 3) {
        uint32_t t = ((uint32_t) in.bin[i] << 16) | ((uint32_t) in.bin[i + 1] << 8) | in.bin[i + 2];
        CHECK(b64[o] == abc[(t >> 18) & 63] && b64[o + 1] == abc[(t >> 12) & 63] &&
              b64[o + 2] == abc[(t >> 6) & 63] && b64[o + 3] == abc[t & 63], "bin2base64: full quantum");
        o += 4;
    }
    if (BINLEN % 3 == 1) {
        uint32_t t = (uint32_t) in.bin[i] << 16;
        CHECK(b64[o] == abc[(t >> 18) & 63] && b64[o + 1] == abc[(t >> 12) & 63], "bin2base64: 1-byte tail");
        o += 2;
        if (!(VARIANT & 2)) {
            CHECK(b64[o] == '=' && b64[o + 1] == '=', "bin2base64: '==' padding");
            o += 2;
        }
    } else if (BINLEN % 3 == 2) {
        uint32_t t = ((uint32_t) in.bin[i] << 16) | ((uint32_t) in.bin[i + 1] << 8);
        CHECK(b64[o] == abc[(t >> 18) & 63] && b64[o + 1] == abc[(t >> 12) & 63] &&
              b64[o + 2] == abc[(t >> 6) & 63], "bin2base64: 2-byte tail");
        o += 3;
        if (!(VARIANT & 2)) {
            CHECK(b64[o] == '=', "bin2base64: '=' padding");
            o += 1;
        }
    }
    CHECK(o == ENC - 1, "documented encoded length (incl. NUL) matches the text produced");
    CHECK(b64[o] == 0, "bin2base64: NUL terminated");
    CHECK(b64[cap] == 0x55, "bin2base64: no write beyond b64_maxlen");
    /* decode back: exact capacity */
    CHECK(sodium_base642bin(back, BINLEN, b64, o, NULL, &blen, NULL, VARIANT) == 0, "base642bin accepts the encoder's output");
    CHECK(blen == BINLEN && v_eq(back, in.bin, BINLEN), "base64 round trip returns the original bytes");
#if BINLEN > 0
    CHECK(sodium_base642bin(back, BINLEN - 1, b64, o, NULL, &blen, NULL, VARIANT) == -1, "base642bin fails (no truncation) when capacity is one short");
#endif

    /* hex */
    memset(hex, 0x55, sizeof hex);
    r = sodium_bin2hex(hex, 2 * BINLEN + 1, in.bin, BINLEN);
    CHECK(r == hex, "bin2hex returns its output buffer");
    for (i = 0; i < BINLEN; i++) {
        CHECK(hex[2 * i] == HEX[in.bin[i] >> 4] && hex[2 * i + 1] == HEX[in.bin[i] & 15], "bin2hex: lower-case digits");
    }
    CHECK(hex[2 * BINLEN] == 0 && hex[2 * BINLEN + 1] == 0x55, "bin2hex: NUL terminated, nothing beyond");
    blen = 777;
    CHECK(sodium_hex2bin(back, BINLEN, hex, 2 * BINLEN, NULL, &blen, NULL) == 0, "hex2bin accepts the encoder's output");
    CHECK(blen == BINLEN && v_eq(back, in.bin, BINLEN), "hex round trip");
#if BINLEN > 0
    CHECK(sodium_hex2bin(back, BINLEN - 1, hex, 2 * BINLEN, NULL, &blen, NULL) == -1, "hex2bin fails when capacity is one short");
#endif
    WITNESS();
}
