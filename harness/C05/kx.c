/* C05 (G): key exchange and seeded key pairs over idealised X25519 / hashes:
 * session keys = BLAKE2b-512(q || client_pk || server_pk) split rx/tx,
 * client rx = server tx and vice versa (DH commutativity assumed), NULL
 * aliasing rules, -1 when X25519 fails (DH_FAIL build); seeded key pairs are
 * the specified deterministic functions of the seed. */
#include "verif.h"
#include "ideal_dh.h"
#include "ideal_hash.h"
#include "misuse.h"
#include "crypto_kx.h"
#include "crypto_box.h"
#include "crypto_box_curve25519xchacha20poly1305.h"

struct IN {
    uint8_t csk[32], ssk[32], seed[32];
    uint8_t mode;
};

VERIF_MAIN
{
    VERIF_INPUT(struct IN, in);
    uint8_t cpk[32], spk[32], q[32], buf[96], keys[64];
    uint8_t crx[32], ctx[32], srx[32], stx[32], only[32];
    int     r;

    verif_misuse_expected = 0;
    ideal_dh_base(cpk, in.csk);
    ideal_dh_base(spk, in.ssk);
    ideal_dh_assume_commutes(in.csk, in.ssk);
    r = crypto_kx_client_session_keys(crx, ctx, cpk, in.csk, spk);
#ifdef DH_FAIL
    CHECK(r == -1, "client_session_keys fails when X25519 fails");
    CHECK(crypto_kx_server_session_keys(srx, stx, spk, in.ssk, cpk) == -1, "server_session_keys fails when X25519 fails");
#else
    CHECK(r == 0, "client_session_keys returns 0");
    CHECK(ideal_dh(q, in.csk, spk) == 0, "shared point");
    memcpy(buf, q, 32); memcpy(buf + 32, cpk, 32); memcpy(buf + 64, spk, 32);
    ideal_hash(IDEAL_BLAKE2B, keys, 64, buf, 96, NULL, 0, NULL, NULL);
    CHECK(v_eq(crx, keys, 32) && v_eq(ctx, keys + 32, 32), "client: rx || tx = BLAKE2b-512(q || client_pk || server_pk)");
    CHECK(crypto_kx_server_session_keys(srx, stx, spk, in.ssk, cpk) == 0, "server_session_keys returns 0");
    CHECK(v_eq(srx, ctx, 32) && v_eq(stx, crx, 32), "session keys are cross-equal: client rx = server tx, client tx = server rx");
    CHECK(crypto_kx_client_session_keys(only, NULL, cpk, in.csk, spk) == 0 && v_eq(only, keys + 32, 32), "tx == NULL: both halves are written to the single buffer in order (tx last)");
    CHECK(crypto_kx_client_session_keys(NULL, only, cpk, in.csk, spk) == 0 && v_eq(only, keys + 32, 32), "rx == NULL: likewise");
    /* seeded key pairs */
    {
        uint8_t pk[32], sk[32], h[64], spk2[32];
        CHECK(crypto_kx_seed_keypair(pk, sk, in.seed) == 0, "kx_seed_keypair returns 0");
        ideal_hash(IDEAL_BLAKE2B, h, 32, in.seed, 32, NULL, 0, NULL, NULL);
        ideal_dh_base(spk2, h);
        CHECK(v_eq(sk, h, 32) && v_eq(pk, spk2, 32), "kx_seed_keypair: sk = BLAKE2b-256(seed), pk = X25519_base(sk)");
        CHECK(crypto_box_seed_keypair(pk, sk, in.seed) == 0, "box_seed_keypair returns 0");
        ideal_hash(IDEAL_SHA512, h, 64, in.seed, 32, NULL, 0, NULL, NULL);
        ideal_dh_base(spk2, h);
        CHECK(v_eq(sk, h, 32) && v_eq(pk, spk2, 32), "box_seed_keypair: sk = SHA-512(seed)[0..32], pk = X25519_base(sk)");
        CHECK(crypto_box_curve25519xchacha20poly1305_seed_keypair(pk, sk, in.seed) == 0 && v_eq(sk, h, 32) && v_eq(pk, spk2, 32), "xchacha20 box_seed_keypair: same derivation");
    }
#endif
    WITNESS();
}
