/* C05 (K): real x25519_ref10.c (included) and the public wrapper:
 *  PART 0: has_small_order(s) = 1 <=> s with bit 255 cleared is one of the 7
 *          listed low-order / non-canonical encodings (all 256 input bits);
 *  PART 1: crypto_scalarmult_curve25519 returns -1 <=> the back end failed or
 *          the 32 output bytes are all zero (back end stubbed, all outputs);
 *  PART 2: fe25519_frombytes ignores bit 255; fe25519_tobytes(frombytes(s))
 *          is the canonical (fully reduced) encoding of s mod p for all s;
 *  PART 3: fe25519_tobytes on ARBITRARY carried limbs (each < 2^52): the bytes are
 *          the canonical encoding of (sum h_i 2^(51 i)) mod p;
 *  PART 4: fe25519_cswap(f, g, b), b in {0, 1}: exchanges f and g iff b = 1, for all limbs. */
#include "verif.h"
#include "misuse.h"
#include "crypto_scalarmult_curve25519.h"
#if PART == 0 || PART == 2 || PART == 3 || PART == 4
# include "crypto_scalarmult/curve25519/ref10/x25519_ref10.c"
#endif

struct IN {
    uint8_t  s[32], q[32], n[32];
    int32_t  ret;
    uint64_t f[5], g[5];
    uint32_t b;
};

#if PART == 1
# include "crypto_scalarmult/curve25519/scalarmult_curve25519.h"
static struct IN *src;
static int
stub_mult(unsigned char *q, const unsigned char *n, const unsigned char *p)
{
    (void) n; (void) p;
    memcpy(q, src->q, 32);
    return src->ret;
}
static int
stub_mult_base(unsigned char *q, const unsigned char *n)
{
    (void) n;
    memcpy(q, src->q, 32);
    return 0;
}
struct crypto_scalarmult_curve25519_implementation crypto_scalarmult_curve25519_ref10_implementation = { stub_mult, stub_mult_base };
struct crypto_scalarmult_curve25519_implementation crypto_scalarmult_curve25519_sandy2x_implementation = { stub_mult, stub_mult_base };
#endif

VERIF_MAIN
{
    VERIF_INPUT(struct IN, in);
    int i;
    verif_misuse_expected = 0;
#if PART == 0
    {
        static const uint8_t list[7][32] = {
            { 0 },
            { 1 },
            { 0xe0, 0xeb, 0x7a, 0x7c, 0x3b, 0x41, 0xb8, 0xae, 0x16, 0x56, 0xe3, 0xfa, 0xf1, 0x9f, 0xc4, 0x6a,
              0xda, 0x09, 0x8d, 0xeb, 0x9c, 0x32, 0xb1, 0xfd, 0x86, 0x62, 0x05, 0x16, 0x5f, 0x49, 0xb8, 0x00 },
            { 0x5f, 0x9c, 0x95, 0xbc, 0xa3, 0x50, 0x8c, 0x24, 0xb1, 0xd0, 0xb1, 0x55, 0x9c, 0x83, 0xef, 0x5b,
              0x04, 0x44, 0x5c, 0xc4, 0x58, 0x1c, 0x8e, 0x86, 0xd8, 0x22, 0x4e, 0xdd, 0xd0, 0x9f, 0x11, 0x57 },
            { 0xec, 0xff, 0xff, 0xff, 0xff, 0xff, 0xff, 0xff, 0xff, 0xff, 0xff, 0xff, 0xff, 0xff, 0xff, 0xff,
              0xff, 0xff, 0xff, 0xff, 0xff, 0xff, 0xff, 0xff, 0xff, 0xff, 0xff, 0xff, 0xff, 0xff, 0xff, 0x7f },
            { 0xed, 0xff, 0xff, 0xff, 0xff, 0xff, 0xff, 0xff, 0xff, 0xff, 0xff, 0xff, 0xff, 0xff, 0xff, 0xff,
              0xff, 0xff, 0xff, 0xff, 0xff, 0xff, 0xff, 0xff, 0xff, 0xff, 0xff, 0xff, 0xff, 0xff, 0xff, 0x7f },
            { 0xee, 0xff, 0xff, 0xff, 0xff, 0xff, 0xff, 0xff, 0xff, 0xff, 0xff, 0xff, 0xff, 0xff, 0xff, 0xff,
              0xff, 0xff, 0xff, 0xff, 0xff, 0xff, 0xff, 0xff, 0xff, 0xff, 0xff, 0xff, 0xff, 0xff, 0xff, 0x7f }
        };
        uint8_t t[32];
        int     member = 0, k;
        memcpy(t, in.s, 32);
        t[31] &= 0x7f;
        for (k = 0; k < 7; k++) {
            if (v_eq(t, list[k], 32)) member = 1;
        }
        CHECK(has_small_order(in.s) == member, "has_small_order = 1 exactly for the 7 low-order / non-canonical encodings, with either top bit");
        if (member) {
            WITNESS_AT("low-order input");
        }
    }
#elif PART == 1
    {
        uint8_t q[32];
        int     zero = 1, r;
        src = &in;
        r = crypto_scalarmult_curve25519(q, in.n, in.s);
        for (i = 0; i < 32; i++) if (in.q[i]) zero = 0;
        CHECK(r == ((in.ret != 0 || zero) ? -1 : 0), "crypto_scalarmult_curve25519 returns -1 iff the back end failed or the shared point is all-zero");
        if (in.ret == 0) CHECK(v_eq(q, in.q, 32), "output is the back end's result");
        CHECK(crypto_scalarmult_curve25519_base(q, in.n) == 0 && v_eq(q, in.q, 32), "base-point form never fails");
    }
#elif PART == 2
    {
        /* 256-bit arithmetic on wide bit-vectors; p = 2^255 - 19 */
        typedef unsigned __CPROVER_bitvector[264] w_t;
        fe25519 h, h2;
        uint8_t out[32], s2[32];
        w_t     v = 0, p = 0, o = 0, r;
        memcpy(s2, in.s, 32);
        s2[31] ^= 0x80;
        fe25519_frombytes(h, in.s);
        fe25519_frombytes(h2, s2);
        for (i = 0; i < (int) (sizeof(fe25519) / sizeof h[0]); i++) CHECK(h[i] == h2[i], "fe25519_frombytes ignores bit 255");
        fe25519_tobytes(out, h);
        for (i = 31; i >= 0; i--) {
            v = (v << 8) | (w_t) (i == 31 ? (in.s[i] & 0x7f) : in.s[i]);
            o = (o << 8) | (w_t) out[i];
        }
        p = ((w_t) 1 << 255) - 19;
        r = v >= p ? v - p : v; /* v < 2^255 < 2p */
        CHECK(o == r, "tobytes(frombytes(s)) = (s mod 2^255) mod p, fully reduced (non-canonical inputs are reduced)");
        CHECK(o < p, "encoding is canonical");
    }
#elif PART == 3
    {
        typedef unsigned __CPROVER_bitvector[264] w_t;
        fe25519 h;
        uint8_t out[32];
        w_t     v = 0, o = 0, p = ((w_t) 1 << 255) - 19, m255 = ((w_t) 1 << 255) - 1;
        for (i = 0; i < 5; i++) {
            ASSUME(in.f[i] < (1ULL << 52));
            h[i] = in.f[i];
            v += (w_t) in.f[i] << (51 * i);
        }
        fe25519_tobytes(out, h);
        for (i = 31; i >= 0; i--) o = (o << 8) | (w_t) out[i];
        v = (v & m255) + 19 * (v >> 255);       /* v < 2^257 */
        v = (v & m255) + 19 * (v >> 255);
        if (v >= p) v -= p;
        CHECK(o == v && o < p, "fe25519_tobytes = canonical encoding of the limb value mod 2^255-19");
    }
#elif PART == 4
    {
        fe25519 f, g;
        ASSUME(in.b <= 1);
        for (i = 0; i < 5; i++) { f[i] = in.f[i]; g[i] = in.g[i]; }
        fe25519_cswap(f, g, in.b);
        for (i = 0; i < 5; i++) {
            CHECK(f[i] == (in.b ? in.g[i] : in.f[i]) && g[i] == (in.b ? in.f[i] : in.g[i]), "fe25519_cswap exchanges the operands iff b = 1");
        }
    }
#endif
    (void) i;
    WITNESS();
}
