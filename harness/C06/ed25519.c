/* C06 (G): the Ed25519 drivers (real keypair.c, sign.c, open.c, sign_ed25519.c)
 * over an abstract group / scalar field / SHA-512:
 *  PART 0 key generation + signing data flow == RFC 8032 5.1.5 / 5.1.6 (plain
 *         and Ed25519ph), determinism, combined form;
 *  PART 1 verification accepts <=> [S canonical (or < 2^252)] and [pk canonical]
 *         and [-A decodes, not small order] and [R decodes, not small order]
 *         and [R - (S*B - h*A) has small order], h = reduce(SHA-512(dom2? ||
 *         R || pk || M)); i.e. no check dropped or applied to the wrong bytes;
 *  PART 2 crypto_sign_open / verify wrappers: lengths, zeroing, mlen;
 *  PART 3 sk_to_curve25519 / multi-part API.
 * MLEN concrete; all bytes symbolic. */
#ifndef MLEN
# define MLEN 17
#endif
#ifndef PH
# define PH 0
#endif
#ifndef SPLIT
# define SPLIT 0
#endif
#include "verif.h"
#include "ideal_hash.h"
#include "ideal_ed25519.h"
#include "rng.h"
#include "misuse.h"
#include "crypto_sign_ed25519.h"
#include "crypto_sign.h"
#include "crypto_sign/ed25519/ref10/sign_ed25519_ref10.h"
#define MB (MLEN > 0 ? MLEN : 1)

static const uint8_t DOM2[34] = { 'S', 'i', 'g', 'E', 'd', '2', '5', '5', '1', '9', ' ', 'n', 'o', ' ', 'E', 'd', '2',
                                  '5', '5', '1', '9', ' ', 'c', 'o', 'l', 'l', 'i', 's', 'i', 'o', 'n', 's', 1, 0 };

struct IN {
    uint8_t seed[32];
    uint8_t m[MB];
    uint8_t sig[64], pk[32];
    uint8_t fill[MB];
};

static void
reset_logs(void)
{
    ideal_hash_count = 0;
}

/* h = reduce(SHA-512(dom2? || a32 || b32 || msg)) */
static void
spec_h3(uint8_t out[32], const uint8_t *a32, const uint8_t *b32, const uint8_t *msg, size_t mlen, int ph)
{
    uint8_t buf[34 + 64 + MLEN + 64], h[64];
    size_t  n = 0;
    if (ph) { memcpy(buf, DOM2, 34); n = 34; }
    memcpy(buf + n, a32, 32); n += 32;
    if (b32) { memcpy(buf + n, b32, 32); n += 32; }
    if (mlen) memcpy(buf + n, msg, mlen);
    n += mlen;
    ideal_hash(IDEAL_SHA512, h, 64, buf, n, NULL, 0, NULL, NULL);
    ied_sc_reduce(out, h);
}

VERIF_MAIN
{
    VERIF_INPUT(struct IN, in);
    verif_misuse_expected = 0;
#if PART == 0
    {
        uint8_t pk[32], sk[64], az[64], a[32], spk[32], sig[64], sig2[64], r[32], R[32], hram[32], S[32], sm[MLEN + 64];
        unsigned long long siglen = 0, smlen = 0;
        reset_logs();
        CHECK(crypto_sign_ed25519_seed_keypair(pk, sk, in.seed) == 0, "seed_keypair returns 0");
        ideal_hash(IDEAL_SHA512, az, 64, in.seed, 32, NULL, 0, NULL, NULL);
        memcpy(a, az, 32);
        a[0] &= 248; a[31] &= 127; a[31] |= 64;
        ied_base_mult_bytes(spk, a);
        CHECK(v_eq(pk, spk, 32), "public key = encode(clamp(SHA-512(seed)[0..32]) * B)");
        CHECK(v_eq(sk, in.seed, 32) && v_eq(sk + 32, spk, 32), "secret key = seed || public key");
        reset_logs();
        CHECK(_crypto_sign_ed25519_detached(sig, &siglen, in.m, MLEN, sk, PH) == 0 && siglen == 64, "sign returns 0, siglen 64");
        spec_h3(r, az + 32, NULL, in.m, MLEN, PH);                 /* r = H(prefix || M) mod L */
        ied_base_mult_bytes(R, r);                                 /* R = r*B */
        spec_h3(hram, R, spk, in.m, MLEN, PH);                     /* h = H(R || A || M) mod L */
        ied_sc_muladd(S, hram, a, r);                              /* S = h*a + r mod L */
        CHECK(v_eq(sig, R, 32), "signature R = encode(r*B), r = SHA-512(dom2? || prefix || M) mod L");
        CHECK(v_eq(sig + 32, S, 32), "signature S = (r + SHA-512(dom2? || R || A || M) * a) mod L with the clamped scalar a");
        reset_logs();
        CHECK(_crypto_sign_ed25519_detached(sig2, NULL, in.m, MLEN, sk, PH) == 0 && v_eq(sig, sig2, 64), "signing is deterministic");
# if PH == 0
        reset_logs();
        CHECK(crypto_sign_ed25519(sm, &smlen, in.m, MLEN, sk) == 0 && smlen == MLEN + 64, "combined sign returns 0, smlen = mlen + 64");
        CHECK(v_eq(sm, sig, 64) && v_eq(sm + 64, in.m, MLEN), "combined form = signature || message");
        reset_logs();
        {
            uint8_t xsk[32];
            CHECK(crypto_sign_ed25519_sk_to_curve25519(xsk, sk) == 0 && v_eq(xsk, a, 32), "sk_to_curve25519 = clamp(SHA-512(seed)[0..32])");
        }
# endif
    }
#elif PART == 1
    {
        uint8_t h[32];
        int     r, want;
        reset_logs();
        r = _crypto_sign_ed25519_verify_detached(in.sig, in.m, MLEN, in.pk, PH);
        spec_h3(h, in.sig, in.pk, in.m, MLEN, PH);
        want = ((in.sig[63] & 240) == 0 || ied_sc_is_canonical(in.sig + 32)) &&
               ied_ge_is_canonical(in.pk) &&
               ied_decode_neg_ok(in.pk) && !ied_small_order_enc(in.pk, 1) &&
               ied_decode_ok(in.sig) && !ied_small_order_enc(in.sig, 0) &&
               ied_check_small(in.sig, h, in.pk, in.sig + 32);
        CHECK((r == 0) == want, "verification accepts <=> canonical S, canonical A, A and R decode and are not of small order, and the cofactored equation holds for h = H(R||A||M) mod L");
        CHECK(r == 0 || r == -1, "verification returns 0 or -1");
        if (want) { WITNESS_AT("accepting path"); } else { WITNESS_AT("rejecting path"); }
    }
#elif PART == 4
    {
        /* multi-part (Ed25519ph) API and key wrappers: init / update(a) / update(rest) / final_create ==
         * pre-hashed signing of SHA-512(m); final_verify <=> pre-hashed verification of SHA-512(m); the generic
         * crypto_sign_* names are the Ed25519 functions; sk_to_seed / sk_to_pk are the halves of the secret key */
        crypto_sign_state st;
        uint8_t            pk[32], sk[64], ph[64], sig[64], sig2[64], seed2[32], pk2[32];
        unsigned long long l1 = 0, l2 = 0;
        int                r, v;
        reset_logs();
        CHECK(crypto_sign_seed_keypair(pk, sk, in.seed) == 0, "keypair");
        CHECK(crypto_sign_ed25519_sk_to_seed(seed2, sk) == 0 && v_eq(seed2, in.seed, 32), "sk_to_seed = first half");
        CHECK(crypto_sign_ed25519_sk_to_pk(pk2, sk) == 0 && v_eq(pk2, pk, 32), "sk_to_pk = second half = public key");
        reset_logs();
        CHECK(crypto_sign_init(&st) == 0, "init");
        CHECK(crypto_sign_update(&st, in.m, SPLIT) == 0, "update");
        CHECK(crypto_sign_update(&st, in.m + SPLIT, MLEN - SPLIT) == 0, "update");
        CHECK(crypto_sign_final_create(&st, sig, &l1, sk) == 0 && l1 == 64, "final_create returns 0, siglen 64");
        ideal_hash(IDEAL_SHA512, ph, 64, in.m, MLEN, NULL, 0, NULL, NULL);
        reset_logs();
        CHECK(_crypto_sign_ed25519_detached(sig2, &l2, ph, 64, sk, 1) == 0 && v_eq(sig, sig2, 64), "multi-part signature = Ed25519ph signature of SHA-512(m)");
        /* verification of an arbitrary presented signature */
        reset_logs();
        crypto_sign_init(&st);
        crypto_sign_update(&st, in.m, MLEN);
        r = crypto_sign_final_verify(&st, in.sig, in.pk);
        reset_logs();
        v = _crypto_sign_ed25519_verify_detached(in.sig, ph, 64, in.pk, 1);
        CHECK(r == v, "final_verify <=> pre-hashed verification of SHA-512(m)");
        /* generic names */
        reset_logs();
        CHECK(crypto_sign_detached(sig2, &l2, in.m, MLEN, sk) == 0, "crypto_sign_detached");
        reset_logs();
        CHECK(crypto_sign_ed25519_detached(sig, &l1, in.m, MLEN, sk) == 0 && v_eq(sig, sig2, 64) && l1 == l2, "crypto_sign_detached = crypto_sign_ed25519_detached");
        reset_logs();
        r = crypto_sign_verify_detached(in.sig, in.m, MLEN, in.pk);
        reset_logs();
        CHECK(r == crypto_sign_ed25519_verify_detached(in.sig, in.m, MLEN, in.pk), "crypto_sign_verify_detached = crypto_sign_ed25519_verify_detached");
    }
#else
    {
        /* crypto_sign_open on an arbitrary signed message */
        uint8_t            sm[MLEN + 64], mout[MB];
        unsigned long long mlen = 777;
        int                r, v, i, z = 1, same = 1;
        memcpy(sm, in.sig, 64);
        memcpy(sm + 64, in.m, MLEN);
        memcpy(mout, in.fill, MB);
        reset_logs();
        v = crypto_sign_ed25519_verify_detached(sm, sm + 64, MLEN, in.pk);
        reset_logs();
        r = crypto_sign_ed25519_open(mout, &mlen, sm, MLEN + 64, in.pk);
        CHECK((r == 0) == (v == 0), "open succeeds <=> the detached verification of (sig, message) succeeds");
        if (r == 0) {
            CHECK(mlen == MLEN && v_eq(mout, in.m, MLEN), "open returns the message and its length");
        } else {
            for (i = 0; i < MLEN; i++) { if (mout[i] != 0) z = 0; if (mout[i] != in.fill[i]) same = 0; }
            CHECK(r == -1 && mlen == 0, "bad signature: -1 and mlen = 0");
            CHECK(z || same, "bad signature: output zeroed or untouched");
        }
        mlen = 777;
        CHECK(crypto_sign_ed25519_open(mout, &mlen, sm, 63, in.pk) == -1 && mlen == 0, "signed message shorter than a signature is rejected");
    }
#endif
    WITNESS();
}
