/* C08 (G): Argon2's variable-length hash H' (blake2b-long.c) == RFC 9106 section 3.3 over an idealised BLAKE2b:
 *   T <= 64: H'(A) = H^T(LE32(T) || A)
 *   T  > 64: r = ceil(T/32) - 2; V1 = H^64(LE32(T) || A); V_i = H^64(V_(i-1)), i = 2..r; V_(r+1) = H^(T-32r)(V_r);
 *            H'(A) = W1 || ... || Wr || V_(r+1), W_i = first 32 bytes of V_i
 * for all input bytes at the enumerated (output length, input length). */
#ifndef OUTLEN
# define OUTLEN 64
#endif
#ifndef INLEN
# define INLEN 5
#endif
#include "verif.h"
#include "ideal_hash.h"
#include "misuse.h"
#include "crypto_pwhash/argon2/blake2b-long.h"

struct IN {
    uint8_t a[INLEN > 0 ? INLEN : 1];
};

VERIF_MAIN
{
    VERIF_INPUT(struct IN, in);
    uint8_t got[OUTLEN + 1], want[OUTLEN + 64], first[4 + INLEN], v[64], w[64];
    int     r, i;

    memset(got, 0xa5, sizeof got);
    r = blake2b_long(got, OUTLEN, in.a, INLEN);
    CHECK(r == 0, "blake2b_long succeeds");
    first[0] = (uint8_t) (OUTLEN & 0xff);
    first[1] = (uint8_t) ((OUTLEN >> 8) & 0xff);
    first[2] = (uint8_t) ((OUTLEN >> 16) & 0xff);
    first[3] = (uint8_t) ((OUTLEN >> 24) & 0xff);
    memcpy(first + 4, in.a, INLEN);
#if OUTLEN <= 64
    ideal_hash(IDEAL_BLAKE2B, want, OUTLEN, first, 4 + INLEN, NULL, 0, NULL, NULL);
#else
    {
        const int rr = (OUTLEN + 31) / 32 - 2;
        ideal_hash(IDEAL_BLAKE2B, v, 64, first, 4 + INLEN, NULL, 0, NULL, NULL);
        memcpy(want, v, 32);
        for (i = 2; i <= rr; i++) {
            ideal_hash(IDEAL_BLAKE2B, w, 64, v, 64, NULL, 0, NULL, NULL);
            memcpy(v, w, 64);
            memcpy(want + 32 * (i - 1), v, 32);
        }
        ideal_hash(IDEAL_BLAKE2B, w, OUTLEN - 32 * rr, v, 64, NULL, 0, NULL, NULL);
        memcpy(want + 32 * rr, w, OUTLEN - 32 * rr);
    }
#endif
    CHECK(v_eq(got, want, OUTLEN), "H'(A) per RFC 9106 3.3 (length prefix, 64-byte chain, 32-byte pieces, last piece T - 32r bytes)");
    CHECK(got[OUTLEN] == 0xa5, "nothing written beyond the requested length");
    WITNESS();
}
