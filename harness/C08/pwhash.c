/* C08 (G): password-hashing front ends (real pwhash_argon2i(d).c,
 * crypto_pwhash.c, argon2-encoding.c) with the Argon2 core stubbed:
 *  PART 0 every limit check of crypto_pwhash_argon2id/argon2i on symbolic 64-bit
 *         parameters: -1 with the documented errno BEFORE the core is invoked,
 *         core invoked with the converted parameters otherwise;
 *  PART 1 str_needs_rehash = 0 / 1 / -1 exactly per statement (symbolic
 *         requested limits; one structural character of the string mutated);
 *  PART 2 argon2_encode_string -> argon2_decode_string round trip;
 *  PART 3 decode_decimal strictness on all strings of <= NCH characters;
 *  PART 4 crypto_pwhash_str_verify / _needs_rehash prefix dispatch. */
#include <errno.h>
#include "verif.h"
#include "misuse.h"
#include "rng.h"
#include "crypto_pwhash.h"
#include "crypto_pwhash_argon2id.h"
#include "crypto_pwhash_argon2i.h"
#include "crypto_pwhash/argon2/argon2.h"
#include "crypto_pwhash/argon2/argon2-core.h"
#if PART == 3
# include "crypto_pwhash/argon2/argon2-encoding.c"
#else
# include "crypto_pwhash/argon2/argon2-encoding.h"
#endif

#ifndef ID
# define ID 1
#endif
#ifndef FIELD
# define FIELD 0
#endif
#if ID
# define PW crypto_pwhash_argon2id
# define P_(x) crypto_pwhash_argon2id_##x
# define ALGV crypto_pwhash_argon2id_ALG_ARGON2ID13
# define NEEDS crypto_pwhash_argon2id_str_needs_rehash
# define SKEL "$argon2id$v=19$m=8,t=3,p=1$AAAAAAAAAAA$AAAAAAAAAAAAAAAAAAAAAA"
# define ATYPE Argon2_id
#else
# define PW crypto_pwhash_argon2i
# define P_(x) crypto_pwhash_argon2i_##x
# define ALGV crypto_pwhash_argon2i_ALG_ARGON2I13
# define NEEDS crypto_pwhash_argon2i_str_needs_rehash
# define SKEL "$argon2i$v=19$m=8,t=3,p=1$AAAAAAAAAAA$AAAAAAAAAAAAAAAAAAAAAA"
# define ATYPE Argon2_i
#endif

struct IN {
    uint64_t outlen, passwdlen, opslimit, memlimit;
    int32_t  alg;
    uint8_t  pos, ch;
    uint32_t m, t;
    uint8_t  salt[8], hash[16];
    char     s[12];
    char     pre[12];
    int32_t  coreret;
    uint8_t  rngb[24];
};
static struct IN *src;

/* ---- stubs for the layer below ---- */
static int      core_calls;
static uint32_t core_t, core_m, core_p;
static size_t   core_pwdlen, core_saltlen, core_hashlen;
static int
core_raw(uint32_t t, uint32_t m, uint32_t p, size_t pwdlen, size_t saltlen, size_t hashlen)
{
    core_calls++;
    core_t = t; core_m = m; core_p = p; core_pwdlen = pwdlen; core_saltlen = saltlen; core_hashlen = hashlen;
    return src->coreret;
}
#if PART == 0
int argon2id_hash_raw(const uint32_t t, const uint32_t m, const uint32_t p, const void *pwd, const size_t pwdlen, const void *salt,
                      const size_t saltlen, void *hash, const size_t hashlen) { (void) pwd; (void) salt; (void) hash; return core_raw(t, m, p, pwdlen, saltlen, hashlen); }
int argon2i_hash_raw(const uint32_t t, const uint32_t m, const uint32_t p, const void *pwd, const size_t pwdlen, const void *salt,
                     const size_t saltlen, void *hash, const size_t hashlen) { (void) pwd; (void) salt; (void) hash; return core_raw(t, m, p, pwdlen, saltlen, hashlen); }
#endif
#if PART == 6
/* encoded-string layer recorders (argon2.c is not linked) */
static uint8_t  enc_salt[16];
static size_t   enc_encodedlen;
static const char *enc_pwd, *ver_str;
static char    *enc_out;
static int
enc_rec(uint32_t t, uint32_t m, uint32_t p, const void *pwd, size_t pwdlen, const void *salt, size_t saltlen, size_t hashlen, char *encoded, size_t encodedlen)
{
    core_raw(t, m, p, pwdlen, saltlen, hashlen);
    if (saltlen == 16) memcpy(enc_salt, salt, 16);
    enc_pwd = (const char *) pwd; enc_out = encoded; enc_encodedlen = encodedlen;
    return src->coreret;
}
int argon2id_hash_encoded(const uint32_t t, const uint32_t m, const uint32_t p, const void *pwd, const size_t pwdlen, const void *salt, const size_t saltlen,
                          const size_t hashlen, char *encoded, const size_t encodedlen) { return enc_rec(t, m, p, pwd, pwdlen, salt, saltlen, hashlen, encoded, encodedlen); }
int argon2i_hash_encoded(const uint32_t t, const uint32_t m, const uint32_t p, const void *pwd, const size_t pwdlen, const void *salt, const size_t saltlen,
                         const size_t hashlen, char *encoded, const size_t encodedlen) { return enc_rec(t, m, p, pwd, pwdlen, salt, saltlen, hashlen, encoded, encodedlen); }
static int
ver_rec(const char *encoded, const void *pwd, size_t pwdlen)
{
    core_calls++; ver_str = encoded; enc_pwd = (const char *) pwd; core_pwdlen = pwdlen;
    return src->coreret;
}
int argon2id_verify(const char *encoded, const void *pwd, const size_t pwdlen) { return ver_rec(encoded, pwd, pwdlen); }
int argon2i_verify(const char *encoded, const void *pwd, const size_t pwdlen) { return ver_rec(encoded, pwd, pwdlen); }
int argon2id_hash_raw(const uint32_t t, const uint32_t m, const uint32_t p, const void *pwd, const size_t pwdlen, const void *salt,
                      const size_t saltlen, void *hash, const size_t hashlen) { return -1; }
int argon2i_hash_raw(const uint32_t t, const uint32_t m, const uint32_t p, const void *pwd, const size_t pwdlen, const void *salt,
                     const size_t saltlen, void *hash, const size_t hashlen) { return -1; }
#endif
#if PART == 4
static int which;
int crypto_pwhash_argon2id_str_verify(const char *str, const char *const passwd, unsigned long long passwdlen) { (void) str; (void) passwd; (void) passwdlen; which = 1; return src->coreret; }
int crypto_pwhash_argon2i_str_verify(const char *str, const char *const passwd, unsigned long long passwdlen) { (void) str; (void) passwd; (void) passwdlen; which = 2; return src->coreret; }
int crypto_pwhash_argon2id_str_needs_rehash(const char *str, unsigned long long o, size_t m) { (void) str; (void) o; (void) m; which = 3; return src->coreret; }
int crypto_pwhash_argon2i_str_needs_rehash(const char *str, unsigned long long o, size_t m) { (void) str; (void) o; (void) m; which = 4; return src->coreret; }
static unsigned long long d_ops, d_len;
static size_t             d_mem;
static int                d_alg;
int crypto_pwhash_argon2id(unsigned char *const out, unsigned long long outlen, const char *const passwd, unsigned long long passwdlen, const unsigned char *const salt,
                           unsigned long long opslimit, size_t memlimit, int alg) { which = 5; d_ops = opslimit; d_mem = memlimit; d_len = outlen; d_alg = alg; return src->coreret; }
int crypto_pwhash_argon2i(unsigned char *const out, unsigned long long outlen, const char *const passwd, unsigned long long passwdlen, const unsigned char *const salt,
                          unsigned long long opslimit, size_t memlimit, int alg) { which = 6; d_ops = opslimit; d_mem = memlimit; d_len = outlen; d_alg = alg; return src->coreret; }
int crypto_pwhash_argon2id_str(char out[128], const char *const passwd, unsigned long long passwdlen, unsigned long long opslimit, size_t memlimit) { which = 7; d_ops = opslimit; d_mem = memlimit; return src->coreret; }
int crypto_pwhash_argon2i_str(char out[128], const char *const passwd, unsigned long long passwdlen, unsigned long long opslimit, size_t memlimit) { which = 8; d_ops = opslimit; d_mem = memlimit; return src->coreret; }
#endif

VERIF_MAIN
{
    VERIF_INPUT(struct IN, in);
    int r;
    src = &in;
    verif_misuse_expected = 0;
#if PART == 0
    {
        unsigned char *out;
        static char    pw[1];
        static unsigned char salt[16];
        int            want_errno = 0, ok = 1;
        ASSUME(in.outlen <= (1ULL << 33));
        out = malloc(in.outlen > 0 ? in.outlen : 1);
        ASSUME(out != NULL);
        ASSUME(in.coreret == 0 || in.coreret == ARGON2_MEMORY_ALLOCATION_ERROR);
        errno = 0;
        r = PW(out, in.outlen, pw, in.passwdlen, salt, in.opslimit, in.memlimit, in.alg);
        if (in.outlen > P_(BYTES_MAX)) { ok = 0; want_errno = EFBIG; }
        else if (in.outlen < P_(BYTES_MIN)) { ok = 0; want_errno = EINVAL; }
        else if (in.passwdlen > P_(PASSWD_MAX) || in.opslimit > P_(OPSLIMIT_MAX) || in.memlimit > P_(MEMLIMIT_MAX)) { ok = 0; want_errno = EFBIG; }
        else if (in.passwdlen < P_(PASSWD_MIN) || in.opslimit < P_(OPSLIMIT_MIN) || in.memlimit < P_(MEMLIMIT_MIN)) { ok = 0; want_errno = EINVAL; }
        else if (in.alg != ALGV) { ok = 0; want_errno = EINVAL; }
        if (!ok) {
            CHECK(r == -1 && errno == want_errno, "out-of-range parameter: -1 with the documented errno (EFBIG above a maximum, EINVAL below a minimum / bad algorithm)");
            CHECK(core_calls == 0, "out-of-range parameters are refused before the hashing core is invoked");
        } else {
            CHECK(core_calls == 1 && core_t == (uint32_t) in.opslimit && core_m == (uint32_t) (in.memlimit / 1024) && core_p == 1 &&
                  core_pwdlen == in.passwdlen && core_saltlen == 16 && core_hashlen == in.outlen, "in-range call: core invoked once with t = opslimit, m = memlimit/1024 KiB, one lane, 16-byte salt");
            CHECK(r == (in.coreret == 0 ? 0 : -1), "result follows the core's status");
            WITNESS_AT("in-range call reaches the core");
        }
    }
#elif PART == 1
    {
        char str[] = SKEL;
        int  want;
        size_t mkib = in.memlimit / 1024U;
        ASSUME(in.pos < sizeof(SKEL) - 1 - 11 - 1 - 22); /* structural prefix "$argon2..$...p=1$" */
        if (in.ch != 0) {
            ASSUME((in.ch < '0' || in.ch > '9') && in.ch != (uint8_t) str[in.pos]);
            str[in.pos] = (char) in.ch;
        }
        r = NEEDS(str, in.opslimit, in.memlimit);
        if (in.opslimit > UINT32_MAX || mkib > UINT32_MAX) want = -1;
        else if (in.ch != 0) want = -1;
        else want = (in.opslimit == 3 && mkib == 8) ? 0 : 1;
        CHECK(r == want, "needs_rehash: 0 iff (t, m) of the string equal the requested ones, 1 if they differ, -1 if the string is malformed or the limits do not fit");
        if (want == 0) { WITNESS_AT("equal parameters"); }
    }
#elif PART == 6
    {
        static char out[P_(STRBYTES) + 1], pw[1], str[P_(STRBYTES)];
        int         want_errno = 0, ok = 1, i, nz = 0;
        verif_rng_src = in.rngb; verif_rng_cap = 24; verif_rng_pos = 0; verif_rng_nreq = 0;
        memset(out, 0x5a, sizeof out);
        errno = 0;
# if ID
        r = crypto_pwhash_argon2id_str(out, pw, in.passwdlen, in.opslimit, in.memlimit);
# else
        r = crypto_pwhash_argon2i_str(out, pw, in.passwdlen, in.opslimit, in.memlimit);
# endif
        if (in.passwdlen > P_(PASSWD_MAX) || in.opslimit > P_(OPSLIMIT_MAX) || in.memlimit > P_(MEMLIMIT_MAX)) { ok = 0; want_errno = EFBIG; }
        else if (in.passwdlen < P_(PASSWD_MIN) || in.opslimit < P_(OPSLIMIT_MIN) || in.memlimit < P_(MEMLIMIT_MIN)) { ok = 0; want_errno = EINVAL; }
        CHECK(out[P_(STRBYTES)] == 0x5a, "nothing written beyond STRBYTES");
        if (!ok) {
            CHECK(r == -1 && errno == want_errno && core_calls == 0 && verif_rng_pos == 0, "out-of-range: -1 / errno, no salt drawn, core not invoked");
            for (i = 0; i < (int) P_(STRBYTES); i++) nz |= out[i];
            CHECK(nz == 0, "no hash string is produced on failure (buffer zeroed)");
        } else {
            CHECK(verif_rng_pos == 16 && v_eq(enc_salt, in.rngb, 16), "the salt is exactly 16 bytes drawn from the installed random source");
            CHECK(core_calls == 1 && core_t == (uint32_t) in.opslimit && core_m == (uint32_t) (in.memlimit / 1024) && core_p == 1 && core_pwdlen == in.passwdlen &&
                  core_saltlen == 16 && core_hashlen == 32 && enc_out == out && enc_encodedlen == P_(STRBYTES) && enc_pwd == pw,
                  "core invoked once with t = opslimit, m = memlimit/1024, one lane, 16-byte salt, 32-byte hash, the caller's buffers");
            CHECK(r == (in.coreret == ARGON2_OK ? 0 : -1), "0 <=> the core succeeded");
            WITNESS_AT("str in range");
        }
        /* str_verify */
        core_calls = 0;
        errno = 0;
# if ID
        r = crypto_pwhash_argon2id_str_verify(str, pw, in.passwdlen);
# else
        r = crypto_pwhash_argon2i_str_verify(str, pw, in.passwdlen);
# endif
        if (in.passwdlen > P_(PASSWD_MAX)) {
            CHECK(r == -1 && errno == EFBIG && core_calls == 0, "password too long: -1 / EFBIG");
        } else {
            CHECK(core_calls == 1 && ver_str == str && enc_pwd == pw && core_pwdlen == in.passwdlen, "verifier invoked once on the caller's string and password");
            CHECK((r == 0) == (in.coreret == ARGON2_OK) && (r == 0 || r == -1), "str_verify returns 0 <=> the verifier reports a match, else -1");
            if (r != 0 && in.coreret == ARGON2_VERIFY_MISMATCH) { CHECK(errno == EINVAL, "mismatch sets EINVAL"); WITNESS_AT("mismatch"); }
        }
    }
#elif PART == 5
    {
        /* numeric parameter fields with 10 symbolic digits: values above UINT32_MAX must make the string malformed
         * (FIELD: 0 = m, 1 = t, 2 = p, 3 = v) */
        static const char *pre[4] = { "$argon2id$v=19$m=", "$argon2id$v=19$m=8,t=", "$argon2id$v=19$m=8,t=3,p=", "$argon2id$v=" };
        static const char *post[4] = { ",t=3,p=1$AAAAAAAAAAA$AAAAAAAAAAAAAAAAAAAAAA", ",p=1$AAAAAAAAAAA$AAAAAAAAAAAAAAAAAAAAAA",
                                       "$AAAAAAAAAAA$AAAAAAAAAAAAAAAAAAAAAA", "$m=8,t=3,p=1$AAAAAAAAAAA$AAAAAAAAAAAAAAAAAAAAAA" };
        char     str[96];
        uint64_t v = 0;
        size_t   n = strlen(pre[FIELD]), k;
        memcpy(str, pre[FIELD], n);
        for (k = 0; k < 10; k++) {
            ASSUME(in.s[k] >= '0' && in.s[k] <= '9');
            str[n + k] = in.s[k];
            v = v * 10 + (uint64_t) (in.s[k] - '0');
        }
        ASSUME(in.s[0] != '0');
        memcpy(str + n + 10, post[FIELD], strlen(post[FIELD]) + 1);
        r = crypto_pwhash_argon2id_str_needs_rehash(str, 3, 8 * 1024);
        if (v > UINT32_MAX) {
            CHECK(r == -1, "a decimal parameter that does not fit 32 bits makes the hash string malformed (-1), it is never truncated");
            WITNESS_AT("parameter above 2^32");
        } else {
            CHECK(r == -1 || r == 0 || r == 1, "needs_rehash returns -1, 0 or 1");
        }
    }
#elif PART == 2
    {
        argon2_context ctx, dec;
        uint8_t        salt[8], hash[16], dsalt[64], dhash[64];
        char           enc[128];
        in.m = MVAL; /* cost parameters enumerated: symbolic ones make every string offset symbolic */
        in.t = TVAL;
        memset(&ctx, 0, sizeof ctx);
        memcpy(salt, in.salt, 8); memcpy(hash, in.hash, 16);
        ctx.out = hash; ctx.outlen = 16; ctx.salt = salt; ctx.saltlen = 8; ctx.pwd = NULL; ctx.pwdlen = 0;
        ctx.m_cost = in.m; ctx.t_cost = in.t; ctx.lanes = 1; ctx.threads = 1;
        CHECK(argon2_encode_string(enc, sizeof enc, &ctx, ATYPE) == ARGON2_OK, "encode succeeds for valid parameters");
        memset(&dec, 0, sizeof dec);
        dec.out = dhash; dec.outlen = 64; dec.salt = dsalt; dec.saltlen = 64; dec.pwd = NULL; dec.pwdlen = 0;
        CHECK(argon2_decode_string(&dec, enc, ATYPE) == ARGON2_OK, "decode accepts the encoder's output");
        CHECK(dec.m_cost == in.m && dec.t_cost == in.t && dec.lanes == 1 && dec.saltlen == 8 && dec.outlen == 16 &&
              v_eq(dsalt, in.salt, 8) && v_eq(dhash, in.hash, 16), "decode(encode(params, salt, hash)) returns the same parameters, salt and hash");
        CHECK(argon2_decode_string(&dec, enc, ATYPE == Argon2_id ? Argon2_i : Argon2_id) != ARGON2_OK, "a string of the other Argon2 type is rejected");
    }
#elif PART == 3
    {
        char                s[NCH + 1];
        unsigned long       v = 12345, want = 0;
        const char         *end;
        int                 i, nd = 0, over = 0;
        unsigned __int128   acc = 0;
        memcpy(s, in.s, NCH);
        s[NCH] = 0;
        end = decode_decimal(s, &v);
        while (nd < NCH && s[nd] >= '0' && s[nd] <= '9') {
            acc = acc * 10 + (unsigned) (s[nd] - '0');
            if (acc > (unsigned __int128) ULONG_MAX) over = 1;
            nd++;
        }
        want = (unsigned long) acc;
        if (nd == 0 || (s[0] == '0' && nd > 1) || over) {
            CHECK(end == NULL, "decode_decimal rejects: no digit, leading zero, or overflow");
        } else {
            CHECK(end == s + nd && v == want, "decode_decimal returns the value and the first non-digit");
            WITNESS_AT("accepted number");
        }
        (void) i;
    }
#else
    {
        char str[13];
        int  is_id, is_i;
        memcpy(str, in.pre, 12);
        str[12] = 0;
        is_id = strncmp(str, "$argon2id$", 10) == 0;
        is_i  = strncmp(str, "$argon2i$", 9) == 0;
        errno = 0;
        r = crypto_pwhash_str_verify(str, "x", 1);
        CHECK(which == (is_id ? 1 : is_i ? 2 : 0), "str_verify dispatches on the algorithm prefix only");
        if (!is_id && !is_i) CHECK(r == -1 && errno == EINVAL, "unknown prefix: -1 / EINVAL");
        else CHECK(r == in.coreret, "result is the selected verifier's result");
        which = 0;
        r = crypto_pwhash_str_needs_rehash(str, 3, 8192);
        CHECK(which == (is_id ? 3 : is_i ? 4 : 0), "str_needs_rehash dispatches on the algorithm prefix only");
        if (!is_id && !is_i) CHECK(r == -1, "unknown prefix: -1");
        /* algorithm dispatch of the raw and string APIs */
        {
            static unsigned char o[16], salt[16];
            static char          so[128];
            which = 0; errno = 0;
            r = crypto_pwhash(o, in.outlen, "x", 1, salt, in.opslimit, (size_t) in.memlimit, in.alg);
            if (in.alg == 1) { CHECK(which == 6 && r == in.coreret, "alg 1 -> Argon2i"); }
            else if (in.alg == 2) { CHECK(which == 5 && r == in.coreret, "alg 2 -> Argon2id"); }
            else { CHECK(which == 0 && r == -1 && errno == EINVAL, "unknown algorithm: -1 / EINVAL, nothing invoked"); }
            if (which) CHECK(d_ops == in.opslimit && d_mem == (size_t) in.memlimit && d_len == in.outlen && d_alg == in.alg, "parameters forwarded unchanged");
            which = 0;
            r = crypto_pwhash_str(so, "x", 1, in.opslimit, (size_t) in.memlimit);
            CHECK(which == 7 && r == in.coreret && d_ops == in.opslimit && d_mem == (size_t) in.memlimit, "crypto_pwhash_str uses the default algorithm (Argon2id)");
            which = 0;
            verif_misuse_expected = !(in.alg == 1 || in.alg == 2);
            r = crypto_pwhash_str_alg(so, "x", 1, in.opslimit, (size_t) in.memlimit, in.alg);
            MISUSE_MUST_HAVE_FIRED();
            CHECK(which == (in.alg == 1 ? 8 : 7) && r == in.coreret, "crypto_pwhash_str_alg dispatches on alg; unknown algorithm is a misuse");
        }
    }
#endif
    (void) r;
    WITNESS();
}
