/* C08 / C20 (scrypt): escrypt_kdf_{nosse,sse} validate their cost parameters for
 * ALL (N, r, p, buflen) before touching memory: the call is refused with -1
 * exactly when RFC 7914's / the documented conditions fail --
 *   buflen <= (2^32 - 1) * 32,  r * p < 2^30,  N a power of two, 2 <= N < 2^32,
 *   r, p >= 1, and 128*r*p + 128*r*N + 256*r + 64 fits a size_t --
 * or when the scratch region cannot be obtained; otherwise it asks for exactly
 * that many bytes and starts with PBKDF2 over 128*r*p bytes.  PBKDF2 and the
 * region allocator are recorders (the path ends at the first PBKDF2 call).
 * r and p are enumerated (-DRV, -DPV), N, buflen and the region size are symbolic. */
#include "verif.h"
#include <errno.h>
#include "crypto_pwhash/scryptsalsa208sha256/crypto_scrypt.h"
#include "crypto_pwhash/scryptsalsa208sha256/pbkdf2-sha256.h"

#ifndef KDF
# define KDF escrypt_kdf_nosse
#endif

#if !defined(RV) || ((RV) >= 1 && (PV) >= 1 && ((RV) * 1ULL * (PV)) < (1ULL << 30))
# define RP_OK 1      /* some N makes the request valid: the accepting paths must be reachable */
#else
# define RP_OK 0
#endif

struct IN {
    uint64_t N, buflen, have;
    uint32_t r, p;
    uint8_t  alloc_ok;
};

static struct IN   g;
static int         valid, alloc_calls;
static size_t      asked;
static uint8_t     arena[64];
typedef unsigned __int128 u128;

void *
escrypt_alloc_region(escrypt_region_t *region, size_t size)
{
    alloc_calls++;
    asked = size;
    if (!g.alloc_ok) {
        region->base = region->aligned = NULL;
        region->size = 0;
        return NULL;
    }
    region->base = region->aligned = arena;
    region->size = size;
    return arena;
}

int
escrypt_free_region(escrypt_region_t *region)
{
    region->base = region->aligned = NULL;
    region->size = 0;
    return 0;
}

static void
core_reached(size_t dklen)
{
    u128 need = (u128) 128 * g.r * g.p + (u128) 128 * g.r * g.N + (u128) 256 * g.r + 64;
    CHECK(valid, "scrypt starts hashing although the parameters are outside the documented limits");
    CHECK(g.have >= need ? alloc_calls == 0 : (alloc_calls == 1 && g.alloc_ok && asked == (size_t) need),
          "scratch region: reused when large enough, otherwise exactly 128rp + 128rN + 256r + 64 bytes requested");
    CHECK(dklen == (size_t) 128 * g.r * g.p, "first PBKDF2 derives 128*r*p bytes");
#if RP_OK
    WITNESS_AT("PBKDF2 reached with valid parameters");
#endif
#ifdef REPLAY
    printf("REPLAY-END-REACHED\n");
    exit(0);
#else
    __CPROVER_assume(0);
#endif
}

void
escrypt_PBKDF2_SHA256(const uint8_t *passwd, size_t passwdlen, const uint8_t *salt, size_t saltlen, uint64_t c, uint8_t *buf, size_t dkLen)
{
    core_reached(dkLen);
}

VERIF_MAIN
{
    VERIF_INPUT(struct IN, in);
    escrypt_local_t local;
    static uint8_t  pw[1], salt[1], out[1];
    u128            need;
    int             r;

#ifdef RV
    /* r and p enumerated (the code divides by them: a symbolic 64-bit divisor is out of reach of the back ends) */
    in.r = RV;
    in.p = PV;
#endif
    g = in;
    need  = (u128) 128 * in.r * in.p + (u128) 128 * in.r * in.N + (u128) 256 * in.r + 64;
    valid = in.buflen <= 0xffffffffULL * 32 && (uint64_t) in.r * in.p < (1ULL << 30) && in.N <= 0xffffffffULL && in.N >= 2 &&
            (in.N & (in.N - 1)) == 0 && in.r >= 1 && in.p >= 1 && need <= (u128) 0xffffffffffffffffULL;
    local.base = local.aligned = arena;
    local.size = (size_t) in.have;
    errno = 0;
    r = KDF(&local, pw, 0, salt, 0, in.N, in.r, in.p, out, (size_t) in.buflen);
    /* the call returned without hashing */
    CHECK(r == -1, "returning without hashing means failure");
    CHECK(!valid || (in.have < need && !in.alloc_ok), "valid parameters with memory available are not refused");
    if (!valid) {
        CHECK(errno == EFBIG || errno == EINVAL || errno == ENOMEM, "errno names the reason");
        CHECK(alloc_calls == 0, "nothing is allocated for invalid parameters");
        WITNESS_AT("invalid parameters refused");
    } else {
#if RP_OK
        WITNESS_AT("allocation failure reported");
#endif
    }
    WITNESS();
}
