/* C08 / C20 (scrypt API layer): real pwhash_scryptsalsa208sha256.c and crypto_scrypt-common.c; the memory-hard
 * core (escrypt_kdf_*) and the region allocator are recorders defined here.
 * PART 0  needs_rehash on an ARBITRARY 102-byte buffer and ALL 64-bit limits: -1 <=> the string is not exactly 101
 *         characters, does not start with "$7$" or has a parameter character outside ./0-9A-Za-z; otherwise
 *         0 <=> (N_log2, r, p) decoded from the string == the parameters the limits select, else 1.
 * PART 1  raw API: outlen > 0x1fffffffe0 => -1/EFBIG, outlen < 16 => -1/EINVAL, out == passwd => -1; otherwise the core
 *         receives N = 2^N_log2, r = 8, p as selected from (opslimit, memlimit), salt length 32, the caller's lengths;
 *         a failing core or failing local-state set-up => -1.
 * Parameter selection (documented): opslimit raised to 32768; r = 8; if opslimit < memlimit/32: p = 1 and N the
 * largest power of two <= opslimit/32 (at least 2); else N the largest power of two <= memlimit/1024 (at least 2)
 * and p = min(opslimit/4/N, 2^30-1)/8. */
#include "verif.h"
#include <errno.h>
#include "misuse.h"
#include "rng.h"
#include "crypto_pwhash_scryptsalsa208sha256.h"
#include "crypto_pwhash/scryptsalsa208sha256/crypto_scrypt.h"

struct IN {
    uint8_t  str[102];
    uint64_t opslimit, memlimit, outlen, passwdlen;
    uint8_t  init_fails, core_fails, free_fails, alias, gensalt_fails;
    uint8_t  result[102], rngb[40];
};

static struct IN g;
static int       core_calls, init_calls, free_calls;
static uint64_t  seen_N, seen_buflen, seen_pwlen, seen_saltlen;
static uint32_t  seen_r, seen_p;

static int
rec_kdf(escrypt_local_t *local, const uint8_t *passwd, size_t passwdlen, const uint8_t *salt, size_t saltlen, uint64_t N, uint32_t r, uint32_t p,
        uint8_t *buf, size_t buflen)
{
    core_calls++;
    seen_N = N; seen_r = r; seen_p = p; seen_buflen = buflen; seen_pwlen = passwdlen; seen_saltlen = saltlen;
    return g.core_fails ? -1 : 0;
}
int escrypt_kdf_nosse(escrypt_local_t *l, const uint8_t *pw, size_t pwl, const uint8_t *s, size_t sl, uint64_t N, uint32_t r, uint32_t p, uint8_t *b, size_t bl) { return rec_kdf(l, pw, pwl, s, sl, N, r, p, b, bl); }
int escrypt_kdf_sse(escrypt_local_t *l, const uint8_t *pw, size_t pwl, const uint8_t *s, size_t sl, uint64_t N, uint32_t r, uint32_t p, uint8_t *b, size_t bl) { return rec_kdf(l, pw, pwl, s, sl, N, r, p, b, bl); }
int escrypt_init_local(escrypt_local_t *l) { init_calls++; l->base = l->aligned = NULL; l->size = 0; return g.init_fails ? -1 : 0; }
int escrypt_free_local(escrypt_local_t *l) { free_calls++; return g.free_fails ? -1 : 0; }
int sodium_runtime_has_sse2(void) { return 1; }

#if PART == 2
/* string layer recorders, installed over escrypt_gensalt_r / escrypt_r with goto-instrument --replace-calls */
static int      gs_calls, er_calls;
static uint32_t gs_n, gs_r, gs_p;
static uint8_t  gs_salt[32], er_result[102];
static const uint8_t *er_setting, *er_pw;
static uint8_t *er_buf, *gs_buf;
static size_t   er_buflen, er_pwlen, gs_saltlen, gs_buflen;
uint8_t *
cut_gensalt(uint32_t N_log2, uint32_t r, uint32_t p, const uint8_t *src, size_t srclen, uint8_t *buf, size_t buflen)
{
    gs_calls++; gs_n = N_log2; gs_r = r; gs_p = p; gs_saltlen = srclen; gs_buf = buf; gs_buflen = buflen;
    if (srclen == 32) memcpy(gs_salt, src, 32);
    return g.gensalt_fails ? NULL : buf;
}
uint8_t *
cut_escrypt_r(escrypt_local_t *local, const uint8_t *passwd, size_t passwdlen, const uint8_t *setting, uint8_t *buf, size_t buflen)
{
    er_calls++; er_setting = setting; er_pw = passwd; er_pwlen = passwdlen; er_buf = buf; er_buflen = buflen;
    if (g.core_fails) return NULL;
    if (buflen == 102) memcpy(buf, g.result, 102);      /* arbitrary recomputed string */
    return buf;
}
#endif

static void
spec_pick(uint64_t ops, uint64_t mem, uint32_t *nlog2, uint32_t *r, uint32_t *p)
{
    uint64_t maxN, maxrp;
    uint32_t k;
    if (ops < 32768) ops = 32768;
    *r = 8;
    if (ops < mem / 32) {
        *p   = 1;
        maxN = ops / 32;
    } else {
        maxN = mem / 1024;
    }
    /* smallest k >= 1 with 2^k > maxN/2, capped at 63: 2^k is the largest power of two <= maxN (or 2) */
    for (k = 1; k < 63; k++) {
        if (((uint64_t) 1 << k) > maxN / 2) break;
    }
    *nlog2 = k;
    if (!(ops < mem / 32)) {
        maxrp = (ops / 4) >> k;
        if (maxrp > 0x3fffffff) maxrp = 0x3fffffff;
        *p = (uint32_t) maxrp / 8;
    }
}

static int
idx64(uint8_t c)
{
    if (c == '.') return 0;
    if (c == '/') return 1;
    if (c >= '0' && c <= '9') return 2 + (c - '0');
    if (c >= 'A' && c <= 'Z') return 12 + (c - 'A');
    if (c >= 'a' && c <= 'z') return 38 + (c - 'a');
    return -1;
}

VERIF_MAIN
{
    VERIF_INPUT(struct IN, in);
    uint32_t nl, r, p;
    int      rc;

    g = in;
    verif_misuse_expected = 0;
    spec_pick(in.opslimit, in.memlimit, &nl, &r, &p);
#if PART == 0
    {
        int      i, len = -1, bad = 0;
        uint32_t sn, sr = 0, sp = 0;
        for (i = 101; i >= 0; i--) if (in.str[i] == 0) len = i;     /* first NUL */
        rc = crypto_pwhash_scryptsalsa208sha256_str_needs_rehash((const char *) in.str, in.opslimit, (size_t) in.memlimit);
        CHECK(rc == -1 || rc == 0 || rc == 1, "needs_rehash returns -1, 0 or 1");
        if (len != 101) {
            CHECK(rc == -1, "a string that is not exactly 101 characters is invalid");
            WITNESS_AT("wrong length");
        } else {
            if (in.str[0] != '$' || in.str[1] != '7' || in.str[2] != '$') bad = 1;
            for (i = 3; i < 14; i++) if (idx64(in.str[i]) < 0) bad = 1;
            if (bad) {
                CHECK(rc == -1, "bad prefix or parameter character => -1");
                WITNESS_AT("malformed");
            } else {
                sn = (uint32_t) idx64(in.str[3]);
                for (i = 0; i < 5; i++) sr |= (uint32_t) idx64(in.str[4 + i]) << (6 * i);
                for (i = 0; i < 5; i++) sp |= (uint32_t) idx64(in.str[9 + i]) << (6 * i);
                CHECK((rc == 0) == (sn == nl && sr == r && sp == p), "0 <=> the string's (N_log2, r, p) equal the selected parameters");
                CHECK(rc != -1, "a well-formed parameter prefix is not reported invalid");
                if (rc == 0) WITNESS_AT("up to date"); else WITNESS_AT("needs rehash");
            }
        }
    }
#elif PART == 2
    {
        static char out[103], pw[1];
        int         i, nz = 0, len = -1, same = 1;
        verif_rng_src = in.rngb; verif_rng_cap = 40; verif_rng_pos = 0; verif_rng_nreq = 0;
        out[102] = 0x5a;
        rc = crypto_pwhash_scryptsalsa208sha256_str(out, pw, in.passwdlen, in.opslimit, (size_t) in.memlimit);
        CHECK(out[102] == 0x5a, "nothing written beyond STRBYTES");
        CHECK(verif_rng_pos == 32 && v_eq(gs_salt, in.rngb, 32) && gs_saltlen == 32, "the salt is exactly 32 bytes drawn from the installed random source");
        CHECK(gs_calls == 1 && gs_n == nl && gs_r == 8 && gs_p == p, "the setting string is generated for the parameters selected from the limits");
        if (in.gensalt_fails || in.init_fails) {
            CHECK(rc == -1 && er_calls == 0, "failing set-up => -1, nothing hashed");
        } else {
            CHECK(er_calls == 1 && er_setting == gs_buf && er_buf == (uint8_t *) out && er_buflen == 102 && er_pw == (const uint8_t *) pw && er_pwlen == in.passwdlen,
                  "scrypt invoked once on the generated setting, the caller's password and output buffer");
            CHECK((rc == 0) == !in.core_fails && (rc == 0 || rc == -1), "0 <=> hashing succeeded");
            CHECK(free_calls == 1, "local state released on every path");
            if (rc == 0) WITNESS_AT("str success");
        }
        /* str_verify on an arbitrary presented buffer */
        er_calls = 0; init_calls = 0; free_calls = 0;
        for (i = 101; i >= 0; i--) if (in.str[i] == 0) len = i;
        rc = crypto_pwhash_scryptsalsa208sha256_str_verify((const char *) in.str, pw, in.passwdlen);
        CHECK(rc == 0 || rc == -1, "str_verify returns 0 or -1");
        if (len != 101) {
            CHECK(rc == -1 && er_calls == 0, "a string that is not exactly 101 characters never verifies and is not hashed");
        } else if (in.init_fails || in.core_fails) {
            CHECK(rc == -1, "failing set-up or hashing => no match");
        } else {
            for (i = 0; i < 102; i++) same &= in.result[i] == in.str[i];
            CHECK(er_calls == 1 && er_setting == in.str && er_buflen == 102, "recomputation uses the presented string as setting");
            CHECK((rc == 0) == same, "str_verify returns 0 <=> all 102 bytes of the recomputed string equal the presented one");
            if (rc == 0) WITNESS_AT("verify match"); else WITNESS_AT("verify mismatch");
        }
        (void) nz;
    }
#else
    {
        static uint8_t out[64], pw[8], salt[32];
        uint8_t       *o = out;
        const char    *pwp = in.alias ? (const char *) out : (const char *) pw;
        /* memset(out, 0, outlen) touches outlen bytes: the buffer here holds 64 */
        ASSUME(in.outlen <= 64 || in.outlen > 0x1fffffffe0ULL);
        if (in.outlen > 64) {
            /* oversized requests are refused only after the (in-contract) clearing of the output buffer: not modelled */
            ASSUME(0);
        }
        errno = 0;
        rc = crypto_pwhash_scryptsalsa208sha256(o, in.outlen, pwp, in.passwdlen, salt, in.opslimit, (size_t) in.memlimit);
        if (in.outlen < 16 || in.alias) {
            CHECK(rc == -1 && errno == EINVAL && core_calls == 0, "output shorter than 16 bytes or aliasing the password => -1 / EINVAL, core not started");
            WITNESS_AT("refused");
        } else {
            CHECK(init_calls == 1, "local state set up once");
            if (in.init_fails) {
                CHECK(rc == -1 && core_calls == 0, "failing set-up => -1, core not started");
            } else {
                CHECK(core_calls == 1 && free_calls == 1, "core started once, local state released");
                CHECK(seen_N == ((uint64_t) 1 << nl) && seen_r == 8 && seen_r == r && seen_p == p, "core receives N = 2^N_log2, r = 8, p as selected from the limits");
                CHECK(seen_buflen == in.outlen && seen_pwlen == in.passwdlen && seen_saltlen == 32, "lengths forwarded unchanged; 32-byte salt");
                CHECK((rc == 0) == (!in.core_fails && !in.free_fails) && (rc == 0 || rc == -1), "0 <=> core and release succeeded");
                if (rc == 0) WITNESS_AT("success");
            }
        }
    }
#endif
    WITNESS();
}
