/* C17: guarded allocation layout, canary, protections and free, on the real
 * sodium/utils.c (included so that page_size / canary are visible) with the OS
 * calls modelled: mmap returns a page-aligned arena, mprotect validates its
 * arguments and records a per-page protection, munmap validates the range.
 * Page size P (concrete, enumerated); requested size symbolic 0..3P+1. */
#include <errno.h>
#include <sys/mman.h>
#include <unistd.h>
#include <signal.h>
#include "verif.h"
#include "rng.h"
#include "misuse.h"

#ifndef P
# define P 64
#endif
#define NPAGES 8
#define PROT_UNMAPPED 0x100

static uint8_t arena[NPAGES * P] __attribute__((aligned(4096)));
static int     prot[NPAGES];
static size_t  mapped_len;
static int     mapped, unmapped_ok, abort_expected, mlocked, os_refuses;

void *
mmap(void *a, size_t len, int pr, int flags, int fd, off_t off)
{
    int i;
    (void) a; (void) flags; (void) fd; (void) off;
    if (len > sizeof arena || mapped || os_refuses) {
        errno = ENOMEM;
        return MAP_FAILED;
    }
    CHECK(len % P == 0, "mmap length is a whole number of pages");
    mapped     = 1;
    mapped_len = len;
    for (i = 0; i < NPAGES; i++) {
        prot[i] = (size_t) i * P < len ? pr : PROT_UNMAPPED;
    }
    return arena;
}
int
mprotect(void *addr, size_t len, int pr)
{
    size_t off = (size_t) ((uint8_t *) addr - arena), i;
    CHECK(mapped, "mprotect on an unmapped region");
    CHECK(__CPROVER_same_object(addr, arena) && off % P == 0, "mprotect address is page aligned inside the mapping");
    CHECK(len % P == 0 && off + len <= mapped_len, "mprotect range is whole pages inside the mapping");
    for (i = 0; i < NPAGES; i++) {
        if (i * P >= off && i * P < off + len) {
            prot[i] = pr;
        }
    }
    return 0;
}
int
munmap(void *addr, size_t len)
{
    int i;
    CHECK(mapped && addr == (void *) arena && len == mapped_len, "munmap releases exactly the mapping");
    for (i = 0; i < NPAGES; i++) {
        if ((size_t) i * P < mapped_len) {
            CHECK(prot[i] == (PROT_READ | PROT_WRITE), "whole mapping is read-write again before it is wiped and unmapped");
        }
    }
    mapped      = 0;
    unmapped_ok = 1;
    return 0;
}
int  mlock(const void *a, size_t l) { (void) a; (void) l; mlocked++; return 0; }
int  munlock(const void *a, size_t l) { (void) a; (void) l; return 0; }
int  madvise(void *a, size_t l, int adv) { (void) a; (void) l; (void) adv; return 0; }
long sysconf(int name) { (void) name; return P; }
int
raise(int sig)
{
    (void) sig;
    CHECK(abort_expected, "process killed although the canary is intact");
#if MODE == 0
    WITNESS_AT("canary violation terminates the process");
#endif
    __CPROVER_assume(0);
    return 0;
}
void
abort(void)
{
    CHECK(abort_expected, "abort() although the canary is intact");
    __CPROVER_assume(0);
}

#include "sodium/utils.c"

struct IN {
    uint64_t size;
    uint32_t probe;
    uint8_t  rng[16];
    uint8_t  ops[3];
    uint8_t  corrupt_idx, corrupt_xor;
};

static int
page_of(const void *p)
{
    return (int) (((const uint8_t *) p - arena) / P);
}

VERIF_MAIN
{
    VERIF_INPUT(struct IN, in);
    uint8_t *p;
    size_t   size = in.size, npages, first, i, us;
    int      k;

    verif_misuse_expected = 0;
    verif_rng_src = in.rng; verif_rng_cap = 16; verif_rng_pos = 0;
    _sodium_alloc_init();
    CHECK(page_size == P && v_eq(canary, in.rng, 16), "alloc_init: page size from sysconf, 16-byte canary from the random source");
#if MODE == 0
    ASSUME(size <= 3 * P + 1);
    p = (uint8_t *) sodium_malloc(size);
    CHECK(p != NULL, "sodium_malloc succeeds for sizes up to 3 pages + 1");
    CHECK(__CPROVER_same_object(p, arena), "user pointer lies in the mapping");
    CHECK(((size_t) (p + size - arena)) % P == 0, "the byte after the user region starts a page");
    CHECK(prot[page_of(p + size)] == PROT_NONE, "the page right after the user region is inaccessible");
    us     = (16 + size + P - 1) / P * P; /* data pages hold canary + region, rounded up */
    npages = us / P;
    first  = 2;
    CHECK((size_t) page_of(p + size) == first + npages, "layout: header | guard | data pages | guard");
    CHECK(mapped_len == (3 + npages) * P, "mapping = 3 pages + data pages");
    CHECK(prot[0] == PROT_READ, "header page is read-only");
    CHECK(v_ld64le(arena) == us, "header records the size of the data region");
    CHECK(prot[1] == PROT_NONE, "guard page before the data pages is inaccessible");
    for (i = 0; i < NPAGES; i++) {
        if (i >= first && i < first + npages) {
            CHECK(prot[i] == (PROT_READ | PROT_WRITE), "data pages are read-write");
        }
    }
    CHECK(v_eq(p - 16, canary, 16), "canary sits immediately before the user region");
    if (in.probe < size) {
        CHECK(p[in.probe] == 0xdb, "region is filled with the 0xdb pattern");
    }
    CHECK(mlocked == 1, "data region is locked");
    /* protection transitions in any order, then free */
    for (k = 0; k < 3; k++) {
        int want, r;
        if (in.ops[k] % 3 == 0) { r = sodium_mprotect_noaccess(p); want = PROT_NONE; }
        else if (in.ops[k] % 3 == 1) { r = sodium_mprotect_readonly(p); want = PROT_READ; }
        else { r = sodium_mprotect_readwrite(p); want = PROT_READ | PROT_WRITE; }
        CHECK(r == 0, "protection call succeeds");
        for (i = 0; i < NPAGES; i++) {
            if (i >= first && i < first + npages) {
                CHECK(prot[i] == want, "protection call applies to every data page");
            } else if (i * P < mapped_len) {
                CHECK(prot[i] == (i == 0 ? PROT_READ : PROT_NONE), "protection call leaves header and guard pages alone");
            }
        }
    }
    if (in.corrupt_xor != 0) {
        /* an underflow overwrote a canary byte */
        ASSUME(in.corrupt_idx < 16);
        prot[first] = PROT_READ | PROT_WRITE;
        p[-1 - (int) in.corrupt_idx] ^= in.corrupt_xor;
        abort_expected = 1;
        sodium_free(p);
        CHECK(0, "sodium_free returned although the canary was altered");
    } else {
        sodium_free(p);
        CHECK(unmapped_ok, "sodium_free unmaps the mapping");
        WITNESS_AT("clean free");
    }
#elif MODE == 2
    /* MODE 2 (C20): the mapping is refused by the OS => NULL, nothing mapped, protected or freed; free(NULL) is a no-op */
    ASSUME(size <= 3 * P + 1);
    os_refuses = 1;
    errno = 0;
    p = (uint8_t *) sodium_malloc(size);
    CHECK(p == NULL, "sodium_malloc returns NULL when the mapping cannot be obtained");
    CHECK(errno == ENOMEM, "errno reports the allocation failure");
    CHECK(!mapped, "nothing stays mapped");
    sodium_free(p);
    p = (uint8_t *) sodium_allocarray(size, 1);
    CHECK(p == NULL && !mapped, "sodium_allocarray fails the same way");
#else
    /* MODE 1: size limits */
    ASSUME(size >= (uint64_t) SIZE_MAX - 4 * P);
    errno = 0;
    p = (uint8_t *) sodium_malloc(size);
    CHECK(p == NULL && errno == ENOMEM, "oversized request fails with ENOMEM");
    sodium_free(NULL);
#endif
    WITNESS();
}
