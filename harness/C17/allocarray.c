/* C17: sodium_allocarray fails cleanly (NULL, ENOMEM) whenever count*size
 * overflows size_t.  COUNT concrete (enumerated), size symbolic 64-bit. */
#include <sys/mman.h>
#include <errno.h>
#include "verif.h"
#include "utils.h"
#include "misuse.h"

void *mmap(void *a, size_t len, int pr, int flags, int fd, off_t off)
{
    (void) a; (void) len; (void) pr; (void) flags; (void) fd; (void) off;
    errno = ENOMEM;
    return MAP_FAILED; /* the OS refuses everything: only the overflow guard is under test */
}

struct IN {
    uint64_t size;
};

VERIF_MAIN
{
    VERIF_INPUT(struct IN, in);
    unsigned __int128 prod = (unsigned __int128) in.size * (unsigned __int128) (COUNT);
    void             *p;

    verif_misuse_expected = 0;
    errno = 0;
    p = sodium_allocarray(COUNT, in.size);
    CHECK(p == NULL, "no memory can be handed out when the OS refuses / the product overflows");
    if (prod > (unsigned __int128) UINT64_MAX) {
        CHECK(errno == ENOMEM, "count*size overflow -> NULL with ENOMEM");
#if (COUNT) > 1
        WITNESS_AT("overflowing product");
#endif
    }
    WITNESS();
}
