/* C19: all interleavings of NTHREADS threads calling sodium_init() (real
 * sodium/core.c, pthread mutex modelled by CBMC's pthread library):
 *  - every initialisation step runs exactly once,
 *  - return values are one 0 and NTHREADS-1 ones,
 *  - no thread returns from sodium_init() before initialisation is complete,
 *  - a thread that has returned observes the fully initialised library.
 * The eleven init callees are stubs that count their invocations and write a
 * shared "implementation" word non-atomically (as the real pick functions do).
 */
#include <pthread.h>
#include "verif.h"
#include "core.h"

#ifndef NTHREADS
# define NTHREADS 2
#endif
#ifndef TWICE
# define TWICE 0
#endif

static int  calls[11];
static int  steps_done;         /* ghost: number of init steps completed */
static int  implementation_ptr; /* stands for the implementation pointers written by the pick functions */

#define STEP(i)                                                              \
    do {                                                                     \
        calls[i]++;                                                          \
        implementation_ptr = i + 1;                                          \
        steps_done++;                                                        \
    } while (0)

int  _sodium_runtime_get_cpu_features(void) { STEP(0); return 0; }
void randombytes_stir(void) { STEP(1); }
int  _sodium_alloc_init(void) { STEP(2); return 0; }
int  _crypto_pwhash_argon2_pick_best_implementation(void) { STEP(3); return 0; }
int  _crypto_generichash_blake2b_pick_best_implementation(void) { STEP(4); return 0; }
int  _crypto_onetimeauth_poly1305_pick_best_implementation(void) { STEP(5); return 0; }
int  _crypto_scalarmult_curve25519_pick_best_implementation(void) { STEP(6); return 0; }
int  _crypto_stream_chacha20_pick_best_implementation(void) { STEP(7); return 0; }
int  _crypto_stream_salsa20_pick_best_implementation(void) { STEP(8); return 0; }
int  _crypto_aead_aegis128l_pick_best_implementation(void) { STEP(9); return 0; }
int  _crypto_aead_aegis256_pick_best_implementation(void) { STEP(10); return 0; }

static int ret0 = -7, ret1 = -7, ret2 = -7;

#define WORKER(n)                                                                                   \
    static void *worker##n(void *arg)                                                               \
    {                                                                                               \
        int r = sodium_init();                                                                      \
        ret##n = r;                                                                                 \
        if (TWICE) {                                                                                \
            CHECK(sodium_init() == 1, "a second call from the same thread returns 1");              \
        }                                                                                           \
        CHECK(r == 0 || r == 1, "sodium_init returns 0 or 1");                                      \
        CHECK(steps_done == 11, "no thread returns from sodium_init before initialisation is complete"); \
        CHECK(implementation_ptr == 11, "after sodium_init returns the implementation table is final"); \
        return NULL;                                                                                \
    }
WORKER(0)
WORKER(1)
#if NTHREADS > 2
WORKER(2)
#endif

VERIF_MAIN
{
    pthread_t t0, t1, t2;
    int       i, zeros = 0, ones = 0;

    pthread_create(&t0, NULL, worker0, NULL);
    pthread_create(&t1, NULL, worker1, NULL);
#if NTHREADS > 2
    pthread_create(&t2, NULL, worker2, NULL);
#endif
    pthread_join(t0, NULL);
    pthread_join(t1, NULL);
#if NTHREADS > 2
    pthread_join(t2, NULL);
#else
    ret2 = 1;
#endif
    for (i = 0; i < 11; i++) {
        CHECK(calls[i] == 1, "each initialisation step runs exactly once");
    }
    zeros = (ret0 == 0) + (ret1 == 0) + (ret2 == 0);
    ones  = (ret0 == 1) + (ret1 == 1) + (ret2 == 1);
    CHECK(zeros == 1 && ones == 2, "exactly one caller performs the initialisation (0), the others get 1");
    WITNESS();
}
