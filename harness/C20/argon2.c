/* C20: Argon2 password hashing under every allocation-fault schedule.
 * The real argon2.c, argon2-core.c (included here so that static helpers can be
 * cut), argon2-encoding.c run with a fault-injecting allocator; the memory
 * filling and the BLAKE2b work are cut (they do not allocate):
 *   any failed allocation  => result != ARGON2_OK (verify never "match"),
 *                             output not produced, no leak, no double free,
 *                             no NULL dereference;
 *   no failed allocation   => success (witness that the success path is real).
 * MODE 0: argon2_hash raw+encoded, 1: argon2_verify, 2: str_needs_rehash */
#include "verif.h"
#include "alloc.h"
#include "rng.h"
#include "misuse.h"
#include "crypto_pwhash/argon2/argon2.h"
#include "crypto_pwhash/argon2/argon2-core.h"
#include "crypto_pwhash/argon2/argon2-encoding.h"
#include "crypto_pwhash_argon2id.h"
#include "crypto_pwhash_argon2i.h"

#ifndef MODE
# define MODE 0
#endif
#ifndef ATYPE
# define ATYPE Argon2_id
#endif

/* ---- cuts (installed with goto-instrument --replace-calls) ---- */
static uint8_t cut_byte;
void
cut_initial_hash(uint8_t *blockhash, argon2_context *context, argon2_type type)
{
    (void) type;
    blockhash[0] = context->pwd != NULL && context->pwdlen > 0 ? context->pwd[0] : cut_byte;
}
void
cut_fill_first_blocks(uint8_t *blockhash, const argon2_instance_t *instance)
{
    instance->region->memory[0].v[0] = blockhash[0]; /* touches the region: NULL region = violation */
    instance->region->memory[instance->memory_blocks - 1].v[127] = 1;
}
void
cut_fill_memory_blocks(argon2_instance_t *instance, uint32_t pass)
{
    (void) pass;
    instance->pseudo_rands[0] = instance->region->memory[0].v[0];
}
void
cut_copy_block(block *dst, const block *src)
{
    dst->v[0] = src->v[0];
}
void
cut_xor_block(block *dst, const block *src)
{
    dst->v[0] ^= src->v[0];
}
void
cut_store_block(void *output, const block *src)
{
    ((uint8_t *) output)[0] = (uint8_t) src->v[0];
}
int
blake2b_long(void *pout, size_t outlen, const void *in, size_t inlen)
{
    (void) inlen;
    if (outlen > 0) {
        ((uint8_t *) pout)[0] = ((const uint8_t *) in)[0];
        ((uint8_t *) pout)[outlen - 1] ^= 0x5c;
    }
    return 0;
}

struct IN {
    uint8_t fail[VERIF_ALLOC_MAXREQ];
    uint8_t pwd[4];
    uint8_t salt[8];
    uint8_t rng[32];
    char    str[48];
};

VERIF_MAIN
{
    VERIF_INPUT(struct IN, in);
    int r;

    verif_misuse_expected = 0;
    verif_fail_sched = in.fail;
    verif_rng_src = in.rng; verif_rng_cap = 32; verif_rng_pos = 0;
#if MODE == 0
    {
        uint8_t hash[16], hash0[16];
        char    enc[100];
        memset(hash, 0x11, 16);
        memset(enc, 0x22, sizeof enc);
        r = argon2_hash(1, 8, 1, in.pwd, 4, in.salt, 8, hash, 16, enc, sizeof enc, ATYPE);
        memcpy(hash0, in.rng, 16);
        if (verif_alloc_failed) {
            CHECK(r != ARGON2_OK, "a failed allocation makes argon2_hash return an error");
            CHECK(v_eq(hash, hash0, 16), "no key is produced on failure (output holds only the random filler)");
        } else {
            CHECK(r == ARGON2_OK, "argon2_hash succeeds when no allocation fails");
            WITNESS_AT("fault-free run reaches the end");
        }
        CHECK(verif_alloc_live == 0, "argon2_hash: every allocation is released exactly once (no leak)");
    }
#elif MODE == 1
    {
        /* a well-formed encoded string with symbolic salt/hash characters */
        static const char skel[] = "$argon2id$v=19$m=8,t=1,p=1$AAAAAAAAAAA$AAAAAAAAAAAAAAAAAAAAAA";
        char              str[sizeof skel];
        int               i;
        memcpy(str, skel, sizeof skel);
        if (ATYPE == Argon2_i) {
            memcpy(str, "$argon2i$v=19$m=8,t=1,p=1$AAAAAAAAAAA$AAAAAAAAAAAAAAAAAAAAAAA", sizeof skel);
        }
        for (i = 0; i < 4; i++) {
            /* vary some hash characters inside the Base64 alphabet */
            ASSUME(in.str[i] >= 'A' && in.str[i] <= 'Z');
            str[sizeof skel - 6 + i] = in.str[i];
        }
        r = argon2_verify(str, in.pwd, 4, ATYPE);
        if (verif_alloc_failed) {
            CHECK(r != ARGON2_OK, "a failed allocation never lets argon2_verify report a match");
        } else {
            CHECK(r == ARGON2_OK || r == ARGON2_VERIFY_MISMATCH, "without faults argon2_verify decides match / mismatch");
            WITNESS_AT("fault-free run reaches the end");
        }
        CHECK(verif_alloc_live == 0, "argon2_verify: every allocation is released exactly once (no leak)");
    }
#else
    {
        static const char skel[] = "$argon2id$v=19$m=8,t=1,p=1$AAAAAAAAAAA$AAAAAAAAAAAAAAAAAAAAAA";
        r = crypto_pwhash_argon2id_str_needs_rehash(skel, 1, 8 * 1024);
        if (verif_alloc_failed) {
            CHECK(r == -1, "a failed allocation makes needs_rehash return -1");
        } else {
            CHECK(r == 0, "needs_rehash returns 0 for matching parameters when no allocation fails");
            WITNESS_AT("fault-free run reaches the end");
        }
        CHECK(verif_alloc_live == 0, "needs_rehash: no leak");
    }
#endif
    WITNESS();
}

/* the real core, compiled into this unit so that its static helpers can be cut */
#include "crypto_pwhash/argon2/argon2-core.c"
