/* C12 (size limits): every public entry point that documents a maximum message
 * size refuses -- through sodium_misuse() -- exactly the requests above the
 * documented bound, for ALL 64-bit lengths, and forwards everything else.
 * Nothing is processed: the stream / MAC / core / back-end functions the glue
 * calls are recorders defined here (the real units are not linked), so the
 * length is fully symbolic.  The bounds are written as literals (not with the
 * library's macros), from the documentation:
 *   ChaCha20-Poly1305 (original), XChaCha20-Poly1305, secretbox, box: 2^64 - 1 - 16
 *   ChaCha20-Poly1305-IETF: 64 * (2^32 - 1);  secretstream: 64 * (2^32 - 2)
 *   AEGIS-128L / AEGIS-256: 2^61 - 1 (message and associated data). */
#include "verif.h"
#include "misuse.h"
#include "sodium.h"
#include "crypto_aead/aegis128l/implementations.h"
#include "crypto_aead/aegis256/implementations.h"

#ifndef WHICH
# define WHICH 0
#endif

struct IN {
    uint64_t len;
    uint64_t adlen;
};

/* ---- recorders: reaching a core means the request passed the guard; the path ends there (processing a request of
 * symbolic size needs buffers of that size) ---- */
static unsigned calls;
static int      over_limit;
/* WHICH >= 20: too-short inputs to the open/decrypt entry points.  The input is a heap object of EXACTLY the presented
 * length (symbolic, below the documented minimum): the call must return -1 without reading it (CBMC bounds checks),
 * without reaching any core (over_limit = 1 makes every recorder fail) and without touching the output. */
#ifdef REPLAY
# define REC() do { if (over_limit) { printf("REPLAY-FAIL: request above the documented limit / below the documented minimum reaches the cores\n"); exit(1); } printf("REPLAY-END-REACHED core reached in range\n"); exit(0); } while (0)
#else
static void
core_reached(void)
{
    calls++;
    CHECK(!over_limit, "a request above the documented limit (WHICH < 20) / an input below the documented minimum length (WHICH >= 20) reaches the cores");
#if WHICH < 20
    WITNESS_AT("core reached by an in-range request");
#endif
    __CPROVER_assume(0);
}
# define REC() core_reached()
#endif
int crypto_stream_chacha20(unsigned char *c, unsigned long long clen, const unsigned char *n, const unsigned char *k) { REC(); return 0; }
int crypto_stream_chacha20_xor_ic(unsigned char *c, const unsigned char *m, unsigned long long mlen, const unsigned char *n, uint64_t ic, const unsigned char *k) { REC(); return 0; }
int crypto_stream_chacha20_ietf(unsigned char *c, unsigned long long clen, const unsigned char *n, const unsigned char *k) { REC(); return 0; }
int crypto_stream_chacha20_ietf_xor_ic(unsigned char *c, const unsigned char *m, unsigned long long mlen, const unsigned char *n, uint32_t ic, const unsigned char *k) { REC(); return 0; }
int crypto_stream_chacha20_ietf_ext(unsigned char *c, unsigned long long clen, const unsigned char *n, const unsigned char *k) { REC(); return 0; }
int crypto_stream_chacha20_ietf_ext_xor_ic(unsigned char *c, const unsigned char *m, unsigned long long mlen, const unsigned char *n, uint32_t ic, const unsigned char *k) { REC(); return 0; }
int crypto_stream_chacha20_xor(unsigned char *c, const unsigned char *m, unsigned long long mlen, const unsigned char *n, const unsigned char *k) { REC(); return 0; }
int crypto_stream_chacha20_ietf_xor(unsigned char *c, const unsigned char *m, unsigned long long mlen, const unsigned char *n, const unsigned char *k) { REC(); return 0; }
int crypto_stream_salsa20_xor_ic(unsigned char *c, const unsigned char *m, unsigned long long mlen, const unsigned char *n, uint64_t ic, const unsigned char *k) { REC(); return 0; }
int crypto_stream_salsa20_xor(unsigned char *c, const unsigned char *m, unsigned long long mlen, const unsigned char *n, const unsigned char *k) { REC(); return 0; }
int crypto_stream_salsa20(unsigned char *c, unsigned long long clen, const unsigned char *n, const unsigned char *k) { REC(); return 0; }
int crypto_core_hchacha20(unsigned char *out, const unsigned char *in, const unsigned char *k, const unsigned char *c) { REC(); return 0; }
int crypto_core_hsalsa20(unsigned char *out, const unsigned char *in, const unsigned char *k, const unsigned char *c) { REC(); return 0; }
int crypto_onetimeauth_poly1305_init(crypto_onetimeauth_poly1305_state *state, const unsigned char *key) { REC(); return 0; }
int crypto_onetimeauth_poly1305_update(crypto_onetimeauth_poly1305_state *state, const unsigned char *in, unsigned long long inlen) { REC(); return 0; }
int crypto_onetimeauth_poly1305_final(crypto_onetimeauth_poly1305_state *state, unsigned char *out) { REC(); return 0; }
int crypto_onetimeauth_poly1305(unsigned char *out, const unsigned char *in, unsigned long long inlen, const unsigned char *k) { REC(); return 0; }
int crypto_onetimeauth_poly1305_verify(const unsigned char *h, const unsigned char *in, unsigned long long inlen, const unsigned char *k) { REC(); return 0; }
int crypto_scalarmult_curve25519(unsigned char *q, const unsigned char *n, const unsigned char *p) { REC(); return 0; }
int crypto_scalarmult_curve25519_base(unsigned char *q, const unsigned char *n) { REC(); return 0; }
int crypto_generichash(unsigned char *out, size_t outlen, const unsigned char *in, unsigned long long inlen, const unsigned char *key, size_t keylen) { REC(); return 0; }
int crypto_generichash_init(crypto_generichash_state *state, const unsigned char *key, const size_t keylen, const size_t outlen) { REC(); return 0; }
int crypto_generichash_update(crypto_generichash_state *state, const unsigned char *in, unsigned long long inlen) { REC(); return 0; }
int crypto_generichash_final(crypto_generichash_state *state, unsigned char *out, const size_t outlen) { REC(); return 0; }
int sodium_runtime_has_aesni(void) { return 0; }
int sodium_runtime_has_avx(void) { return 0; }
int sodium_runtime_has_armcrypto(void) { return 0; }

static unsigned long long be_len, be_adlen;
static int
rec_enc(uint8_t *c, uint8_t *mac, size_t maclen, const uint8_t *m, size_t mlen, const uint8_t *ad, size_t adlen, const uint8_t *npub, const uint8_t *k)
{
    calls++; be_len = mlen; be_adlen = adlen;
    CHECK(!over_limit, "a request above the documented limit reaches the back end");
    return 0;
}
static int
rec_dec(uint8_t *m, const uint8_t *c, size_t clen, const uint8_t *mac, size_t maclen, const uint8_t *ad, size_t adlen, const uint8_t *npub, const uint8_t *k)
{
    calls++; be_len = clen; be_adlen = adlen;
    CHECK(!over_limit, "a request above the documented limit reaches the back end");
    return 0;
}
struct aegis128l_implementation aegis128l_soft_implementation = { rec_enc, rec_dec };
struct aegis256_implementation  aegis256_soft_implementation  = { rec_enc, rec_dec };

#define U64MAX 0xffffffffffffffffULL
#define LIM_SIZE16 (U64MAX - 16ULL)
#define LIM_IETF   (64ULL * 4294967295ULL)
#define LIM_SS     (64ULL * 4294967294ULL)
#define LIM_AEGIS  ((1ULL << 61) - 1ULL)

VERIF_MAIN
{
    VERIF_INPUT(struct IN, in);
    static uint8_t     b[64], mac[32], k[32], n[32], pk[32], sk[32];
    unsigned long long l = 0;
    crypto_secretstream_xchacha20poly1305_state st;
    unsigned char      tag;

    memset(&st, 0, sizeof st);
#if WHICH >= 20
    {
# if WHICH == 25 || WHICH == 26
        const uint64_t minlen = 48;     /* crypto_box_SEALBYTES = 32 (ephemeral public key) + 16 (tag) */
# elif WHICH == 30 || WHICH == 31
        const uint64_t minlen = 32;     /* AEGIS tag */
# elif WHICH == 32
        const uint64_t minlen = 17;     /* secretstream: 1 (encrypted tag byte) + 16 */
# else
        const uint64_t minlen = 16;     /* Poly1305 tag */
# endif
        uint8_t *c, out[8];
        int      r;
        ASSUME(in.len < minlen);
        c = malloc(in.len);
        ASSUME(c != NULL);
        memset(out, 0x5a, sizeof out);
        l = 0x1234;
        over_limit = 1;                 /* any recorder reached = failure */
        verif_misuse_expected = 0;
# if WHICH == 20
        r = crypto_secretbox_open_easy(out, c, in.len, n, k);
# elif WHICH == 21
        r = crypto_secretbox_xchacha20poly1305_open_easy(out, c, in.len, n, k);
# elif WHICH == 22
        r = crypto_box_open_easy(out, c, in.len, n, pk, sk);
# elif WHICH == 23
        r = crypto_box_open_easy_afternm(out, c, in.len, n, k);
# elif WHICH == 24
        r = crypto_box_curve25519xchacha20poly1305_open_easy(out, c, in.len, n, pk, sk);
# elif WHICH == 25
        r = crypto_box_seal_open(out, c, in.len, pk, sk);
# elif WHICH == 26
        r = crypto_box_curve25519xchacha20poly1305_seal_open(out, c, in.len, pk, sk);
# elif WHICH == 27
        r = crypto_aead_chacha20poly1305_decrypt(out, &l, NULL, c, in.len, b, 5, n, k);
# elif WHICH == 28
        r = crypto_aead_chacha20poly1305_ietf_decrypt(out, &l, NULL, c, in.len, b, 5, n, k);
# elif WHICH == 29
        r = crypto_aead_xchacha20poly1305_ietf_decrypt(out, &l, NULL, c, in.len, b, 5, n, k);
# elif WHICH == 30
        r = crypto_aead_aegis128l_decrypt(out, &l, NULL, c, in.len, b, 5, n, k);
# elif WHICH == 31
        r = crypto_aead_aegis256_decrypt(out, &l, NULL, c, in.len, b, 5, n, k);
# elif WHICH == 32
        r = crypto_secretstream_xchacha20poly1305_pull(&st, out, &l, &tag, c, in.len, b, 5);
# endif
        CHECK(r == -1, "input shorter than the documented minimum is rejected with -1");
        CHECK(calls == 0, "no core is reached for a too-short input");
        {
            unsigned i, same = 1;
            for (i = 0; i < sizeof out; i++) {
                same &= out[i] == 0x5a;
            }
            CHECK(same, "output untouched for a too-short input");
        }
# if WHICH >= 27 && WHICH <= 31
        CHECK(l == 0, "AEAD decrypt reports message length 0 on rejection");
# endif
        WITNESS();
        goto done;
    }
#elif WHICH == 3
    verif_misuse_expected = over_limit = (in.len > LIM_SIZE16);
    crypto_aead_chacha20poly1305_encrypt(b, &l, b, in.len, b, 0, NULL, n, k);
#elif WHICH == 4
    verif_misuse_expected = over_limit = (in.len > LIM_IETF);
    crypto_aead_chacha20poly1305_ietf_encrypt(b, &l, b, in.len, b, 0, NULL, n, k);
#elif WHICH == 5
    verif_misuse_expected = over_limit = (in.len > LIM_SIZE16);
    crypto_aead_xchacha20poly1305_ietf_encrypt(b, &l, b, in.len, b, 0, NULL, n, k);
#elif WHICH == 6
    verif_misuse_expected = over_limit = (in.len > LIM_SIZE16);
    crypto_secretbox_easy(b, b, in.len, n, k);
#elif WHICH == 7
    verif_misuse_expected = over_limit = (in.len > LIM_SIZE16);
    crypto_secretbox_xchacha20poly1305_easy(b, b, in.len, n, k);
#elif WHICH == 8
    verif_misuse_expected = over_limit = (in.len > LIM_SIZE16);
    crypto_box_easy_afternm(b, b, in.len, n, k);
#elif WHICH == 9
    verif_misuse_expected = over_limit = (in.len > LIM_SIZE16);
    crypto_box_easy(b, b, in.len, n, pk, sk);
#elif WHICH == 10
    verif_misuse_expected = over_limit = (in.len > LIM_SIZE16);
    crypto_box_curve25519xchacha20poly1305_easy_afternm(b, b, in.len, n, k);
#elif WHICH == 11
    verif_misuse_expected = over_limit = (in.len > LIM_SIZE16);
    crypto_box_curve25519xchacha20poly1305_easy(b, b, in.len, n, pk, sk);
#elif WHICH == 12
    verif_misuse_expected = over_limit = (in.len > LIM_SS);
    crypto_secretstream_xchacha20poly1305_push(&st, b, &l, b, in.len, b, 0, 0);
#elif WHICH == 13
    /* pull: inlen < ABYTES is an error return, not a misuse */
    ASSUME(in.len >= 17);
    verif_misuse_expected = over_limit = (in.len - 17 > LIM_SS);
    crypto_secretstream_xchacha20poly1305_pull(&st, b, &l, &tag, b, in.len, b, 0);
#elif WHICH == 14
    verif_misuse_expected = over_limit = (in.len > LIM_AEGIS || in.adlen > LIM_AEGIS);
    calls = 0;
    crypto_aead_aegis128l_encrypt_detached(b, mac, &l, b, in.len, b, in.adlen, NULL, n, k);
    MISUSE_MUST_HAVE_FIRED();
    CHECK(calls == 1 && be_len == in.len && be_adlen == in.adlen, "in-range request forwarded unchanged to the back end");
#elif WHICH == 15
    over_limit = in.len > LIM_AEGIS || in.adlen > LIM_AEGIS;
    verif_misuse_expected = 0;
    calls = 0;
    {
        int r = crypto_aead_aegis128l_decrypt_detached(b, NULL, b, in.len, mac, b, in.adlen, n, k);
        CHECK((r == -1) == over_limit, "decrypt returns -1 <=> ciphertext or ad length above the documented limit");
        CHECK(over_limit || (calls == 1 && be_len == in.len && be_adlen == in.adlen), "in-range request forwarded unchanged to the back end");
        CHECK(!over_limit || calls == 0, "refused request does not reach the back end");
    }
    WITNESS();
    goto done;
#elif WHICH == 16
    verif_misuse_expected = over_limit = (in.len > LIM_AEGIS || in.adlen > LIM_AEGIS);
    calls = 0;
    crypto_aead_aegis256_encrypt_detached(b, mac, &l, b, in.len, b, in.adlen, NULL, n, k);
    MISUSE_MUST_HAVE_FIRED();
    CHECK(calls == 1 && be_len == in.len && be_adlen == in.adlen, "in-range request forwarded unchanged to the back end");
#elif WHICH == 17
    over_limit = in.len > LIM_AEGIS || in.adlen > LIM_AEGIS;
    verif_misuse_expected = 0;
    calls = 0;
    {
        int r = crypto_aead_aegis256_decrypt_detached(b, NULL, b, in.len, mac, b, in.adlen, n, k);
        CHECK((r == -1) == over_limit, "decrypt returns -1 <=> ciphertext or ad length above the documented limit");
        CHECK(over_limit || (calls == 1 && be_len == in.len && be_adlen == in.adlen), "in-range request forwarded unchanged to the back end");
        CHECK(!over_limit || calls == 0, "refused request does not reach the back end");
    }
    WITNESS();
    goto done;
#endif
    MISUSE_MUST_HAVE_FIRED();
    CHECK(calls >= 1, "in-range request reaches the cores");
#if WHICH == 14 || WHICH == 16
    WITNESS();
#endif
done:;
}
