/* C12: parsers of attacker-controlled hash strings stay inside the string:
 * argon2_decode_string (through the public needs_rehash entry point, which
 * allocates its buffers from strlen) on an ARBITRARY NUL-terminated string of
 * exactly SLEN characters placed in a heap object of exactly SLEN+1 bytes.
 * The first PFX characters are fixed to the well-formed prefix so that the
 * deeper parsing stages are reachable. */
#include <stdlib.h>
#include "verif.h"
#include "misuse.h"
#include "crypto_pwhash_argon2id.h"

#ifndef SLEN
# define SLEN 40
#endif
#ifndef PFX
# define PFX 0
#endif

struct IN {
    char s[SLEN + 1];
};

VERIF_MAIN
{
    VERIF_INPUT(struct IN, in);
    static const char good[] = "$argon2id$v=19$m=8,t=3,p=1$AAAAAAAAAAA$AAAAAAAAAAAAAAAAAAAAAA";
    char *str = malloc(SLEN + 1);
    int   i;
    __CPROVER_assume(str != NULL);
    verif_misuse_expected = 0;
    for (i = 0; i < SLEN; i++) {
        char c = i < PFX ? good[i] : in.s[i];
        ASSUME(i < PFX || c != 0); /* exactly SLEN characters (shorter strings are other instances) */
        str[i] = c;
    }
    str[SLEN] = 0;
    (void) crypto_pwhash_argon2id_str_needs_rehash(str, 3, 8192);
    WITNESS();
}
