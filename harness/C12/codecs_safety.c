/* C12: memory safety of the codecs on buffers of EXACTLY the contract size
 * (heap objects sized by the symbolic lengths): any read or write one byte
 * outside is a bounds violation; zero-length arguments with NULL pointers
 * included.  All CBMC safety checks on.  FN: 0 hex2bin, 1 base642bin,
 * 2 bin2hex, 3 bin2base64. */
#include <stdlib.h>
#include "verif.h"
#include "utils.h"
#include "misuse.h"

#ifndef MAXN
# define MAXN 6
#endif

struct IN {
    uint8_t  text[MAXN], ig[2];
    uint8_t  tlen, cap, use_ignore, want_end, want_len, variant_sel;
};

static void *
exact(size_t n)
{
    void *p;
    if (n == 0) return NULL;
    p = malloc(n);
    __CPROVER_assume(p != NULL);
    return p;
}

VERIF_MAIN
{
    VERIF_INPUT(struct IN, in);
    static const int variants[4] = { 1, 3, 5, 7 };
#ifdef VARIANT
    int         variant = VARIANT;
#else
    int         variant = variants[in.variant_sel & 3];
#endif
    size_t      tlen = in.tlen, cap = in.cap, bl = 99, i;
    const char *end;
    char        igs[3];

    ASSUME(tlen <= MAXN && cap <= MAXN + 1);
    igs[0] = (char) in.ig[0]; igs[1] = (char) in.ig[1]; igs[2] = 0;
    verif_misuse_expected = 0;
#if FN == 0 || FN == 1
    {
        /* a NULL text is only passed when no end pointer is requested: forming &text[0] from NULL is
         * pointer arithmetic on NULL (reported by CBMC, benign on every platform; not counted) */
        char          *text = exact(tlen == 0 && in.want_end ? 1 : tlen);
        unsigned char *bin  = exact(cap);
        for (i = 0; i < tlen; i++) text[i] = (char) in.text[i];
# if FN == 0
        (void) sodium_hex2bin(bin, cap, text, tlen, in.use_ignore ? igs : NULL, in.want_len ? &bl : NULL, in.want_end ? &end : NULL);
# else
        (void) sodium_base642bin(bin, cap, text, tlen, in.use_ignore ? igs : NULL, in.want_len ? &bl : NULL, in.want_end ? &end : NULL, variant);
# endif
    }
#elif FN == 2
    {
        unsigned char *bin = exact(tlen);
        char          *hex = exact(2 * tlen + 1);
        for (i = 0; i < tlen; i++) bin[i] = in.text[i];
        (void) sodium_bin2hex(hex, 2 * tlen + 1, bin, tlen);
    }
#else
    {
        unsigned char *bin = exact(tlen);
        size_t         need = sodium_base64_ENCODED_LEN(tlen, variant);
        char          *b64 = exact(need);
        for (i = 0; i < tlen; i++) bin[i] = in.text[i];
        (void) sodium_bin2base64(b64, need, bin, tlen, variant);
    }
#endif
    (void) variant; (void) end; (void) bl;
    WITNESS();
}
