/* Specification model of the ChaCha20-Poly1305 AEAD family over the idealised
 * cores: RFC 8439 section 2.8 (IETF), draft-agl-tls-chacha20poly1305-04
 * (original, 8-byte nonce), draft-irtf-cfrg-xchacha (XChaCha20).
 * VARIANT: 0 original, 1 IETF, 2 XChaCha20-IETF */
#ifndef AEAD_CHACHA_SPEC_H
#define AEAD_CHACHA_SPEC_H
#include "verif.h"
#include "ideal.h"
#include "crypto_aead_chacha20poly1305.h"
#include "crypto_aead_xchacha20poly1305.h"

#if VARIANT == 0
# define NPUB 8
# define ENC_DET crypto_aead_chacha20poly1305_encrypt_detached
# define ENC crypto_aead_chacha20poly1305_encrypt
# define DEC_DET crypto_aead_chacha20poly1305_decrypt_detached
# define DEC crypto_aead_chacha20poly1305_decrypt
#elif VARIANT == 1
# define NPUB 12
# define ENC_DET crypto_aead_chacha20poly1305_ietf_encrypt_detached
# define ENC crypto_aead_chacha20poly1305_ietf_encrypt
# define DEC_DET crypto_aead_chacha20poly1305_ietf_decrypt_detached
# define DEC crypto_aead_chacha20poly1305_ietf_decrypt
#else
# define NPUB 24
# define ENC_DET crypto_aead_xchacha20poly1305_ietf_encrypt_detached
# define ENC crypto_aead_xchacha20poly1305_ietf_encrypt
# define DEC_DET crypto_aead_xchacha20poly1305_ietf_decrypt_detached
# define DEC crypto_aead_xchacha20poly1305_ietf_decrypt
#endif

#define SPEC_MACIN_MAX 200

/* one-time key and keystream parameters */
static void
spec_params(uint8_t key[32], uint64_t *ctr0, uint8_t n8[8], const uint8_t *npub, const uint8_t *k)
{
#if VARIANT == 0
    memcpy(key, k, 32);
    *ctr0 = 0;
    memcpy(n8, npub, 8);
#elif VARIANT == 1
    memcpy(key, k, 32);
    *ctr0 = (uint64_t) v_ld32le(npub) << 32;
    memcpy(n8, npub + 4, 8);
#else
    ideal_hchacha20(key, npub, k, NULL);
    *ctr0 = 0; /* nonce' = 00 00 00 00 || npub[16..24] */
    memcpy(n8, npub + 16, 8);
#endif
}

/* MAC input for ciphertext c (length mlen) and ad; returns its length */
static size_t
spec_macin(uint8_t *out, const uint8_t *c, size_t mlen, const uint8_t *ad, size_t adlen)
{
    size_t n = 0;
    if (adlen) memcpy(out + n, ad, adlen);
    n += adlen;
#if VARIANT == 0
    v_st64le(out + n, adlen); n += 8;
    if (mlen) memcpy(out + n, c, mlen);
    n += mlen;
    v_st64le(out + n, mlen); n += 8;
#else
    while (n % 16) out[n++] = 0;
    if (mlen) memcpy(out + n, c, mlen);
    n += mlen;
    while (n % 16) out[n++] = 0;
    v_st64le(out + n, adlen); n += 8;
    v_st64le(out + n, mlen); n += 8;
#endif
    return n;
}

static void
spec_encrypt(uint8_t *c, uint8_t mac[16], const uint8_t *m, size_t mlen, const uint8_t *ad, size_t adlen,
             const uint8_t *npub, const uint8_t *k)
{
    uint8_t  key[32], n8[8], block0[64], macin[SPEC_MACIN_MAX];
    uint64_t ctr0;
    size_t   n;
    spec_params(key, &ctr0, n8, npub, k);
    ideal_chacha_block(key, ctr0, n8, block0);
    ideal_chacha_xor(c, m, mlen, key, ctr0 + 1, n8);
    n = spec_macin(macin, c, mlen, ad, adlen);
    ideal_mac_tag(mac, macin, n, block0);
}

/* expected tag for a presented ciphertext */
static void
spec_tag(uint8_t mac[16], const uint8_t *c, size_t mlen, const uint8_t *ad, size_t adlen,
         const uint8_t *npub, const uint8_t *k)
{
    uint8_t  key[32], n8[8], block0[64], macin[SPEC_MACIN_MAX];
    uint64_t ctr0;
    size_t   n;
    spec_params(key, &ctr0, n8, npub, k);
    ideal_chacha_block(key, ctr0, n8, block0);
    n = spec_macin(macin, c, mlen, ad, adlen);
    ideal_mac_tag(mac, macin, n, block0);
}

static void
spec_decrypt_body(uint8_t *m, const uint8_t *c, size_t mlen, const uint8_t *npub, const uint8_t *k)
{
    uint8_t  key[32], n8[8];
    uint64_t ctr0;
    spec_params(key, &ctr0, n8, npub, k);
    ideal_chacha_xor(m, c, mlen, key, ctr0 + 1, n8);
}
#endif
