/* C13: secretbox easy/detached/open forms with the output buffer at every
 * relative offset DELTA from the input produce the same bytes as a run on
 * disjoint buffers, and every inner stream call sees identical-or-disjoint
 * buffers (asserted by the stream stub).  DELTA, MLEN concrete (enumerated).
 * FORM: 0 easy, 1 open_easy, 2 detached (mac elsewhere), 3 open_detached */
#ifndef MLEN
# define MLEN 33
#endif
#ifndef DELTA
# define DELTA 5
#endif
#ifndef FORM
# define FORM 0
#endif
#include "secretbox_spec.h"
#include "misuse.h"
#define OFF 100
#define ARENA (OFF + 100 + MLEN + 16 + 100)
#define MB (MLEN > 0 ? MLEN : 1)

struct IN {
    uint8_t k[32];
    uint8_t n[24];
    uint8_t m[MB];
};

VERIF_MAIN
{
    VERIF_INPUT(struct IN, in);
    uint8_t arena[ARENA], ref[MLEN + 16], box[MLEN + 16], mac[16], mac2[16];
    int     r;

    verif_misuse_expected = 0;
    memset(arena, 0xA5, sizeof arena);
#if FORM == 0
    CHECK(SB_EASY(ref, in.m, MLEN, in.n, in.k) == 0, "disjoint run succeeds");
    memcpy(arena + OFF, in.m, MLEN);
    r = SB_EASY(arena + OFF + (DELTA), arena + OFF, MLEN, in.n, in.k);
    CHECK(r == 0, "overlapping secretbox_easy succeeds");
    CHECK(v_eq(arena + OFF + (DELTA), ref, MLEN + 16), "secretbox_easy: overlapping output = disjoint output");
#elif FORM == 1
    CHECK(SB_EASY(box, in.m, MLEN, in.n, in.k) == 0, "box");
    memcpy(arena + OFF, box, MLEN + 16);
    r = SB_OPEN_EASY(arena + OFF + (DELTA), arena + OFF, MLEN + 16, in.n, in.k);
    CHECK(r == 0, "overlapping secretbox_open_easy accepts the genuine box");
    CHECK(v_eq(arena + OFF + (DELTA), in.m, MLEN), "secretbox_open_easy: overlapping output = original message");
#elif FORM == 2
    CHECK(SB_DETACHED(ref, mac, in.m, MLEN, in.n, in.k) == 0, "disjoint run succeeds");
    memcpy(arena + OFF, in.m, MLEN);
    r = SB_DETACHED(arena + OFF + (DELTA), mac2, arena + OFF, MLEN, in.n, in.k);
    CHECK(r == 0, "overlapping secretbox_detached succeeds");
    CHECK(v_eq(arena + OFF + (DELTA), ref, MLEN) && v_eq(mac, mac2, 16), "secretbox_detached: overlapping output = disjoint output");
#else
    CHECK(SB_DETACHED(box, mac, in.m, MLEN, in.n, in.k) == 0, "box");
    memcpy(arena + OFF, box, MLEN);
    r = SB_OPEN_DETACHED(arena + OFF + (DELTA), arena + OFF, mac, MLEN, in.n, in.k);
    CHECK(r == 0, "overlapping secretbox_open_detached accepts");
    CHECK(v_eq(arena + OFF + (DELTA), in.m, MLEN), "secretbox_open_detached: overlapping output = original message");
#endif
    WITNESS();
}
