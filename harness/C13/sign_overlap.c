/* C13: crypto_sign / crypto_sign_open (combined forms, memmove paths) with the
 * message buffer at every relative offset DELTA from the signed-message buffer
 * produce the same bytes / verdict as a run on disjoint buffers.  The group,
 * scalar field and SHA-512 are the abstract models of C06; DELTA and MLEN are
 * concrete (enumerated), all bytes symbolic.
 * FORM 0: crypto_sign_ed25519(sm, &smlen, m, mlen, sk), m = sm + DELTA
 * FORM 1: crypto_sign_ed25519_open(m, &mlen, sm, smlen, pk), m = sm + DELTA, sm arbitrary
 * FORM 2: crypto_sign (dispatcher) / crypto_sign_open with exact aliasing m == sm + 64 resp. m == sm */
#ifndef MLEN
# define MLEN 17
#endif
#ifndef DELTA
# define DELTA 5
#endif
#ifndef FORM
# define FORM 0
#endif
#include "verif.h"
#include "ideal_hash.h"
#include "ideal_ed25519.h"
#include "rng.h"
#include "misuse.h"
#include "crypto_sign_ed25519.h"
#include "crypto_sign.h"
#define MB (MLEN > 0 ? MLEN : 1)
#define OFF 120
#define ARENA (OFF + MLEN + 64 + 120 + MLEN)

struct IN {
    uint8_t seed[32];
    uint8_t m[MB];
    uint8_t sm[MLEN + 64];
    uint8_t pk[32];
};

VERIF_MAIN
{
    VERIF_INPUT(struct IN, in);
    uint8_t            arena[ARENA], pk[32], sk[64], ref[MLEN + 64], mout[MB];
    unsigned long long l1 = 777, l2 = 777;
    int                r1, r2;

    verif_misuse_expected = 0;
    memset(arena, 0xA5, sizeof arena);
#if FORM == 0 || FORM == 2
    CHECK(crypto_sign_ed25519_seed_keypair(pk, sk, in.seed) == 0, "keypair");
    ideal_hash_count = 0;
# if FORM == 0
    r1 = crypto_sign_ed25519(ref, &l1, in.m, MLEN, sk);
    ideal_hash_count = 0;
    memcpy(arena + OFF + (DELTA), in.m, MLEN);
    r2 = crypto_sign_ed25519(arena + OFF, &l2, arena + OFF + (DELTA), MLEN, sk);
# else
    r1 = crypto_sign(ref, &l1, in.m, MLEN, sk);
    ideal_hash_count = 0;
    memcpy(arena + OFF + 64, in.m, MLEN);
    r2 = crypto_sign(arena + OFF, &l2, arena + OFF + 64, MLEN, sk);
# endif
    CHECK(r1 == 0 && r2 == 0, "both runs succeed");
    CHECK(l1 == MLEN + 64 && l2 == MLEN + 64, "signed-message length = mlen + 64");
    CHECK(v_eq(arena + OFF, ref, MLEN + 64), "crypto_sign: overlapping output = disjoint output");
    CHECK(v_eq(ref + 64, in.m, MLEN), "signed message carries the message after the signature");
#else
    ideal_hash_count = 0;
    memset(mout, 0x11, sizeof mout);
    r1 = crypto_sign_ed25519_open(mout, &l1, in.sm, MLEN + 64, in.pk);
    ideal_hash_count = 0;
    memcpy(arena + OFF, in.sm, MLEN + 64);
    r2 = crypto_sign_ed25519_open(arena + OFF + (DELTA), &l2, arena + OFF, MLEN + 64, in.pk);
    CHECK(r1 == r2, "crypto_sign_open: same verdict with overlapping buffers");
    CHECK(l1 == l2, "crypto_sign_open: same reported length");
    CHECK(v_eq(arena + OFF + (DELTA), mout, MLEN), "crypto_sign_open: overlapping output = disjoint output");
    if (r1 == 0) {
        WITNESS_AT("accepting path");
        CHECK(v_eq(mout, in.sm + 64, MLEN) && l1 == MLEN, "accepted: message = sm + 64, mlen = smlen - 64");
    } else {
        WITNESS_AT("rejecting path");
        CHECK(l1 == 0, "rejected: mlen 0");
    }
#endif
    WITNESS();
}
