/* C03 (K): the reference cores against the specification models, all inputs
 * symbolic.  KERNEL: 0 chacha20 ref xor_ic (64-bit counter), 1 chacha20 ietf
 * ext xor_ic, 2 hchacha20, 3 salsa20 ref xor_ic, 4 hsalsa20, 5 core_salsa20,
 * 6 core_salsa2012, 7 core_salsa208, 8 salsa2012 stream, 9 salsa208 stream.
 * LEN (<= 64) concrete: one block incl. the partial-block tail path. */
#ifndef KERNEL
# define KERNEL 0
#endif
#ifndef LEN
# define LEN 64
#endif
#include "verif.h"
#include "chacha_spec.h"
#include "misuse.h"
#include "crypto_core_hchacha20.h"
#include "crypto_core_hsalsa20.h"
#include "crypto_core_salsa20.h"
#include "crypto_core_salsa2012.h"
#include "crypto_core_salsa208.h"
#include "crypto_stream_salsa2012.h"
#include "crypto_stream_salsa208.h"
#include "crypto_stream/chacha20/stream_chacha20.h"
#include "crypto_stream/salsa20/stream_salsa20.h"
extern struct crypto_stream_chacha20_implementation crypto_stream_chacha20_ref_implementation;
extern struct crypto_stream_salsa20_implementation  crypto_stream_salsa20_ref_implementation;
#define LB (LEN > 0 ? LEN : 1)

struct IN {
    uint8_t  k[32];
    uint8_t  n[16];
    uint8_t  m[LB];
    uint64_t ic;
};

VERIF_MAIN
{
    VERIF_INPUT(struct IN, in);
    uint8_t out[64], blk[64], ctrn[16];
    int     i;

    verif_misuse_expected = 0;
#if KERNEL == 0
    CHECK(crypto_stream_chacha20_ref_implementation.stream_xor_ic(out, in.m, LEN, in.n, in.ic, in.k) == 0, "returns 0");
    spec_chacha20_block(blk, in.k, (uint32_t) in.ic, (uint32_t) (in.ic >> 32), spec_ld32(in.n), spec_ld32(in.n + 4));
    for (i = 0; i < LEN; i++) CHECK(out[i] == (uint8_t) (in.m[i] ^ blk[i]), "chacha20 ref: c = m XOR ChaCha20 block(key, counter, nonce) [RFC 8439 2.3 with 64-bit counter]");
#elif KERNEL == 1
    CHECK(crypto_stream_chacha20_ref_implementation.stream_ietf_ext_xor_ic(out, in.m, LEN, in.n, (uint32_t) in.ic, in.k) == 0, "returns 0");
    spec_chacha20_block(blk, in.k, (uint32_t) in.ic, spec_ld32(in.n), spec_ld32(in.n + 4), spec_ld32(in.n + 8));
    for (i = 0; i < LEN; i++) CHECK(out[i] == (uint8_t) (in.m[i] ^ blk[i]), "chacha20 ietf ref: c = m XOR ChaCha20 block(key, 32-bit counter, 96-bit nonce) [RFC 8439 2.3/2.4]");
#elif KERNEL == 2
    CHECK(crypto_core_hchacha20(out, in.n, in.k, NULL) == 0, "returns 0");
    spec_hchacha20(blk, in.n, in.k);
    CHECK(v_eq(out, blk, 32), "hchacha20 = draft-irtf-cfrg-xchacha 2.2");
#elif KERNEL == 3
    CHECK(crypto_stream_salsa20_ref_implementation.stream_xor_ic(out, in.m, LEN, in.n, in.ic, in.k) == 0, "returns 0");
    memcpy(ctrn, in.n, 8);
    v_st64le(ctrn + 8, in.ic);
    spec_salsa_core(blk, ctrn, in.k, 20);
    for (i = 0; i < LEN; i++) CHECK(out[i] == (uint8_t) (in.m[i] ^ blk[i]), "salsa20 ref: c = m XOR Salsa20(key, nonce, counter)");
#elif KERNEL == 4
    CHECK(crypto_core_hsalsa20(out, in.n, in.k, NULL) == 0, "returns 0");
    spec_hsalsa20(blk, in.n, in.k);
    CHECK(v_eq(out, blk, 32), "hsalsa20 = NaCl HSalsa20");
#elif KERNEL == 5
    CHECK(crypto_core_salsa20(out, in.n, in.k, NULL) == 0, "returns 0");
    spec_salsa_core(blk, in.n, in.k, 20);
    CHECK(v_eq(out, blk, 64), "core_salsa20 = Salsa20 core, 20 rounds");
#elif KERNEL == 6
    CHECK(crypto_core_salsa2012(out, in.n, in.k, NULL) == 0, "returns 0");
    spec_salsa_core(blk, in.n, in.k, 12);
    CHECK(v_eq(out, blk, 64), "core_salsa2012 = Salsa20 core, 12 rounds");
#elif KERNEL == 7
    CHECK(crypto_core_salsa208(out, in.n, in.k, NULL) == 0, "returns 0");
    spec_salsa_core(blk, in.n, in.k, 8);
    CHECK(v_eq(out, blk, 64), "core_salsa208 = Salsa20 core, 8 rounds");
#elif KERNEL == 8
    CHECK(crypto_stream_salsa2012_xor(out, in.m, LEN, in.n, in.k) == 0, "returns 0");
    memcpy(ctrn, in.n, 8); memset(ctrn + 8, 0, 8);
    spec_salsa_core(blk, ctrn, in.k, 12);
    for (i = 0; i < LEN; i++) CHECK(out[i] == (uint8_t) (in.m[i] ^ blk[i]), "salsa2012_xor first block");
#else
    CHECK(crypto_stream_salsa208_xor(out, in.m, LEN, in.n, in.k) == 0, "returns 0");
    memcpy(ctrn, in.n, 8); memset(ctrn + 8, 0, 8);
    spec_salsa_core(blk, ctrn, in.k, 8);
    for (i = 0; i < LEN; i++) CHECK(out[i] == (uint8_t) (in.m[i] ^ blk[i]), "salsa208_xor first block");
#endif
    WITNESS();
}
