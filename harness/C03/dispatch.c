/* C03 (G): the stream API glue (real stream_chacha20.c, stream_salsa20.c,
 * stream_xchacha20.c, stream_xsalsa20.c) over idealised block functions:
 * every public form returns keystream bytes [64*ic, 64*ic+len) of the
 * specified (key, nonce) stream; xor = xor_ic(.,0); stream = xor of zeros;
 * extended-nonce variants derive the subkey with HChaCha20/HSalsa20 and use
 * the last 8 nonce bytes.  LEN concrete; key, nonce, counter, message symbolic. */
#ifndef LEN
# define LEN 65
#endif
#include "verif.h"
#include "ideal.h"
#include "misuse.h"
#include "crypto_stream_chacha20.h"
#include "crypto_stream_salsa20.h"
#include "crypto_stream_xchacha20.h"
#include "crypto_stream_xsalsa20.h"
#include "crypto_stream.h"
#define LB (LEN > 0 ? LEN : 1)

struct IN {
    uint8_t  k[32];
    uint8_t  n[24];
    uint8_t  m[LB];
    uint64_t ic;
    uint32_t ic32;
};

VERIF_MAIN
{
    VERIF_INPUT(struct IN, in);
    uint8_t out[LB], ref[LB], z[LB], sub[32];

    verif_misuse_expected = 0;
    memset(z, 0, LB);
    /* ChaCha20 original: 8-byte nonce, 64-bit counter */
    ideal_chacha_xor(ref, in.m, LEN, in.k, in.ic, in.n);
    CHECK(crypto_stream_chacha20_xor_ic(out, in.m, LEN, in.n, in.ic, in.k) == 0 && v_eq(out, ref, LEN), "chacha20_xor_ic = m XOR keystream from block ic");
    ideal_chacha_xor(ref, in.m, LEN, in.k, 0, in.n);
    CHECK(crypto_stream_chacha20_xor(out, in.m, LEN, in.n, in.k) == 0 && v_eq(out, ref, LEN), "chacha20_xor = xor_ic with counter 0");
    ideal_chacha_xor(ref, z, LEN, in.k, 0, in.n);
    CHECK(crypto_stream_chacha20(out, LEN, in.n, in.k) == 0 && v_eq(out, ref, LEN), "chacha20 stream = keystream from block 0");
    /* IETF: 12-byte nonce, 32-bit counter */
    ASSUME((uint64_t) in.ic32 + (LEN + 63) / 64 <= 0x100000000ULL);
    ideal_chacha_ietf_xor(ref, in.m, LEN, in.k, in.ic32, in.n);
    CHECK(crypto_stream_chacha20_ietf_xor_ic(out, in.m, LEN, in.n, in.ic32, in.k) == 0 && v_eq(out, ref, LEN), "chacha20_ietf_xor_ic = m XOR keystream from block ic (96-bit nonce)");
    ideal_chacha_ietf_xor(ref, in.m, LEN, in.k, 0, in.n);
    CHECK(crypto_stream_chacha20_ietf_xor(out, in.m, LEN, in.n, in.k) == 0 && v_eq(out, ref, LEN), "chacha20_ietf_xor = xor_ic with counter 0");
    ideal_chacha_ietf_xor(ref, z, LEN, in.k, 0, in.n);
    CHECK(crypto_stream_chacha20_ietf(out, LEN, in.n, in.k) == 0 && v_eq(out, ref, LEN), "chacha20_ietf stream = keystream from block 0");
    /* XChaCha20 */
    ideal_hchacha20(sub, in.n, in.k, NULL);
    ideal_chacha_xor(ref, in.m, LEN, sub, in.ic, in.n + 16);
    CHECK(crypto_stream_xchacha20_xor_ic(out, in.m, LEN, in.n, in.ic, in.k) == 0 && v_eq(out, ref, LEN), "xchacha20_xor_ic = ChaCha20(HChaCha20(k, n[0..16]), n[16..24], ic)");
    ideal_chacha_xor(ref, z, LEN, sub, 0, in.n + 16);
    CHECK(crypto_stream_xchacha20(out, LEN, in.n, in.k) == 0 && v_eq(out, ref, LEN), "xchacha20 stream");
    ideal_chacha_xor(ref, in.m, LEN, sub, 0, in.n + 16);
    CHECK(crypto_stream_xchacha20_xor(out, in.m, LEN, in.n, in.k) == 0 && v_eq(out, ref, LEN), "xchacha20_xor");
    /* Salsa20 / XSalsa20 */
    ideal_salsa_xor(20, ref, in.m, LEN, in.k, in.ic, in.n);
    CHECK(crypto_stream_salsa20_xor_ic(out, in.m, LEN, in.n, in.ic, in.k) == 0 && v_eq(out, ref, LEN), "salsa20_xor_ic");
    ideal_salsa_xor(20, ref, in.m, LEN, in.k, 0, in.n);
    CHECK(crypto_stream_salsa20_xor(out, in.m, LEN, in.n, in.k) == 0 && v_eq(out, ref, LEN), "salsa20_xor");
    ideal_salsa_xor(20, ref, z, LEN, in.k, 0, in.n);
    CHECK(crypto_stream_salsa20(out, LEN, in.n, in.k) == 0 && v_eq(out, ref, LEN), "salsa20 stream");
    ideal_hsalsa20(sub, in.n, in.k, NULL);
    ideal_salsa_xor(20, ref, in.m, LEN, sub, in.ic, in.n + 16);
    CHECK(crypto_stream_xsalsa20_xor_ic(out, in.m, LEN, in.n, in.ic, in.k) == 0 && v_eq(out, ref, LEN), "xsalsa20_xor_ic = Salsa20(HSalsa20(k, n[0..16]), n[16..24], ic)");
    ideal_salsa_xor(20, ref, z, LEN, sub, 0, in.n + 16);
    CHECK(crypto_stream_xsalsa20(out, LEN, in.n, in.k) == 0 && v_eq(out, ref, LEN), "xsalsa20 stream");
    CHECK(crypto_stream(out, LEN, in.n, in.k) == 0 && v_eq(out, ref, LEN), "crypto_stream = xsalsa20");
    ideal_salsa_xor(20, ref, in.m, LEN, sub, 0, in.n + 16);
    CHECK(crypto_stream_xor(out, in.m, LEN, in.n, in.k) == 0 && v_eq(out, ref, LEN), "crypto_stream_xor = xsalsa20_xor");
    WITNESS();
}
