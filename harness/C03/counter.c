/* C03 (K): counter progression and split consistency of the reference stream
 * cores (the real chacha20_ref.c is included so that its static context is
 * visible).  From an ARBITRARY 64-bit block counter ic:
 *  MODE 0: after processing LEN bytes the stored counter is
 *          ic + ceil(LEN/64) mod 2^64 (incl. the 32-bit carry);
 *  MODE 1: multi-block calls (A+B bytes), key/nonce concretised to the RFC 8439
 *          test vector, message symbolic: byte i = m[i] XOR Block(ic+i/64)[i%64].
 * With the one-block K-obligation this yields: bytes [64i, 64i+64) of any call
 * = Block(key, nonce, ic + i) for the lengths bounded. */
#include "verif.h"
#include "misuse.h"
#include "chacha_spec.h"
#include "crypto_stream/chacha20/ref/chacha20_ref.c"
#ifndef ICSTART
# define ICSTART 0xfffffffeULL
#endif

#ifndef A
# define A 64
#endif
#ifndef B
# define B 17
#endif
#define TOT (A + B)

struct IN {
    uint8_t  k[32], n[8];
    uint8_t  m[TOT > 0 ? TOT : 1];
    uint64_t ic;
};

VERIF_MAIN
{
    VERIF_INPUT(struct IN, in);
    verif_misuse_expected = 0;
#if MODE == 0
    {
        chacha_ctx ctx;
        uint8_t    icb[8], out[TOT > 0 ? TOT : 1];
        uint64_t   want = in.ic + (TOT + 63) / 64, got;
        v_st64le(icb, in.ic);
        chacha_keysetup(&ctx, in.k);
        chacha_ivsetup(&ctx, in.n, icb);
        chacha20_encrypt_bytes(&ctx, in.m, out, TOT);
        got = (uint64_t) ctx.input[12] | ((uint64_t) ctx.input[13] << 32);
        CHECK(got == want, "stored block counter = ic + ceil(len/64) mod 2^64 (32-bit carry propagated)");
    }
#else
    {
        /* multi-block data path with the key/nonce CONCRETISED (recorded cut: the
         * load / xor / store path and the pointer advance per 64-byte stride do not
         * depend on key values); the message is symbolic; the counter starts at
         * ICSTART so that the 32-bit carry is crossed inside the call. */
        static const uint8_t key[32] = { 0x00, 0x01, 0x02, 0x03, 0x04, 0x05, 0x06, 0x07, 0x08, 0x09, 0x0a, 0x0b, 0x0c, 0x0d, 0x0e, 0x0f,
                                         0x10, 0x11, 0x12, 0x13, 0x14, 0x15, 0x16, 0x17, 0x18, 0x19, 0x1a, 0x1b, 0x1c, 0x1d, 0x1e, 0x1f };
        static const uint8_t nonce[8] = { 0x00, 0x00, 0x00, 0x4a, 0x00, 0x00, 0x00, 0x00 };
        uint8_t  out[TOT], blk[64];
        uint64_t ic = ICSTART;
        size_t   i;
        CHECK(stream_ref_xor_ic(out, in.m, TOT, nonce, ic, key) == 0, "returns 0");
        for (i = 0; i < TOT; i++) {
            if (i % 64 == 0) {
                uint64_t c = ic + i / 64;
                spec_chacha20_block(blk, key, (uint32_t) c, (uint32_t) (c >> 32), spec_ld32(nonce), spec_ld32(nonce + 4));
            }
            CHECK(out[i] == (uint8_t) (in.m[i] ^ blk[i % 64]), "byte i of a multi-block call = m[i] XOR Block(ic + i/64)[i mod 64]");
        }
    }
#endif
    WITNESS();
}
