/* C03 / C12: the IETF ChaCha20 API never lets its 32-bit block counter wrap:
 * for ALL initial counters and ALL lengths up to 2^63, sodium_misuse() is
 * reached  <=>  ic + ceil(mlen/64) > 2^32; otherwise the request is forwarded
 * unchanged to the back end.  Back ends only record their arguments. */
#include "verif.h"
#include "ideal_impl.h"
#include "misuse.h"
#include "crypto_stream_chacha20.h"

struct IN {
    uint64_t mlen;
    uint32_t ic;
    uint8_t  which;
};

VERIF_MAIN
{
    VERIF_INPUT(struct IN, in);
    static uint8_t    buf[1], n[12], k[32];
    unsigned __int128 blocks = ((unsigned __int128) in.mlen + 63) / 64;


    if (in.which == 0) {
        verif_misuse_expected = (unsigned __int128) in.ic + blocks > ((unsigned __int128) 1 << 32);
        crypto_stream_chacha20_ietf_xor_ic(buf, buf, in.mlen, n, in.ic, k);
        MISUSE_MUST_HAVE_FIRED();
        CHECK(impl_calls == 1 && impl_last.which == 4 && impl_last.len == in.mlen && impl_last.ic == in.ic, "in-range request forwarded unchanged");
    } else if (in.which == 1) {
        verif_misuse_expected = blocks > ((unsigned __int128) 1 << 32);
        crypto_stream_chacha20_ietf_xor(buf, buf, in.mlen, n, k);
        MISUSE_MUST_HAVE_FIRED();
        CHECK(impl_calls == 1 && impl_last.which == 4 && impl_last.len == in.mlen && impl_last.ic == 0, "in-range request forwarded with counter 0");
    } else {
        verif_misuse_expected = blocks > ((unsigned __int128) 1 << 32);
        crypto_stream_chacha20_ietf(buf, in.mlen, n, k);
        MISUSE_MUST_HAVE_FIRED();
        CHECK(impl_calls == 1 && impl_last.which == 2 && impl_last.len == in.mlen, "in-range keystream request forwarded");
    }
    WITNESS();
}
