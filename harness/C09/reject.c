/* C09 / C02: pull of an ARBITRARY presented chunk from an arbitrary state:
 * accepted <=> stored MAC == MAC(spec input under the state's key/nonce);
 * on rejection the state is byte-identical to before, *mlen_p = 0,
 * *tag_p = 0xff and the output buffer is untouched.  INLEN, ADLEN concrete. */
#ifndef INLEN
# define INLEN 34
#endif
#ifndef ADLEN
# define ADLEN 5
#endif
#include "ss_spec.h"
#include "misuse.h"
#define IB (INLEN > 0 ? INLEN : 1)
#define AB (ADLEN > 0 ? ADLEN : 1)
#define ML (INLEN >= 17 ? INLEN - 17 : 0)
#define MB (ML > 0 ? ML : 1)

struct IN {
    uint8_t k[32];
    uint8_t nonce[12];
    uint8_t chunk[IB];
    uint8_t mac_delta[16];
    uint8_t ad[AB];
    uint8_t fill[MB];
};

VERIF_MAIN
{
    VERIF_INPUT(struct IN, in);
    ss_state           st, st0, sspec;
    uint8_t            cin[IB], good[16], mout[MB], mexp[MB], tag = 0x33, stag = 0;
    unsigned long long mlen = 999;
    int                ret, i, delta_zero = 1;

    verif_misuse_expected = 0;
    memcpy(st.k, in.k, 32);
    memcpy(st.nonce, in.nonce, 12);
    memset(st._pad, 0, 8);
    st0 = st;
    sspec = st;
    memcpy(cin, in.chunk, IB);
    memcpy(mout, in.fill, MB);
#if INLEN >= 17
    spec_pull_mac(&st, good, &stag, cin, ML, in.ad, ADLEN);
    for (i = 0; i < 16; i++) {
        cin[1 + ML + i] = good[i] ^ in.mac_delta[i];
        if (in.mac_delta[i] != 0) delta_zero = 0;
    }
#endif
    ret = crypto_secretstream_xchacha20poly1305_pull(&st, mout, &mlen, &tag, cin, INLEN, in.ad, ADLEN);
#if INLEN < 17
    CHECK(ret == -1, "chunk shorter than ABYTES is rejected");
    delta_zero = 0;
#else
    CHECK((ret == 0) == delta_zero, "accepted <=> all 16 stored MAC bytes equal the recomputed MAC");
#endif
    CHECK(ret == 0 || ret == -1, "return value is 0 or -1");
    if (ret != 0) {
        CHECK(ss_state_eq(&st, &st0), "rejected pull leaves the state unchanged");
        CHECK(mlen == 0, "rejected pull: *mlen_p = 0");
        CHECK(tag == 0xff, "rejected pull: *tag_p = 0xff");
        CHECK(v_eq(mout, in.fill, MB), "rejected pull: output buffer untouched");
    }
#if INLEN >= 17
    else {
        ss_keystream(mexp, cin + 1, ML, &st0, 2);
        CHECK(mlen == ML && v_eq(mout, mexp, ML), "accepted pull: m = c XOR keystream from block 2");
        CHECK(tag == stag, "accepted pull: tag = decrypted first byte");
        spec_ss_after(&sspec, good, stag);
        CHECK(ss_state_eq(&st, &sspec), "accepted pull: state advanced as specified");
    }
#endif
    WITNESS();
}
