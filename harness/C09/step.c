/* C09 step lemma (inductive): from ANY state held equally by pusher and
 * puller (counter fully symbolic, so the 2^32 wrap is included), any tag,
 * message and ad: the pushed chunk equals the documented construction, pull
 * returns the same message and tag, and both post-states are equal (to each
 * other and to the specified successor state, incl. explicit and automatic
 * rekey).  MLEN, ADLEN concrete. */
#ifndef MLEN
# define MLEN 17
#endif
#ifndef ADLEN
# define ADLEN 5
#endif
#include "ss_spec.h"
#include "misuse.h"
#define MB (MLEN > 0 ? MLEN : 1)
#define AB (ADLEN > 0 ? ADLEN : 1)

struct IN {
    uint8_t k[32];
    uint8_t nonce[12];
    uint8_t m[MB];
    uint8_t ad[AB];
    uint8_t tag;
#ifdef WRAP
    uint8_t dummy;
#endif
};

VERIF_MAIN
{
    VERIF_INPUT(struct IN, in);
    ss_state           s_push, s_pull, s_spec;
    uint8_t            out[MLEN + 17], sout[MLEN + 17], m2[MB], tag2 = 0x55;
    unsigned long long outlen = 999, mlen2 = 999;

    verif_misuse_expected = 0;
#ifdef WRAP
    /* witness for the automatic rekey: the counter is about to wrap */
    ASSUME(v_ld32le(in.nonce) == 0xffffffffU && (in.tag & crypto_secretstream_xchacha20poly1305_TAG_REKEY) == 0);
#endif
    memcpy(s_push.k, in.k, 32);
    memcpy(s_push.nonce, in.nonce, 12);
    memset(s_push._pad, 0, 8);
    s_pull = s_push;
    s_spec = s_push;

    spec_push(&s_spec, sout, in.m, MLEN, in.ad, ADLEN, in.tag);
    CHECK(crypto_secretstream_xchacha20poly1305_push(&s_push, out, &outlen, in.m, MLEN, in.ad, ADLEN, in.tag) == 0, "push returns 0");
    CHECK(outlen == MLEN + 17, "push: outlen = mlen + ABYTES");
    CHECK(v_eq(out, sout, MLEN + 17), "pushed chunk = encrypted tag || ciphertext || Poly1305 tag of the documented construction");
    CHECK(ss_state_eq(&s_push, &s_spec), "pusher state after push = specified successor (nonce XOR mac, counter+1, rekey on REKEY tag or counter wrap)");
    CHECK(crypto_secretstream_xchacha20poly1305_pull(&s_pull, m2, &mlen2, &tag2, out, outlen, in.ad, ADLEN) == 0, "pull of the genuine chunk succeeds");
    CHECK(mlen2 == MLEN && v_eq(m2, in.m, MLEN), "pull returns the pushed message");
    CHECK(tag2 == in.tag, "pull returns the pushed tag");
    CHECK(ss_state_eq(&s_pull, &s_push), "puller and pusher states equal again after the step");
    /* explicit rekey keeps them equal and follows the construction */
    crypto_secretstream_xchacha20poly1305_rekey(&s_push);
    crypto_secretstream_xchacha20poly1305_rekey(&s_pull);
    spec_rekey(&s_spec);
    CHECK(ss_state_eq(&s_pull, &s_push) && ss_state_eq(&s_push, &s_spec), "explicit rekey: (k || inonce) encrypted under itself, counter reset to 1, on both sides");
    WITNESS();
}
