/* Specification model of crypto_secretstream_xchacha20poly1305 (libsodium
 * documentation, "Encrypted streams and file encryption" / algorithm section)
 * over the idealised cores. */
#ifndef SS_SPEC_H
#define SS_SPEC_H
#include "verif.h"
#include "ideal.h"
#include "crypto_secretstream_xchacha20poly1305.h"

typedef crypto_secretstream_xchacha20poly1305_state ss_state;
#define SS_MACIN_MAX 260

static void
ss_keystream(uint8_t *out, const uint8_t *in, size_t len, const ss_state *st, uint32_t ic)
{
    ideal_chacha_ietf_xor(out, in, len, st->k, ic, st->nonce);
}

static void
spec_rekey(ss_state *st)
{
    uint8_t buf[40];
    memcpy(buf, st->k, 32);
    memcpy(buf + 32, st->nonce + 4, 8);
    ss_keystream(buf, buf, 40, st, 0);
    memcpy(st->k, buf, 32);
    memcpy(st->nonce + 4, buf + 32, 8);
    st->nonce[0] = 1; st->nonce[1] = 0; st->nonce[2] = 0; st->nonce[3] = 0;
}

/* MAC input for (ad, encrypted tag block, c) */
static size_t
spec_ss_macin(uint8_t *o, const uint8_t tagblock[64], const uint8_t *c, size_t mlen, const uint8_t *ad, size_t adlen)
{
    size_t n = 0, pad;
    if (adlen) memcpy(o, ad, adlen);
    n += adlen;
    while (n % 16) o[n++] = 0;
    memcpy(o + n, tagblock, 64);
    n += 64;
    if (mlen) memcpy(o + n, c, mlen);
    n += mlen;
    pad = (0x10 - 64 + mlen) & 0xf; /* documented quirk of the construction */
    while (pad-- > 0) o[n++] = 0;
    v_st64le(o + n, adlen); n += 8;
    v_st64le(o + n, 64 + mlen); n += 8;
    return n;
}

static void
spec_ss_after(ss_state *st, const uint8_t mac[16], uint8_t tag)
{
    int      i;
    uint32_t ctr;
    for (i = 0; i < 8; i++) st->nonce[4 + i] ^= mac[i];
    ctr = v_ld32le(st->nonce) + 1;
    v_st32le(st->nonce, ctr);
    if ((tag & crypto_secretstream_xchacha20poly1305_TAG_REKEY) != 0 || ctr == 0) {
        spec_rekey(st);
    }
}

/* one pushed chunk: out = enc(tag) || c || mac ; st advanced */
static void
spec_push(ss_state *st, uint8_t *out, const uint8_t *m, size_t mlen, const uint8_t *ad, size_t adlen, uint8_t tag)
{
    uint8_t block0[64], tagblock[64], macin[SS_MACIN_MAX], mac[16];
    size_t  n;
    memset(block0, 0, 64);
    ss_keystream(block0, block0, 64, st, 0);
    memset(tagblock, 0, 64);
    tagblock[0] = tag;
    ss_keystream(tagblock, tagblock, 64, st, 1);
    out[0] = tagblock[0];
    ss_keystream(out + 1, m, mlen, st, 2);
    n = spec_ss_macin(macin, tagblock, out + 1, mlen, ad, adlen);
    ideal_mac_tag(mac, macin, n, block0);
    memcpy(out + 1 + mlen, mac, 16);
    spec_ss_after(st, mac, tag);
}

/* expected MAC for a presented chunk in[0..1+mlen) under state st; also returns decrypted tag */
static void
spec_pull_mac(const ss_state *st, uint8_t mac[16], uint8_t *tag, const uint8_t *in, size_t mlen, const uint8_t *ad, size_t adlen)
{
    uint8_t block0[64], tagblock[64], macin[SS_MACIN_MAX];
    size_t  n;
    memset(block0, 0, 64);
    ss_keystream(block0, block0, 64, st, 0);
    memset(tagblock, 0, 64);
    tagblock[0] = in[0];
    ss_keystream(tagblock, tagblock, 64, st, 1);
    *tag = tagblock[0];
    tagblock[0] = in[0];
    n = spec_ss_macin(macin, tagblock, in + 1, mlen, ad, adlen);
    ideal_mac_tag(mac, macin, n, block0);
}

static int
ss_state_eq(const ss_state *a, const ss_state *b)
{
    return v_eq(a->k, b->k, 32) && v_eq(a->nonce, b->nonce, 12) && v_eq(a->_pad, b->_pad, 8);
}
#endif
