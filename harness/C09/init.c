/* C09: init_push / init_pull establish equal states from header || key:
 * k = HChaCha20(key, header[0..16]), counter = 1, inonce = header[16..24];
 * the header is exactly the 24 bytes served by the random source. */
#include "ss_spec.h"
#include "rng.h"
#include "misuse.h"

struct IN {
    uint8_t key[32];
    uint8_t rng[24];
};

VERIF_MAIN
{
    VERIF_INPUT(struct IN, in);
    ss_state a, b;
    uint8_t  header[24], sk[32];

    verif_misuse_expected = 0;
    verif_rng_src = in.rng; verif_rng_cap = 24; verif_rng_pos = 0; verif_rng_nreq = 0;
    CHECK(crypto_secretstream_xchacha20poly1305_init_push(&a, header, in.key) == 0, "init_push returns 0");
    CHECK(verif_rng_pos == 24 && v_eq(header, in.rng, 24), "header = 24 bytes from the random source");
    CHECK(crypto_secretstream_xchacha20poly1305_init_pull(&b, header, in.key) == 0, "init_pull returns 0");
    CHECK(ss_state_eq(&a, &b), "pusher and puller start in equal states");
    ideal_hchacha20(sk, header, in.key, NULL);
    CHECK(v_eq(a.k, sk, 32), "state key = HChaCha20(key, header[0..16])");
    CHECK(v_ld32le(a.nonce) == 1 && v_eq(a.nonce + 4, header + 16, 8), "counter = 1, inonce = header[16..24]");
    WITNESS();
}
