/* Common definitions for all harnesses.
 *
 * Two build modes:
 *   VERIF_CBMC   symbolic: inputs are nondeterministic, CHECK = __CPROVER_assert
 *   REPLAY       native : inputs come from the counterexample (REPLAY_IN_INIT,
 *                generated from the CBMC trace), CHECK prints and exits 1
 *
 * Every harness keeps all of its symbolic inputs in one `struct IN` declared
 * through VERIF_INPUT(), so a counterexample is exactly one value of that
 * struct and can be replayed against a native build of the same code.
 */
#ifndef VERIF_H
#define VERIF_H

#include <stddef.h>
#include <stdint.h>
#include <string.h>

#ifdef REPLAY
# include <stdio.h>
# include <stdlib.h>
# define CHECK(c, msg)                                                       \
    do {                                                                     \
        if (!(c)) {                                                          \
            printf("REPLAY-FAIL: %s\n", msg);                                \
            fflush(stdout);                                                  \
            exit(1);                                                         \
        }                                                                    \
    } while (0)
# define ASSUME(c)                                                           \
    do {                                                                     \
        if (!(c)) {                                                          \
            printf("REPLAY-ASSUME-FALSE: %s\n", #c);                         \
            fflush(stdout);                                                  \
            exit(3);                                                         \
        }                                                                    \
    } while (0)
# define WITNESS()                                                           \
    do {                                                                     \
        printf("REPLAY-END-REACHED\n");                                      \
    } while (0)
# define WITNESS_AT(name) do { } while (0)
# define VERIF_INPUT(T, v) T v = REPLAY_IN_INIT
# define VERIF_MAIN int main(void)
#else
# define CHECK(c, msg) __CPROVER_assert((c), msg)
# define ASSUME(c) __CPROVER_assume(c)
# define WITNESS() __CPROVER_assert(0, "WITNESS")
/* additional named reachability witnesses: EVERY one of them must be reachable */
# define WITNESS_AT(name) __CPROVER_assert(0, "WITNESS " name)
# define VERIF_INPUT(T, v)                                                   \
    T nondet_verif_input_##v(void);                                          \
    T v = nondet_verif_input_##v()
# define VERIF_MAIN void harness(void)
#endif

/* byte-array helpers used by spec models */
static inline uint32_t
v_ld32le(const uint8_t *p)
{
    return (uint32_t) p[0] | ((uint32_t) p[1] << 8) | ((uint32_t) p[2] << 16) |
           ((uint32_t) p[3] << 24);
}
static inline uint64_t
v_ld64le(const uint8_t *p)
{
    return (uint64_t) v_ld32le(p) | ((uint64_t) v_ld32le(p + 4) << 32);
}
static inline void
v_st32le(uint8_t *p, uint32_t v)
{
    p[0] = (uint8_t) v;
    p[1] = (uint8_t) (v >> 8);
    p[2] = (uint8_t) (v >> 16);
    p[3] = (uint8_t) (v >> 24);
}
static inline void
v_st64le(uint8_t *p, uint64_t v)
{
    v_st32le(p, (uint32_t) v);
    v_st32le(p + 4, (uint32_t) (v >> 32));
}
static inline int
v_eq(const uint8_t *a, const uint8_t *b, size_t n)
{
    size_t  i;
    uint8_t d = 0;
    for (i = 0; i < n; i++) {
        d |= a[i] ^ b[i];
    }
    return d == 0;
}

#endif
