/* C18: every *_keygen() output is exactly KEYBYTES bytes requested from the
 * installed random source, in one or more requests that cover the whole key,
 * and nothing else (replaying the source reproduces the key).  KG_FUNC,
 * KG_BYTES, KG_HEADER are supplied by the registry.  KEYPAIR=1: X25519 key
 * pair generators: sk = 32 source bytes, pk = X25519_base(sk). */
#include "verif.h"
#include "rng.h"
#include "misuse.h"
#include KG_HEADER
#ifdef KEYPAIR
# include "ideal_dh.h"
#endif

struct IN {
    uint8_t rng[KG_BYTES + 8];
};

VERIF_MAIN
{
    VERIF_INPUT(struct IN, in);
    uint8_t k[KG_BYTES + 1];
    int     i;
    size_t  covered = 0;

    verif_misuse_expected = 0;
    k[KG_BYTES] = 0x6b;
    verif_rng_src = in.rng; verif_rng_cap = KG_BYTES + 8; verif_rng_pos = 0; verif_rng_nreq = 0;
#ifdef KEYPAIR
    {
        uint8_t pk[32], spk[32];
        CHECK(KG_FUNC(pk, k) == 0, "keypair returns 0");
        ideal_dh_base(spk, in.rng);
        CHECK(v_eq(pk, spk, 32), "public key = X25519_base(secret key)");
    }
#else
    KG_FUNC(k);
#endif
    CHECK(verif_rng_pos == KG_BYTES, "exactly KEYBYTES bytes are requested from the random source");
    CHECK(v_eq(k, in.rng, KG_BYTES), "the key is exactly the bytes served by the source");
    CHECK(k[KG_BYTES] == 0x6b, "nothing written beyond the key");
    for (i = 0; i < verif_rng_nreq; i++) {
        covered += verif_rng_reqs[i].len;
    }
    CHECK(covered == KG_BYTES, "the requests cover the whole key");
    WITNESS();
}
