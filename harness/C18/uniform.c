/* C18: randombytes_uniform with an installed source that has no bounded
 * generator of its own: for ALL upper bounds and ALL draw sequences (accepted
 * within NDRAW draws) the result is the first draw >= 2^32 mod n, reduced
 * mod n; < n; 0 for n < 2; exactly the rejected draws + 1 are consumed. */
#include "verif.h"
#include "randombytes.h"
#include "misuse.h"

#ifndef NDRAW
# define NDRAW 3
#endif

struct IN {
    uint32_t n;
    uint32_t r[NDRAW];
    uint8_t  buf[5];
};

static struct IN *src;
static int        ndraws, nbuf;

static const char *impl_name(void) { return "scripted"; }
static uint32_t
impl_random(void)
{
    ASSUME(ndraws < NDRAW);
    return src->r[ndraws++];
}
static void
impl_buf(void *const buf, const size_t size)
{
    ASSUME(size <= 5);
    memcpy(buf, src->buf, size);
    nbuf++;
}
static randombytes_implementation impl = { impl_name, impl_random, NULL, NULL, impl_buf, NULL };

VERIF_MAIN
{
    VERIF_INPUT(struct IN, in);
    uint32_t got, min, want = 0;
    int      i, first = -1;
    uint8_t  out[5];

    verif_misuse_expected = 0;
#ifdef NVAL
    ASSUME(in.n == NVAL); /* upper bound enumerated (a symbolic 32-bit divisor stalls every back end) */
#elif defined(NBITS)
    ASSUME(in.n < (1u << NBITS));
#endif
    src = &in;
    CHECK(randombytes_set_implementation(&impl) == 0, "set_implementation succeeds");
    if (in.n < 2) {
        got = randombytes_uniform(in.n);
        CHECK(got == 0 && ndraws == 0, "uniform(n < 2) = 0 without drawing");
    } else {
        min = (uint32_t) ((0xffffffffU % in.n + 1U) % in.n); /* 2^32 mod n */
        for (i = NDRAW - 1; i >= 0; i--) {
            if (in.r[i] >= min) first = i;
        }
        ASSUME(first >= 0); /* bound: accepted within NDRAW draws */
        want = in.r[first] % in.n;
        got  = randombytes_uniform(in.n);
        CHECK(got == want, "uniform(n) = first draw >= 2^32 mod n, reduced mod n");
        CHECK(got < in.n, "uniform(n) < n");
        CHECK(ndraws == first + 1, "draws below 2^32 mod n are rejected and redrawn; nothing beyond the accepted draw is consumed");
    }
    /* pluggability: randombytes_buf / randombytes_random go to the installed source */
    ndraws = 0;
    CHECK(randombytes_random() == in.r[0], "randombytes_random comes from the installed source");
    randombytes_buf(out, 5);
    CHECK(nbuf == 1 && v_eq(out, in.buf, 5), "randombytes_buf comes from the installed source");
    randombytes_buf(out, 0);
    CHECK(nbuf == 1, "zero-length request is not forwarded");
    WITNESS();
}
