/* C18: randombytes_buf_deterministic(seed) = ChaCha20-IETF keystream under the
 * nonce "LibsodiumDRG", counter 0, for LEN bytes (LEN concrete). */
#ifndef LEN
# define LEN 65
#endif
#include "verif.h"
#include "ideal.h"
#include "randombytes.h"
#include "misuse.h"
#define LB (LEN > 0 ? LEN : 1)

struct IN {
    uint8_t  seed[32];
    uint64_t big;
};

VERIF_MAIN
{
    VERIF_INPUT(struct IN, in);
    static const uint8_t nonce[12] = { 'L', 'i', 'b', 's', 'o', 'd', 'i', 'u', 'm', 'D', 'R', 'G' };
    uint8_t              out[LB + 1], ref[LB];

    out[LEN] = 0x77;
    verif_misuse_expected = 0;
    randombytes_buf_deterministic(out, LEN, in.seed);
    ideal_chacha_ietf_xor(ref, NULL, LEN, in.seed, 0, nonce);
    CHECK(v_eq(out, ref, LEN), "buf_deterministic = ChaCha20-IETF(seed, 'LibsodiumDRG') keystream from block 0");
    CHECK(out[LEN] == 0x77, "no byte written beyond the requested size");
#if LEN == 0
    ASSUME(in.big > 0x4000000000ULL);
    verif_misuse_expected = 1;
    randombytes_buf_deterministic(out, in.big, in.seed);
    MISUSE_MUST_HAVE_FIRED();
#endif
    WITNESS();
}
