/* C18: Ed25519 key-pair generation draws exactly its 32-byte seed from the
 * installed random source and equals the deterministic seeded generator on that
 * seed (so replaying the source reproduces the key pair).  Abstract group /
 * SHA-512 as in C06. */
#include "verif.h"
#include "ideal_hash.h"
#include "ideal_ed25519.h"
#include "rng.h"
#include "misuse.h"
#include "crypto_sign_ed25519.h"
#include "crypto_sign.h"

struct IN {
    uint8_t rng[48];
};

VERIF_MAIN
{
    VERIF_INPUT(struct IN, in);
    uint8_t pk[32], sk[64], pk2[32], sk2[64];
    size_t  covered = 0;
    int     i;

    verif_misuse_expected = 0;
    verif_rng_src = in.rng; verif_rng_cap = 48; verif_rng_pos = 0; verif_rng_nreq = 0;
#if WHICH == 0
    CHECK(crypto_sign_ed25519_keypair(pk, sk) == 0, "keypair returns 0");
#else
    CHECK(crypto_sign_keypair(pk, sk) == 0, "keypair returns 0");
#endif
    CHECK(verif_rng_pos == 32, "exactly 32 seed bytes are requested from the random source");
    for (i = 0; i < verif_rng_nreq; i++) covered += verif_rng_reqs[i].len;
    CHECK(covered == 32, "the requests cover the whole seed");
    ideal_hash_count = 0;
    CHECK(crypto_sign_ed25519_seed_keypair(pk2, sk2, in.rng) == 0, "seeded generator");
    CHECK(v_eq(pk, pk2, 32) && v_eq(sk, sk2, 64), "key pair = seed_keypair(the 32 served bytes)");
    CHECK(v_eq(sk, in.rng, 32), "secret key starts with the seed");
    WITNESS();
}
