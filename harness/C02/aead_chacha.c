/* C02: ChaCha20-Poly1305 family decryption of an ARBITRARY presented
 * ciphertext: accept <=> presented tag == MAC(spec key, spec input) on all 16
 * bytes; on rejection nothing of the plaintext is released.
 * CLEN (whole combined ciphertext), ADLEN concrete. */
#ifndef VARIANT
# define VARIANT 1
#endif
#ifndef CLEN
# define CLEN 33
#endif
#ifndef ADLEN
# define ADLEN 5
#endif
#include "aead_chacha_spec.h"
#include "misuse.h"
#define CB (CLEN > 0 ? CLEN : 1)
#define AB (ADLEN > 0 ? ADLEN : 1)
#define ML (CLEN >= 16 ? CLEN - 16 : 0)
#define MB (ML > 0 ? ML : 1)

struct IN {
    uint8_t k[32];
    uint8_t npub[NPUB];
    uint8_t c[CB];          /* ciphertext body; tag part is overwritten below */
    uint8_t tag_delta[16];  /* presented tag = correct tag XOR tag_delta */
    uint8_t ad[AB];
    uint8_t fill[MB];       /* previous contents of the output buffer */
};

VERIF_MAIN
{
    VERIF_INPUT(struct IN, in);
    uint8_t            cin[CB], good[16], mout[MB], mexp[MB];
    unsigned long long mlen = 7777;
    int                ret, i, delta_zero = 1, untouched = 1, zeroed = 1;

    verif_misuse_expected = 0;
    memcpy(cin, in.c, CB);
    memcpy(mout, in.fill, MB);
#if CLEN >= 16
    spec_tag(good, cin, ML, in.ad, ADLEN, in.npub, in.k);
    for (i = 0; i < 16; i++) {
        cin[ML + i] = good[i] ^ in.tag_delta[i];
        if (in.tag_delta[i] != 0) delta_zero = 0;
    }
#endif
    ret = DEC(mout, &mlen, NULL, cin, CLEN, in.ad, ADLEN, in.npub, in.k);
#if CLEN < 16
    CHECK(ret == -1, "input shorter than the tag is rejected");
    CHECK(mlen == 0, "mlen = 0 on rejection");
    CHECK(v_eq(mout, in.fill, MB), "output untouched for too-short input");
#else
    CHECK((ret == 0) == delta_zero, "accepted <=> all 16 presented tag bytes equal the recomputed MAC");
    CHECK(ret == 0 || ret == -1, "return value is 0 or -1");
    if (ret == 0) {
        spec_decrypt_body(mexp, cin, ML, in.npub, in.k);
        CHECK(mlen == ML, "mlen = clen - ABYTES on success");
        CHECK(v_eq(mout, mexp, ML), "plaintext = c XOR keystream");
    } else {
        CHECK(mlen == 0, "mlen = 0 on rejection");
        for (i = 0; i < ML; i++) {
            if (mout[i] != in.fill[i]) untouched = 0;
            if (mout[i] != 0) zeroed = 0;
        }
        CHECK(untouched || zeroed, "on rejection the output is untouched or zero-filled (no plaintext byte released)");
    }
    /* verify-only mode: same verdict, no output */
    ret = DEC_DET(NULL, NULL, cin, ML, cin + ML, in.ad, ADLEN, in.npub, in.k);
    CHECK((ret == 0) == delta_zero, "m == NULL verify-only mode gives the same verdict");
#endif
    WITNESS();
}
