/* C02: secretbox open on an arbitrary presented box: accept <=> tag matches;
 * on rejection the output buffer is untouched (verify-before-decrypt). */
#ifndef CLEN
# define CLEN 49
#endif
#include "secretbox_spec.h"
#include "misuse.h"
#define CB (CLEN > 0 ? CLEN : 1)
#define ML (CLEN >= 16 ? CLEN - 16 : 0)
#define MB (ML > 0 ? ML : 1)

struct IN {
    uint8_t k[32];
    uint8_t n[24];
    uint8_t c[CB];
    uint8_t tag_delta[16];
    uint8_t fill[MB];
};

VERIF_MAIN
{
    VERIF_INPUT(struct IN, in);
    uint8_t cin[CB], good[16], mout[MB], otk[32], mexp[MB];
    int     ret, i, delta_zero = 1;

    verif_misuse_expected = 0;
    memcpy(cin, in.c, CB);
    memcpy(mout, in.fill, MB);
#if CLEN >= 16
    spec_secretbox_tag(good, cin + 16, ML, in.n, in.k);
    for (i = 0; i < 16; i++) {
        cin[i] = good[i] ^ in.tag_delta[i];
        if (in.tag_delta[i] != 0) delta_zero = 0;
    }
#endif
    ret = SB_OPEN_EASY(mout, cin, CLEN, in.n, in.k);
#if CLEN < 16
    CHECK(ret == -1, "box shorter than the tag is rejected");
    CHECK(v_eq(mout, in.fill, MB), "output untouched for a too-short box");
#else
    CHECK((ret == 0) == delta_zero, "accepted <=> all 16 presented tag bytes equal the recomputed MAC");
    CHECK(ret == 0 || ret == -1, "return value is 0 or -1");
    if (ret == 0) {
        sb_keystream_xor(mexp, cin + 16, ML, otk, in.n, in.k);
        CHECK(v_eq(mout, mexp, ML), "plaintext = c XOR keystream[32..]");
    } else {
        CHECK(v_eq(mout, in.fill, MB), "on rejection the output buffer is untouched");
    }
    ret = SB_OPEN_DETACHED(NULL, cin + 16, cin, ML, in.n, in.k);
    CHECK((ret == 0) == delta_zero, "m == NULL verify-only mode gives the same verdict");
# if SBVAR == 0
    {
        /* NaCl form */
        uint8_t cp[CLEN + 16], mq[CLEN + 16], mq0[CLEN + 16];
        memset(cp, 0, 16);
        memcpy(cp + 16, cin, CLEN);
        memset(mq, 0x5a, sizeof mq);
        memcpy(mq0, mq, sizeof mq);
        ret = crypto_secretbox_open(mq, cp, CLEN + 16, in.n, in.k);
        CHECK((ret == 0) == delta_zero, "NaCl open: accepted <=> tag matches");
        if (ret != 0) CHECK(v_eq(mq, mq0, CLEN + 16), "NaCl open: output untouched on rejection");
    }
# endif
#endif
    WITNESS();
}
