/* Specification model of crypto_secretbox (NaCl XSalsa20-Poly1305) and its
 * XChaCha20 variant over the idealised cores.  SBVAR: 0 xsalsa20, 1 xchacha20 */
#ifndef SECRETBOX_SPEC_H
#define SECRETBOX_SPEC_H
#include "verif.h"
#include "ideal.h"
#include "crypto_secretbox.h"
#include "crypto_secretbox_xsalsa20poly1305.h"
#include "crypto_secretbox_xchacha20poly1305.h"

#ifndef SBVAR
# define SBVAR 0
#endif
#if SBVAR == 0
# define SB_DETACHED crypto_secretbox_detached
# define SB_EASY crypto_secretbox_easy
# define SB_OPEN_DETACHED crypto_secretbox_open_detached
# define SB_OPEN_EASY crypto_secretbox_open_easy
#else
# define SB_DETACHED crypto_secretbox_xchacha20poly1305_detached
# define SB_EASY crypto_secretbox_xchacha20poly1305_easy
# define SB_OPEN_DETACHED crypto_secretbox_xchacha20poly1305_open_detached
# define SB_OPEN_EASY crypto_secretbox_xchacha20poly1305_open_easy
#endif

/* keystream byte range [32, 32+len) XORed onto m; one-time key = keystream[0..32) */
static void
sb_keystream_xor(uint8_t *out, const uint8_t *m, size_t len, uint8_t otk[32], const uint8_t n[24], const uint8_t k[32])
{
    uint8_t subkey[32], blk[64];
    size_t  i;
#if SBVAR == 0
    ideal_hsalsa20(subkey, n, k, NULL);
#else
    ideal_hchacha20(subkey, n, k, NULL);
#endif
    for (i = 0; i < 32 + len; i++) {
        if ((i & 63) == 0) {
#if SBVAR == 0
            ideal_salsa_block(20, subkey, i >> 6, n + 16, blk);
#else
            ideal_chacha_block(subkey, i >> 6, n + 16, blk);
#endif
        }
        if (i < 32) {
            otk[i] = blk[i];
        } else {
            out[i - 32] = (uint8_t) (m[i - 32] ^ blk[i & 63]);
        }
    }
}

static void
spec_secretbox(uint8_t *c, uint8_t mac[16], const uint8_t *m, size_t mlen, const uint8_t n[24], const uint8_t k[32])
{
    uint8_t otk[32];
    sb_keystream_xor(c, m, mlen, otk, n, k);
    ideal_mac_tag(mac, c, mlen, otk);
}

static void
spec_secretbox_tag(uint8_t mac[16], const uint8_t *c, size_t clen, const uint8_t n[24], const uint8_t k[32])
{
    uint8_t otk[32], dummy[1];
    sb_keystream_xor(dummy, dummy, 0, otk, n, k);
    ideal_mac_tag(mac, c, clen, otk);
}
#endif
