
#ifndef sodium_version_H
#define sodium_version_H

#include "export.h"

#define SODIUM_VERSION_STRING "1.0.21"

#define SODIUM_LIBRARY_VERSION_MAJOR 28
#define SODIUM_LIBRARY_VERSION_MINOR 0


#ifdef __cplusplus
extern "C" {
#endif

SODIUM_EXPORT
const char *sodium_version_string(void);

SODIUM_EXPORT
int         sodium_library_version_major(void);

SODIUM_EXPORT
int         sodium_library_version_minor(void);

SODIUM_EXPORT
int         sodium_library_minimal(void);

#ifdef __cplusplus
}
#endif

#endif
