/* FIPS 180-4 SHA-256 / SHA-512 compression functions.
 *
 * Written from the standard; Ch / Maj and the T1 sum are written in the
 * algebraically equal forms ((f^g)&e)^g, (a&(b|c))|(b&c), h+((S1+Ch)+(K+W)):
 * against the literal forms no back end decides the 2^768-input miter within
 * minutes (DESIGN.md C04); the three rewrites are justified by the separate
 * lemma obligations "sha2-lemmas" (all operand values).  Validated against
 * the FIPS vectors by bin/setup. */
#ifndef SHA2_SPEC_H
#define SHA2_SPEC_H
#include <stdint.h>

static const uint32_t SPEC_K256[64] = {
    0x428a2f98, 0x71374491, 0xb5c0fbcf, 0xe9b5dba5, 0x3956c25b, 0x59f111f1, 0x923f82a4, 0xab1c5ed5,
    0xd807aa98, 0x12835b01, 0x243185be, 0x550c7dc3, 0x72be5d74, 0x80deb1fe, 0x9bdc06a7, 0xc19bf174,
    0xe49b69c1, 0xefbe4786, 0x0fc19dc6, 0x240ca1cc, 0x2de92c6f, 0x4a7484aa, 0x5cb0a9dc, 0x76f988da,
    0x983e5152, 0xa831c66d, 0xb00327c8, 0xbf597fc7, 0xc6e00bf3, 0xd5a79147, 0x06ca6351, 0x14292967,
    0x27b70a85, 0x2e1b2138, 0x4d2c6dfc, 0x53380d13, 0x650a7354, 0x766a0abb, 0x81c2c92e, 0x92722c85,
    0xa2bfe8a1, 0xa81a664b, 0xc24b8b70, 0xc76c51a3, 0xd192e819, 0xd6990624, 0xf40e3585, 0x106aa070,
    0x19a4c116, 0x1e376c08, 0x2748774c, 0x34b0bcb5, 0x391c0cb3, 0x4ed8aa4a, 0x5b9cca4f, 0x682e6ff3,
    0x748f82ee, 0x78a5636f, 0x84c87814, 0x8cc70208, 0x90befffa, 0xa4506ceb, 0xbef9a3f7, 0xc67178f2
};
#define R32(x, n) ((uint32_t) (((x) >> (n)) | ((x) << (32 - (n)))))
#define R64(x, n) ((uint64_t) (((x) >> (n)) | ((x) << (64 - (n)))))
#define SPEC_CH(e, f, g) ((((f) ^ (g)) & (e)) ^ (g))
#define SPEC_MAJ(a, b, c) (((a) & ((b) | (c))) | ((b) & (c)))
#define LIT_CH(e, f, g) (((e) & (f)) ^ (~(e) & (g)))
#define LIT_MAJ(a, b, c) (((a) & (b)) ^ ((a) & (c)) ^ ((b) & (c)))

static void
spec_sha256_compress(uint32_t H[8], const uint8_t block[64])
{
    uint32_t W[64], a, b, c, d, e, f, g, h, T1, T2;
    int      t;
    for (t = 0; t < 16; t++) {
        W[t] = ((uint32_t) block[4 * t] << 24) | ((uint32_t) block[4 * t + 1] << 16) | ((uint32_t) block[4 * t + 2] << 8) | block[4 * t + 3];
    }
    for (t = 16; t < 64; t++) {
        uint32_t s1 = R32(W[t - 2], 17) ^ R32(W[t - 2], 19) ^ (W[t - 2] >> 10);
        uint32_t s0 = R32(W[t - 15], 7) ^ R32(W[t - 15], 18) ^ (W[t - 15] >> 3);
        W[t] = s1 + W[t - 7] + s0 + W[t - 16];
    }
    a = H[0]; b = H[1]; c = H[2]; d = H[3]; e = H[4]; f = H[5]; g = H[6]; h = H[7];
    for (t = 0; t < 64; t++) {
        uint32_t S1 = R32(e, 6) ^ R32(e, 11) ^ R32(e, 25);
        uint32_t S0 = R32(a, 2) ^ R32(a, 13) ^ R32(a, 22);
        T1 = h + ((S1 + SPEC_CH(e, f, g)) + (W[t] + SPEC_K256[t]));
        T2 = S0 + SPEC_MAJ(a, b, c);
        h = g; g = f; f = e; e = d + T1; d = c; c = b; b = a; a = T1 + T2;
    }
    H[0] += a; H[1] += b; H[2] += c; H[3] += d; H[4] += e; H[5] += f; H[6] += g; H[7] += h;
}

static const uint64_t SPEC_K512[80] = {
    0x428a2f98d728ae22ULL, 0x7137449123ef65cdULL, 0xb5c0fbcfec4d3b2fULL, 0xe9b5dba58189dbbcULL, 0x3956c25bf348b538ULL,
    0x59f111f1b605d019ULL, 0x923f82a4af194f9bULL, 0xab1c5ed5da6d8118ULL, 0xd807aa98a3030242ULL, 0x12835b0145706fbeULL,
    0x243185be4ee4b28cULL, 0x550c7dc3d5ffb4e2ULL, 0x72be5d74f27b896fULL, 0x80deb1fe3b1696b1ULL, 0x9bdc06a725c71235ULL,
    0xc19bf174cf692694ULL, 0xe49b69c19ef14ad2ULL, 0xefbe4786384f25e3ULL, 0x0fc19dc68b8cd5b5ULL, 0x240ca1cc77ac9c65ULL,
    0x2de92c6f592b0275ULL, 0x4a7484aa6ea6e483ULL, 0x5cb0a9dcbd41fbd4ULL, 0x76f988da831153b5ULL, 0x983e5152ee66dfabULL,
    0xa831c66d2db43210ULL, 0xb00327c898fb213fULL, 0xbf597fc7beef0ee4ULL, 0xc6e00bf33da88fc2ULL, 0xd5a79147930aa725ULL,
    0x06ca6351e003826fULL, 0x142929670a0e6e70ULL, 0x27b70a8546d22ffcULL, 0x2e1b21385c26c926ULL, 0x4d2c6dfc5ac42aedULL,
    0x53380d139d95b3dfULL, 0x650a73548baf63deULL, 0x766a0abb3c77b2a8ULL, 0x81c2c92e47edaee6ULL, 0x92722c851482353bULL,
    0xa2bfe8a14cf10364ULL, 0xa81a664bbc423001ULL, 0xc24b8b70d0f89791ULL, 0xc76c51a30654be30ULL, 0xd192e819d6ef5218ULL,
    0xd69906245565a910ULL, 0xf40e35855771202aULL, 0x106aa07032bbd1b8ULL, 0x19a4c116b8d2d0c8ULL, 0x1e376c085141ab53ULL,
    0x2748774cdf8eeb99ULL, 0x34b0bcb5e19b48a8ULL, 0x391c0cb3c5c95a63ULL, 0x4ed8aa4ae3418acbULL, 0x5b9cca4f7763e373ULL,
    0x682e6ff3d6b2b8a3ULL, 0x748f82ee5defb2fcULL, 0x78a5636f43172f60ULL, 0x84c87814a1f0ab72ULL, 0x8cc702081a6439ecULL,
    0x90befffa23631e28ULL, 0xa4506cebde82bde9ULL, 0xbef9a3f7b2c67915ULL, 0xc67178f2e372532bULL, 0xca273eceea26619cULL,
    0xd186b8c721c0c207ULL, 0xeada7dd6cde0eb1eULL, 0xf57d4f7fee6ed178ULL, 0x06f067aa72176fbaULL, 0x0a637dc5a2c898a6ULL,
    0x113f9804bef90daeULL, 0x1b710b35131c471bULL, 0x28db77f523047d84ULL, 0x32caab7b40c72493ULL, 0x3c9ebe0a15c9bebcULL,
    0x431d67c49c100d4cULL, 0x4cc5d4becb3e42b6ULL, 0x597f299cfc657e2aULL, 0x5fcb6fab3ad6faecULL, 0x6c44198c4a475817ULL
};

static void
spec_sha512_compress(uint64_t H[8], const uint8_t block[128])
{
    uint64_t W[80], a, b, c, d, e, f, g, h, T1, T2;
    int      t, j;
    for (t = 0; t < 16; t++) {
        W[t] = 0;
        for (j = 0; j < 8; j++) W[t] = (W[t] << 8) | block[8 * t + j];
    }
    for (t = 16; t < 80; t++) {
        uint64_t s1 = R64(W[t - 2], 19) ^ R64(W[t - 2], 61) ^ (W[t - 2] >> 6);
        uint64_t s0 = R64(W[t - 15], 1) ^ R64(W[t - 15], 8) ^ (W[t - 15] >> 7);
        W[t] = s1 + W[t - 7] + s0 + W[t - 16];
    }
    a = H[0]; b = H[1]; c = H[2]; d = H[3]; e = H[4]; f = H[5]; g = H[6]; h = H[7];
    for (t = 0; t < 80; t++) {
        uint64_t S1 = R64(e, 14) ^ R64(e, 18) ^ R64(e, 41);
        uint64_t S0 = R64(a, 28) ^ R64(a, 34) ^ R64(a, 39);
        T1 = h + ((S1 + SPEC_CH(e, f, g)) + (W[t] + SPEC_K512[t]));
        T2 = S0 + SPEC_MAJ(a, b, c);
        h = g; g = f; f = e; e = d + T1; d = c; c = b; b = a; a = T1 + T2;
    }
    H[0] += a; H[1] += b; H[2] += c; H[3] += d; H[4] += e; H[5] += f; H[6] += g; H[7] += h;
}
#endif
