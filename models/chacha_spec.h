/* RFC 8439 section 2.3 ChaCha20 block function and Salsa20 (Bernstein, "The
 * Salsa20 family of stream ciphers") written directly from the
 * specifications.  Used as oracles for the K-obligations; validated against
 * the RFC / NaCl test vectors by bin/setup (tools/selftest.py). */
#ifndef CHACHA_SPEC_H
#define CHACHA_SPEC_H
#include <stdint.h>

#define SPEC_ROTL32(v, n) ((uint32_t) (((v) << (n)) | ((v) >> (32 - (n)))))

static void
spec_chacha_qr(uint32_t *s, int a, int b, int c, int d)
{
    s[a] += s[b]; s[d] ^= s[a]; s[d] = SPEC_ROTL32(s[d], 16);
    s[c] += s[d]; s[b] ^= s[c]; s[b] = SPEC_ROTL32(s[b], 12);
    s[a] += s[b]; s[d] ^= s[a]; s[d] = SPEC_ROTL32(s[d], 8);
    s[c] += s[d]; s[b] ^= s[c]; s[b] = SPEC_ROTL32(s[b], 7);
}

static uint32_t
spec_ld32(const uint8_t *p)
{
    return (uint32_t) p[0] | ((uint32_t) p[1] << 8) | ((uint32_t) p[2] << 16) | ((uint32_t) p[3] << 24);
}

static void
spec_chacha_rounds(uint32_t w[16])
{
    int i;
    for (i = 0; i < 10; i++) {
        spec_chacha_qr(w, 0, 4, 8, 12);
        spec_chacha_qr(w, 1, 5, 9, 13);
        spec_chacha_qr(w, 2, 6, 10, 14);
        spec_chacha_qr(w, 3, 7, 11, 15);
        spec_chacha_qr(w, 0, 5, 10, 15);
        spec_chacha_qr(w, 1, 6, 11, 12);
        spec_chacha_qr(w, 2, 7, 8, 13);
        spec_chacha_qr(w, 3, 4, 9, 14);
    }
}

/* state words 12..15 given explicitly (counter / nonce layout is the caller's) */
static void
spec_chacha20_block(uint8_t out[64], const uint8_t key[32], uint32_t w12, uint32_t w13, uint32_t w14, uint32_t w15)
{
    uint32_t s[16], w[16];
    int      i;
    s[0] = 0x61707865; s[1] = 0x3320646e; s[2] = 0x79622d32; s[3] = 0x6b206574;
    for (i = 0; i < 8; i++) s[4 + i] = spec_ld32(key + 4 * i);
    s[12] = w12; s[13] = w13; s[14] = w14; s[15] = w15;
    for (i = 0; i < 16; i++) w[i] = s[i];
    spec_chacha_rounds(w);
    for (i = 0; i < 16; i++) {
        uint32_t v = w[i] + s[i];
        out[4 * i] = (uint8_t) v; out[4 * i + 1] = (uint8_t) (v >> 8);
        out[4 * i + 2] = (uint8_t) (v >> 16); out[4 * i + 3] = (uint8_t) (v >> 24);
    }
}

/* HChaCha20 (draft-irtf-cfrg-xchacha section 2.2): rounds without the final addition; words 0-3, 12-15 */
static void
spec_hchacha20(uint8_t out[32], const uint8_t in[16], const uint8_t key[32])
{
    uint32_t w[16];
    int      i;
    w[0] = 0x61707865; w[1] = 0x3320646e; w[2] = 0x79622d32; w[3] = 0x6b206574;
    for (i = 0; i < 8; i++) w[4 + i] = spec_ld32(key + 4 * i);
    for (i = 0; i < 4; i++) w[12 + i] = spec_ld32(in + 4 * i);
    spec_chacha_rounds(w);
    for (i = 0; i < 4; i++) {
        uint32_t a = w[i], b = w[12 + i];
        out[4 * i] = (uint8_t) a; out[4 * i + 1] = (uint8_t) (a >> 8); out[4 * i + 2] = (uint8_t) (a >> 16); out[4 * i + 3] = (uint8_t) (a >> 24);
        out[16 + 4 * i] = (uint8_t) b; out[16 + 4 * i + 1] = (uint8_t) (b >> 8); out[16 + 4 * i + 2] = (uint8_t) (b >> 16); out[16 + 4 * i + 3] = (uint8_t) (b >> 24);
    }
}

/* Salsa20 core: rounds = 20, 12 or 8 */
static void
spec_salsa_rounds(uint32_t x[16], int rounds)
{
    int i;
    for (i = 0; i < rounds; i += 2) {
        x[4] ^= SPEC_ROTL32(x[0] + x[12], 7);   x[8] ^= SPEC_ROTL32(x[4] + x[0], 9);
        x[12] ^= SPEC_ROTL32(x[8] + x[4], 13);  x[0] ^= SPEC_ROTL32(x[12] + x[8], 18);
        x[9] ^= SPEC_ROTL32(x[5] + x[1], 7);    x[13] ^= SPEC_ROTL32(x[9] + x[5], 9);
        x[1] ^= SPEC_ROTL32(x[13] + x[9], 13);  x[5] ^= SPEC_ROTL32(x[1] + x[13], 18);
        x[14] ^= SPEC_ROTL32(x[10] + x[6], 7);  x[2] ^= SPEC_ROTL32(x[14] + x[10], 9);
        x[6] ^= SPEC_ROTL32(x[2] + x[14], 13);  x[10] ^= SPEC_ROTL32(x[6] + x[2], 18);
        x[3] ^= SPEC_ROTL32(x[15] + x[11], 7);  x[7] ^= SPEC_ROTL32(x[3] + x[15], 9);
        x[11] ^= SPEC_ROTL32(x[7] + x[3], 13);  x[15] ^= SPEC_ROTL32(x[11] + x[7], 18);
        x[1] ^= SPEC_ROTL32(x[0] + x[3], 7);    x[2] ^= SPEC_ROTL32(x[1] + x[0], 9);
        x[3] ^= SPEC_ROTL32(x[2] + x[1], 13);   x[0] ^= SPEC_ROTL32(x[3] + x[2], 18);
        x[6] ^= SPEC_ROTL32(x[5] + x[4], 7);    x[7] ^= SPEC_ROTL32(x[6] + x[5], 9);
        x[4] ^= SPEC_ROTL32(x[7] + x[6], 13);   x[5] ^= SPEC_ROTL32(x[4] + x[7], 18);
        x[11] ^= SPEC_ROTL32(x[10] + x[9], 7);  x[8] ^= SPEC_ROTL32(x[11] + x[10], 9);
        x[9] ^= SPEC_ROTL32(x[8] + x[11], 13);  x[10] ^= SPEC_ROTL32(x[9] + x[8], 18);
        x[12] ^= SPEC_ROTL32(x[15] + x[14], 7); x[13] ^= SPEC_ROTL32(x[12] + x[15], 9);
        x[14] ^= SPEC_ROTL32(x[13] + x[12], 13); x[15] ^= SPEC_ROTL32(x[14] + x[13], 18);
    }
}

/* Salsa20 expansion: in[16] = nonce(8) || counter(8), c = sigma */
static void
spec_salsa_setup(uint32_t s[16], const uint8_t in[16], const uint8_t key[32])
{
    int i;
    s[0] = 0x61707865; s[5] = 0x3320646e; s[10] = 0x79622d32; s[15] = 0x6b206574;
    for (i = 0; i < 4; i++) s[1 + i] = spec_ld32(key + 4 * i);
    for (i = 0; i < 4; i++) s[6 + i] = spec_ld32(in + 4 * i);
    for (i = 0; i < 4; i++) s[11 + i] = spec_ld32(key + 16 + 4 * i);
}

static void
spec_salsa_core(uint8_t out[64], const uint8_t in[16], const uint8_t key[32], int rounds)
{
    uint32_t s[16], x[16];
    int      i;
    spec_salsa_setup(s, in, key);
    for (i = 0; i < 16; i++) x[i] = s[i];
    spec_salsa_rounds(x, rounds);
    for (i = 0; i < 16; i++) {
        uint32_t v = x[i] + s[i];
        out[4 * i] = (uint8_t) v; out[4 * i + 1] = (uint8_t) (v >> 8);
        out[4 * i + 2] = (uint8_t) (v >> 16); out[4 * i + 3] = (uint8_t) (v >> 24);
    }
}

/* HSalsa20: words 0,5,10,15,6,7,8,9 of the round output (no final addition) */
static void
spec_hsalsa20(uint8_t out[32], const uint8_t in[16], const uint8_t key[32])
{
    static const int idx[8] = { 0, 5, 10, 15, 6, 7, 8, 9 };
    uint32_t         x[16];
    int              i;
    spec_salsa_setup(x, in, key);
    spec_salsa_rounds(x, 20);
    for (i = 0; i < 8; i++) {
        uint32_t v = x[idx[i]];
        out[4 * i] = (uint8_t) v; out[4 * i + 1] = (uint8_t) (v >> 8);
        out[4 * i + 2] = (uint8_t) (v >> 16); out[4 * i + 3] = (uint8_t) (v >> 24);
    }
}
#endif
