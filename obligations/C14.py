from vlib import Ob

LEVEL_TEXT = ("Bounded symbolic execution of the real sodium/utils.c and crypto_verify/verify.c "
              "(inline asm translated by asm2c) with CBMC; each helper is compared with a direct "
              "specification for all buffer contents at every length in the stated range.")
TRUSTED = ["CBMC 6.11 C semantics", "asm2c instruction table (validated natively by bin/setup)",
           "explicit_bzero modelled as memset", "volatile treated as ordinary memory"]
ASSUMPTIONS = ["lengths bounded as stated per obligation family", "x86-64 build configuration of /repo (DEFS from Makefile)"]
OUTSIDE = ["lengths above the bounds", "the machine code emitted by GCC for the asm blocks (asm2c models the ISA semantics)"]


def obligations(tier):
    obs = []
    NCMP = 72
    for asm in (1, 0):
        und = [] if asm else ["HAVE_AMD64_ASM", "HAVE_INLINE_ASM"]
        sfx = "asm" if asm else "portable"
        obs.append(Ob("cmp-%s" % sfx, "C14/cmp.c", units=["sodium/utils.c"], stubs=["libc.c"],
                      defs={"N": NCMP}, undefs=und,
                      unwindset={"harness.0": NCMP + 1, "harness.1": NCMP + 1, "sodium_memcmp.0": NCMP + 1,
                                 "sodium_is_zero.0": NCMP + 1, "sodium_compare.0": NCMP + 1},
                      timeout=600, family="cmp-" + sfx,
                      desc="sodium_memcmp/is_zero/compare vs spec, symbolic len and contents",
                      bounds="len symbolic 0..%d, all contents" % NCMP))
        lens = range(0, 73) if tier == "thorough" else [0, 1, 2, 7, 8, 9, 11, 12, 13, 16, 23, 24, 25, 32, 63, 64, 65]
        for L in lens:
            obs.append(Ob("arith-%s-len%d" % (sfx, L), "C14/arith.c", units=["sodium/utils.c"],
                          stubs=["libc.c"], defs={"LEN": L}, undefs=und, family="arith-" + sfx,
                          timeout=300, tier="quick" if L in (0, 1, 2, 7, 8, 9, 11, 12, 13, 16, 23, 24, 25, 32, 63, 64, 65) else "thorough",
                          desc="sodium_increment/add/sub vs one wide bit-vector add/sub (%s build)" % sfx,
                          bounds="len=%d concrete (every len 0..72 in thorough), all operand values" % L))
        obs.append(Ob("memzero-%s" % sfx, "C14/memzero.c", units=["sodium/utils.c"], stubs=["libc.c"],
                      defs={"N": 24}, undefs=und, family="memzero-" + sfx, timeout=300,
                      desc="sodium_memzero zeroes exactly the range; sodium_stackzero safe",
                      bounds="buffer 24 bytes, symbolic offset/len/probe"))
    for sse in (1, 0):
        obs.append(Ob("verify-%s" % ("sse2" if sse else "generic"), "C14/verify.c",
                      units=["crypto_verify/verify.c"], stubs=["x86_builtins.c"] if sse else [],
                      undefs=[] if sse else ["HAVE_EMMINTRIN_H"], timeout=300,
                      desc="crypto_verify_16/32/64 exactness (%s variant)" % ("SSE2" if sse else "generic"),
                      bounds="all 2x64 bytes symbolic"))
    return obs
