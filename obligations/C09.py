from vlib import Ob
from obligations.aead_common import *

LEVEL_TEXT = ("Inductive G-obligations on the real secretstream code with idealised ChaCha20/Poly1305/HChaCha20: "
              "(1) step lemma from an ARBITRARY common state (32-bit counter fully symbolic, any tag) so histories "
              "of any length are covered by induction; (2) rejection lemma for arbitrary presented chunks; "
              "(3) init establishes equal states; each decided by CBMC for all contents at enumerated lengths.")
TRUSTED = ["CBMC 6.11 C semantics and uninterpreted-function encoding", "spec model harness/C09/ss_spec.h",
           "induction over the history is a paper argument: step lemma + init => synchronisation for every sequence of pushes/rekeys/pulls"]
ASSUMPTIONS = ["mlen, adlen in the enumerated sets"]
OUTSIDE = ["that replayed/reordered/foreign chunks have a different MAC (unforgeability of Poly1305; what is decided is: accepted <=> MAC equals the MAC of the spec input under the CURRENT state's key and nonce)",
           "lengths above the bounds"]
UNITS = ["crypto_secretstream/xchacha20poly1305/secretstream_xchacha20poly1305.c"] + GLUE_UNITS


def obligations(tier):
    obs = []
    ms = list(range(0, 41)) if tier == "thorough" else [0, 1, 15, 16, 17, 32, 40]
    als = list(range(0, 34)) if tier == "thorough" else [0, 5, 16, 17]
    for ml in ms:
        for al in als:
            q = ml in (0, 1, 15, 16, 17, 32, 40) and al in (0, 5, 16, 17)
            if not q and not (al in (0, 1, 5, 15, 16, 17, 33) or ml in (0, 1, 15, 16, 17, 31, 32, 33, 40)):
                continue    # thorough: every mlen x boundary adlens, every adlen x boundary mlens
            obs.append(Ob("step-m%d-a%d" % (ml, al), "C09/step.c", units=UNITS, stubs=GLUE_STUBS,
                          defs={"MLEN": ml, "ADLEN": al}, unwind=270, timeout=600, tier="quick" if q else "thorough",
                          family="step-lemma",
                          desc="push == documented construction; pull(push(m)) == (m, tag); post-states equal and == spec successor incl. REKEY tag, counter wrap, explicit rekey",
                          bounds="arbitrary state (key, 32-bit counter, inonce), any tag byte, all message/ad bytes; (mlen, adlen) enumerated: quick 7x4, thorough every mlen 0..40 x 7 boundary adlens and every adlen 0..33 x 9 boundary mlens"))
    obs.append(Ob("step-wrap-witness", "C09/step.c", units=UNITS, stubs=GLUE_STUBS,
                  defs={"MLEN": 17, "ADLEN": 5, "WRAP": 1}, unwind=270, timeout=600, family="step-lemma",
                  desc="same step lemma restricted to counter = 0xffffffff without REKEY tag: witness that the automatic-rekey path is reachable and verified",
                  bounds="counter = 2^32-1"))
    ins = list(range(0, 58)) if tier == "thorough" else [0, 1, 16, 17, 18, 33, 34, 57]
    for il in ins:
        for al in ((0, 5, 16, 17) if tier == "thorough" else (0, 5)):
            q = il in (0, 1, 16, 17, 18, 33, 34, 57) and al in (0, 5)
            obs.append(Ob("reject-in%d-a%d" % (il, al), "C09/reject.c", units=UNITS, stubs=GLUE_STUBS,
                          defs={"INLEN": il, "ADLEN": al}, unwind=270, timeout=600, tier="quick" if q else "thorough",
                          family="reject-lemma",
                          desc="pull(arbitrary chunk with mac = correct^delta): accept <=> delta == 0; rejection leaves state/m untouched, mlen=0, tag=0xff; inlen < 17 rejected",
                          bounds="arbitrary state and chunk; inlen, adlen enumerated"))
    obs.append(Ob("init", "C09/init.c", units=UNITS, stubs=GLUE_STUBS + ["rng.c"], unwind=70, timeout=300, family="init",
                  desc="init_push/init_pull: equal states, k = HChaCha20(key, header[0..16]), counter 1, inonce = header[16..24], header from RNG",
                  bounds="all keys and random bytes"))
    return obs
