from vlib import Ob

LEVEL_TEXT = ("Bounded symbolic execution of the real sodium/codecs.c with CBMC: decoders are compared "
              "with reference decoders written in the harness for every text of each enumerated length "
              "over the full 8-bit alphabet; encoders against the RFC 4648 table model; round trips.")
TRUSTED = ["CBMC 6.11 C semantics and its strchr model", "reference decoders in harness/C15 (validated by bin/setup on test vectors)"]
ASSUMPTIONS = ["text length <= bound, capacity <= 8 (6 for hex), ignore set <= 2 characters"]
OUTSIDE = ["texts longer than the bound (decoder state machine is per character; bound covers two quanta + padding)",
           "errno values"]

U = {}
UNW = 13


def obligations(tier):
    obs = []
    maxl = 10 if tier == "thorough" else 7
    for variant in (1, 3, 5, 7):
        for ign in (0, 1):
            for L in range(0, 11):
                obs.append(Ob("b64dec-v%d-ign%d-L%d" % (variant, ign, L), "C15/b64_decode.c",
                              units=["sodium/codecs.c"], stubs=["misuse.c"],
                              defs={"L": L, "VARIANT": variant, "IGN": ign}, unwindset=U, unwind=UNW,
                              tier="quick" if L <= 7 else "thorough", timeout=900, family="b64-decode",
                              desc="sodium_base642bin == reference decoder (accept set, bytes, length, end pointer, capacity)",
                              bounds="all texts of length L (every L 0..7 quick / 0..10 thorough) over 8-bit chars, "
                                     "4 variants, ignore NULL or <=2 symbolic chars, capacity 0..8 symbolic, end pointer on/off"))
    for ign in (0, 1):
        for L in range(0, 9):
            obs.append(Ob("hexdec-ign%d-L%d" % (ign, L), "C15/hex_decode.c", units=["sodium/codecs.c"],
                          stubs=["misuse.c"], defs={"L": L, "IGN": ign}, unwindset=U, unwind=UNW,
                          tier="quick" if L <= 6 else "thorough", timeout=900, family="hex-decode",
                          desc="sodium_hex2bin == reference decoder",
                          bounds="all texts of length L (0..6 quick / 0..8 thorough), ignore NULL or <=2 symbolic chars, capacity 0..6"))
    for variant in (1, 3, 5, 7):
        for n in range(0, 10):
            obs.append(Ob("roundtrip-v%d-n%d" % (variant, n), "C15/roundtrip.c", units=["sodium/codecs.c"],
                          stubs=["misuse.c"], defs={"BINLEN": n, "VARIANT": variant}, unwindset=U, unwind=24,
                          tier="quick" if n <= 7 else "thorough", timeout=600, family="encode-roundtrip",
                          desc="bin2base64/bin2hex == RFC 4648 / hex table model, NUL, length, round trip, one-short capacity fails",
                          bounds="bin_len = n (0..7 quick / 0..9 thorough), all byte values, encoder capacity needed..needed+3"))
    obs.append(Ob("encoder-misuse", "C15/misuse.c", units=["sodium/codecs.c"], stubs=["misuse.c"],
                  unwind=19, timeout=600, family="encoder-misuse",
                  desc="bin2hex/bin2base64/encoded_len call sodium_misuse iff capacity too small or variant invalid",
                  bounds="bin_len <= 4, maxlen <= 16, variant any 32-bit value"))
    return obs
