from vlib import Ob
from obligations.aead_common import *

LEVEL_TEXT = ("CBMC with all memory-safety and arithmetic-UB checks on (bounds, pointer, pointer overflow, signed overflow, "
              "undefined shifts, division by zero) on the real code, buffers allocated at exactly the contract size so that "
              "one byte of over-read/-write is a violation; lengths symbolic or exhaustively enumerated; plus the glue "
              "obligations of C01/C02/C09/C13/C16 re-run with the same checks and the size-limit guards on symbolic 64-bit sizes.")
TRUSTED = ["CBMC 6.11 memory model (no alignment model)", "idealised cores for the glue-level obligations"]
ASSUMPTIONS = ["lengths within the stated bounds"]
OUTSIDE = ["alignment faults", "functions whose loops are out of reach (Argon2/scrypt cores, X25519 ladder, Edwards arithmetic): their memory safety is not claimed",
           "SIMD tail handling (u0.h, xmm6int, AEGIS pads, poly1305_sse2 block copy): E2/irsym, not covered by CBMC here", "32-bit builds"]
A2 = "crypto_pwhash/argon2/"


def obligations(tier):
    obs = []
    for fn, nm, var in ((0, "hex2bin", None), (2, "bin2hex", None)) + tuple((f, n + "-v%d" % v, v) for f, n in ((1, "base642bin"), (3, "bin2base64")) for v in (1, 3, 5, 7)):
        d = {"FN": fn, "MAXN": 6}
        if var:
            d["VARIANT"] = var
        obs.append(Ob("codecs-" + nm, "C12/codecs_safety.c", units=["sodium/codecs.c"], stubs=["misuse.c"], defs=d,
                      unwind=20, safety=True, timeout=900, mem=6, family="codecs-exact-buffers",
                      desc="codec on exact-size heap buffers: no out-of-bounds access, no arithmetic UB",
                      bounds="text/bin length symbolic 0..6, capacity symbolic 0..7, ignore set, end/len pointers optional, all contents"))
    for slen, pfx in ((3, 0), (12, 9), (20, 15), (30, 27), (45, 27), (61, 40)):
        obs.append(Ob("argon2-parse-len%d-pfx%d" % (slen, pfx), "C12/parse_safety.c",
                      units=[A2 + "pwhash_argon2i.c", A2 + "argon2-encoding.c", A2 + "argon2-core.c", "sodium/utils.c", "sodium/codecs.c", "crypto_verify/verify.c"],
                      stubs=["misuse.c", "rng.c", "libc.c", "x86_builtins.c"], defs={"SLEN": slen, "PFX": pfx}, unwind=slen + 8, safety=True,
                      timeout=1200, mem=8, family="hash-string-parser", tier="quick" if slen <= 30 else "thorough",
                      desc="argon2 hash-string parser on an arbitrary NUL-terminated string in an exact-size heap object: reads stay inside the string",
                      bounds="string of exactly %d characters, first %d fixed to the well-formed prefix, the rest arbitrary non-NUL bytes" % (slen, pfx)))
    # size-limit guards on fully symbolic 64-bit lengths (the cores are recorders defined in the harness)
    LU = ["crypto_aead/chacha20poly1305/aead_chacha20poly1305.c", "crypto_aead/xchacha20poly1305/aead_xchacha20poly1305.c",
          "crypto_secretbox/crypto_secretbox_easy.c", "crypto_secretbox/crypto_secretbox.c", "crypto_secretbox/xsalsa20poly1305/secretbox_xsalsa20poly1305.c",
          "crypto_secretbox/xchacha20poly1305/secretbox_xchacha20poly1305.c", "crypto_box/crypto_box_easy.c", "crypto_box/crypto_box.c",
          "crypto_box/curve25519xsalsa20poly1305/box_curve25519xsalsa20poly1305.c", "crypto_box/curve25519xchacha20poly1305/box_curve25519xchacha20poly1305.c",
          "crypto_secretstream/xchacha20poly1305/secretstream_xchacha20poly1305.c", "crypto_aead/aegis128l/aead_aegis128l.c", "crypto_aead/aegis256/aead_aegis256.c",
          "sodium/utils.c", "crypto_verify/verify.c"]
    LN = ["aead-chacha20poly1305-detached", "aead-ietf-detached", "aead-xchacha-detached", "aead-chacha20poly1305", "aead-ietf", "aead-xchacha", "secretbox-easy",
          "secretbox-xchacha-easy", "box-easy-afternm", "box-easy", "box-xchacha-easy-afternm", "box-xchacha-easy", "secretstream-push", "secretstream-pull",
          "aegis128l-encrypt", "aegis128l-decrypt", "aegis256-encrypt", "aegis256-decrypt"]
    for w, nm in enumerate(LN):
        if w < 3:
            continue    # detached ChaCha20-Poly1305 forms have no guard of their own: the inner stream call refuses (C03 ietf-guard)
        obs.append(Ob("limit-" + nm, "C12/limits.c", units=LU, stubs=["misuse.c", "rng.c", "libc.c", "x86_builtins.c"], defs={"WHICH": w}, unwind=70, timeout=600,
                      family="size-limit-guards",
                      desc="sodium_misuse() is reached <=> the requested length exceeds the documented maximum (literal bounds), for all 64-bit lengths; in-range requests reach the cores",
                      bounds="message length (and AEGIS ad length) fully symbolic, 64 bits"))
    SN = {20: "secretbox-open-easy", 21: "secretbox-xchacha-open-easy", 22: "box-open-easy", 23: "box-open-easy-afternm", 24: "box-xchacha-open-easy",
          25: "box-seal-open", 26: "box-xchacha-seal-open", 27: "aead-chacha20poly1305-decrypt", 28: "aead-ietf-decrypt", 29: "aead-xchacha-decrypt",
          30: "aegis128l-decrypt", 31: "aegis256-decrypt", 32: "secretstream-pull"}
    for w, nm in sorted(SN.items()):
        obs.append(Ob("short-" + nm, "C12/limits.c", units=LU + ["crypto_box/crypto_box_seal.c", "crypto_box/curve25519xchacha20poly1305/box_seal_curve25519xchacha20poly1305.c"],
                      stubs=["misuse.c", "rng.c", "libc.c", "x86_builtins.c"], defs={"WHICH": w}, unwind=70, timeout=600, safety=True, family="short-input-guards",
                      desc="open/decrypt/pull on an input shorter than the documented minimum, held in a heap object of exactly that length: returns -1, no byte of it is read, no core reached, output untouched",
                      bounds="presented length symbolic over every value below the minimum (16, 32 for AEGIS, 48 for sealed boxes, 17 for secretstream)"))
    # glue-level obligations re-run with every safety check on
    for v in (0, 1, 2):
        for ml, al in ((0, 0), (17, 5), (40, 33)):
            obs.append(Ob("aead-%s-m%d-a%d-safety" % (VNAME[v], ml, al), "C01/aead_chacha.c", units=CHACHA_UNITS[v] + GLUE_UNITS, stubs=GLUE_STUBS,
                          defs={"VARIANT": v, "MLEN": ml, "ADLEN": al}, unwind=210, safety=True, timeout=600, family="glue-pointer-arithmetic",
                          desc="AEAD glue (c + mlen, length blocks) with exact-size buffers and all safety checks", bounds="(mlen, adlen) in {(0,0),(17,5),(40,33)}"))
        for cl in (0, 15, 16, 49):
            obs.append(Ob("reject-%s-c%d-safety" % (VNAME[v], cl), "C02/aead_chacha.c", units=CHACHA_UNITS[v] + GLUE_UNITS, stubs=GLUE_STUBS,
                          defs={"VARIANT": v, "CLEN": cl, "ADLEN": 5}, unwind=210, safety=True, timeout=600, family="glue-pointer-arithmetic",
                          desc="AEAD decrypt glue on arbitrary ciphertexts (c + clen - ABYTES) with all safety checks", bounds="clen in {0,15,16,49}"))
    for v in (0, 1):
        for cl in (0, 15, 16, 17, 80):
            obs.append(Ob("secretbox-open-%s-c%d-safety" % (SBNAME[v], cl), "C02/secretbox.c", units=SB_UNITS[v] + GLUE_UNITS, stubs=GLUE_STUBS,
                          defs={"SBVAR": v, "CLEN": cl}, unwind=130, safety=True, timeout=600, family="glue-pointer-arithmetic",
                          desc="secretbox open glue with all safety checks", bounds="clen in {0,15,16,17,80}"))
    from obligations import C09 as c09
    for il in (0, 16, 17, 34):
        obs.append(Ob("secretstream-pull-in%d-safety" % il, "C09/reject.c", units=c09.UNITS, stubs=GLUE_STUBS, defs={"INLEN": il, "ADLEN": 5},
                      unwind=270, safety=True, timeout=600, family="glue-pointer-arithmetic",
                      desc="secretstream pull on arbitrary chunks (in + inlen - ABYTES) with all safety checks", bounds="inlen in {0,16,17,34}"))
    for bs in (1, 7, 16):
        obs.append(Ob("pad-bs%d-safety" % bs, "C16/pad.c", units=["sodium/utils.c"], stubs=["misuse.c", "libc.c"], defs={"BS": bs, "NMAX": 36},
                      unwind=36 + bs + 4, safety=True, timeout=600, family="padding",
                      desc="sodium_pad / sodium_unpad with all safety checks", bounds="blocksize %d" % bs))
    return obs
