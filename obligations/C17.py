from vlib import Ob

LEVEL_TEXT = ("The real sodium_malloc / sodium_free / sodium_mprotect_* / sodium_allocarray code (sodium/utils.c) is executed "
              "symbolically by CBMC against an OS model (page-aligned arena for mmap, per-page protection map for mprotect, "
              "range-checked munmap): layout, guard pages, canary, fill pattern, protection transitions in any order, "
              "canary-violation termination and clean free are decided for every size 0..3 pages+1 at each page size.")
TRUSTED = ["CBMC 6.11 pointer model (uintptr_t masking inside one object)", "OS model in harness/C17/malloc.c; the kernel faults on PROT_NONE access and honours mprotect"]
ASSUMPTIONS = ["page size in {32, 64, 256}", "size <= 3 pages + 1 for the layout obligations", "allocarray: count from an enumerated list"]
OUTSIDE = ["mlock effects", "Windows / non-mmap builds", "sizes > 3 pages + 1 (layout arithmetic is the same page-rounding formula)"]
STUBS = ["rng.c", "misuse.c", "libc.c"]


def obligations(tier):
    obs = []
    for P in (64, 32, 256):
        obs.append(Ob("malloc-layout-P%d" % P, "C17/malloc.c", stubs=STUBS, defs={"P": P, "MODE": 0}, unwind=20,
                      timeout=1200, mem=8, tier="quick" if P == 64 else "thorough", replay="model", family="guarded-malloc",
                      desc="sodium_malloc layout/guards/canary/fill; mprotect_* in any order (3 symbolic ops); free from any state; altered canary => termination",
                      bounds="page size %d, size symbolic 0..3P+1, 3 symbolic protection ops, any single canary byte altered by any non-zero xor" % P))
        obs.append(Ob("malloc-limit-P%d" % P, "C17/malloc.c", stubs=STUBS, defs={"P": P, "MODE": 1}, unwind=20,
                      timeout=300, tier="quick" if P == 64 else "thorough", replay="model", family="guarded-malloc",
                      desc="size >= SIZE_MAX - 4 pages => NULL/ENOMEM; sodium_free(NULL) is a no-op",
                      bounds="all 64-bit sizes above the limit"))
    obs.append(Ob("malloc-os-refuses", "C17/malloc.c", stubs=STUBS, defs={"P": 64, "MODE": 2}, unwind=20, timeout=300, replay="model", family="guarded-malloc",
                  desc="mmap refused => sodium_malloc / sodium_allocarray return NULL with ENOMEM, nothing mapped; sodium_free(NULL) is a no-op",
                  bounds="page size 64, size symbolic 0..3P+1"))
    counts = [0, 1, 2, 3, 5, 7, 16, 255, 256, 65537, (1 << 31) + 1, 1 << 32, (1 << 32) + 1, (1 << 63) - 1, 1 << 63, (1 << 64) - 1]
    for c in counts:
        obs.append(Ob("allocarray-count%d" % c, "C17/allocarray.c", units=["sodium/utils.c"], stubs=STUBS,
                      defs={"COUNT": "%dULL" % c}, unwind=4, timeout=300, family="allocarray",
                      tier="quick" if c in (0, 1, 3, 256, (1 << 32) + 1, (1 << 64) - 1) else "thorough",
                      desc="sodium_allocarray: NULL/ENOMEM whenever count*size overflows",
                      bounds="count enumerated (%d values), all 64-bit sizes" % len(counts)))
    return obs
