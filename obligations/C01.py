from vlib import Ob
from obligations.aead_common import *

LEVEL_TEXT = ("G-obligations: the real AEAD/secretbox/box glue code is executed symbolically by CBMC with the "
              "cryptographic cores replaced by uninterpreted functions (functionally consistent, otherwise "
              "arbitrary); output bytes, MAC-input layout, lengths and round trips are compared with a "
              "specification model over the same cores, for all keys/nonces/contents at every enumerated "
              "(mlen, adlen). K-obligations for the cores are under C03/C04/C05.")
TRUSTED = ["CBMC 6.11 C semantics and uninterpreted-function (Ackermann) encoding",
           "spec models in harness/*_spec.h (validated by native replay mode against the real primitives in bin/setup)",
           "composition argument G and K => property (DESIGN.md section 0)"]
ASSUMPTIONS = ["mlen, adlen in the enumerated sets", "cores are pure functions of the inputs named in stubs/ideal.h"]
OUTSIDE = ["AES-256-GCM functional correctness (GHASH algebra)", "AEGIS AES-NI units", "lengths above the bounds",
           "SIMD/asm back ends of the cores (see C03/C04/C10)"]


def obligations(tier):
    obs = []
    full_m = list(range(0, 41))
    full_a = list(range(0, 34))
    for v in (0, 1, 2):
        for ml in full_m:
            for al in full_a:
                q = ml in BOUNDARY and al in (0, 1, 15, 16, 17, 33)
                if tier != "thorough" and not q:
                    continue
                obs.append(Ob("aead-%s-m%d-a%d" % (VNAME[v], ml, al), "C01/aead_chacha.c",
                              units=CHACHA_UNITS[v] + GLUE_UNITS, stubs=GLUE_STUBS,
                              defs={"VARIANT": v, "MLEN": ml, "ADLEN": al}, unwind=210, timeout=300,
                              tier="quick" if q else "thorough", family="aead-" + VNAME[v],
                              desc="encrypt(_detached) output and MAC input == spec; combined == detached; decrypt(encrypt(m)) == m",
                              bounds="all key/nonce/message/ad bytes; (mlen, adlen) enumerated: quick 9x6 boundary pairs, thorough every pair in 0..40 x 0..33"))
    return obs
