from vlib import Ob
from obligations.aead_common import *

LEVEL_TEXT = ("G-obligations: the real AEAD/secretbox/box glue code is executed symbolically by CBMC with the "
              "cryptographic cores replaced by uninterpreted functions (functionally consistent, otherwise "
              "arbitrary); output bytes, MAC-input layout, lengths and round trips are compared with a "
              "specification model over the same cores, for all keys/nonces/contents at every enumerated "
              "(mlen, adlen). K-obligations for the cores are under C03/C04/C05.")
LEVEL_TEXT += " AES-256-GCM (E2 irsym): the AES-NI/PCLMULQDQ unit's LLVM IR is executed on a concrete key and nonce (two fixed pairs) with message, associated data and forged-tag delta symbolic, and compared bit for bit with an SP 800-38D / FIPS-197 specification over the same symbols; both sides are GF(2)-affine in the symbols and are kept in canonical XOR normal form, tag acceptance under 'delta != 0' is decided by kissat. AEGIS-128L/256 (E2 irsym): the AES-NI units and the portable units (table-driven softaes, executed through symbolic-index table loads) are executed with key, nonce, message and associated data ALL symbolic and compared bit for bit with a draft-irtf-cfrg-aegis-aead specification; S-box look-ups are canonical LUT nodes, so equality is structural."
TRUSTED = ["CBMC 6.11 C semantics and uninterpreted-function (Ackermann) encoding", "irsym LLVM-IR interpreter and its AES-NI/PCLMULQDQ intrinsic models (validated by bin/setup known-answer vectors)",
           "spec models in harness/*_spec.h (validated by native replay mode against the real primitives in bin/setup)",
           "composition argument G and K => property (DESIGN.md section 0)"]
ASSUMPTIONS = ["mlen, adlen in the enumerated sets", "cores are pure functions of the inputs named in stubs/ideal.h"]
OUTSIDE = ["AES-256-GCM for keys/nonces other than the two fixed pairs and at lengths other than the enumerated ones (every aggregation tier of the AES-NI unit is enumerated)", "AEGIS ARM-crypto units (not built on x86-64)", "AEGIS / AES-GCM lengths other than the enumerated ones", "lengths above the bounds",
           "SIMD/asm back ends of the cores (see C03/C04/C10)"]


import os
BOXDBG = {k: 1 for k in os.environ.get('BOXDBG', '').split(',') if k}


E2_EQUIV = ['aes256gcm-aesni-spec', 'aegis128l-aesni-spec', 'aegis128l-soft-spec', 'aegis256-aesni-spec', 'aegis256-soft-spec']


def obligations(tier):
    obs = []
    # thorough: every mlen 0..40 with the boundary ad lengths, and every adlen 0..33 with the boundary message lengths
    # (the full 41 x 34 product is 4 182 CBMC runs of ~25 s: more than two hours for no additional branch of the glue)
    full_m = list(range(0, 41))
    full_a = list(range(0, 34))
    TA = (0, 1, 5, 15, 16, 17, 31, 32, 33)
    for v in (0, 1, 2):
        for ml in full_m:
            for al in full_a:
                q = ml in BOUNDARY and al in (0, 1, 15, 16, 17, 33)
                if tier != "thorough" and not q:
                    continue
                if not q and not (al in TA or ml in BOUNDARY):
                    continue
                obs.append(Ob("aead-%s-m%d-a%d" % (VNAME[v], ml, al), "C01/aead_chacha.c",
                              units=CHACHA_UNITS[v] + GLUE_UNITS, stubs=GLUE_STUBS,
                              defs={"VARIANT": v, "MLEN": ml, "ADLEN": al}, unwind=210, timeout=300,
                              tier="quick" if q else "thorough", family="aead-" + VNAME[v],
                              desc="encrypt(_detached) output and MAC input == spec; combined == detached; decrypt(encrypt(m)) == m",
                              bounds="all key/nonce/message/ad bytes; (mlen, adlen) enumerated: quick 9x6 boundary pairs, thorough every mlen 0..40 x 9 boundary adlens and every adlen 0..33 x 9 boundary mlens"))
    for v in (0, 1):
        for ml in range(0, 81):
            q = ml in (0, 1, 15, 16, 17, 31, 32, 33, 48, 64, 65, 80)
            obs.append(Ob("secretbox-%s-m%d" % (SBNAME[v], ml), "C01/secretbox.c", units=SB_UNITS[v] + GLUE_UNITS,
                          stubs=GLUE_STUBS, defs={"SBVAR": v, "MLEN": ml}, unwind=130, timeout=300,
                          tier="quick" if q else "thorough", family="secretbox-" + SBNAME[v],
                          desc="secretbox detached/easy/NaCl forms == spec (one-time key = keystream[0..32], message from byte 32), all forms agree, open(box(m)) == m",
                          bounds="all key/nonce/message bytes; mlen enumerated: quick 12 boundary values, thorough every 0..80 (crosses the 32-byte first-block boundary and block 1)"))
    for v in (0, 1):
        for part in (1, 2, 3, 4):
            if part == 3 and v == 1:
                continue
            for ml in range(0, 49):
                q = ml in (0, 1, 16, 31, 32, 33, 48)
                if ml == 16:
                    obs.append(Ob("box-%s-p%d-dhfail" % (SBNAME[v], part), "C01/box.c", units=BOX_UNITS[v] + GLUE_UNITS,
                                  stubs=BOX_STUBS, defs={"SBVAR": v, "MLEN": ml, "DH_FAIL": 1, "PART": part}, unwind=130,
                                  timeout=600, family="box-seal-" + SBNAME[v],
                                  desc="box_easy / beforenm / seal return -1 when X25519 reports failure",
                                  bounds="all inputs with an all-zero shared point (abstract X25519)"))
                obs.append(Ob("box-%s-p%d-m%d" % (SBNAME[v], part, ml), "C01/box.c", units=BOX_UNITS[v] + GLUE_UNITS,
                              stubs=BOX_STUBS, defs={"SBVAR": v, "MLEN": ml, "PART": part}, unwind=130, timeout=600,
                              tier="quick" if q else "thorough", family="box-seal-" + SBNAME[v],
                              desc="crypto_box easy/detached/afternm (part 1), recipient round trips under DH commutativity (2), NaCl padded form (3), sealed box layout/nonce/round trip (4) == secretbox spec under beforenm key",
                              bounds="all secret keys/nonce/message/ephemeral bytes; mlen enumerated (quick 7 values, thorough 0..48)"))
    for ag in (256, 128):
        rate = 16 if ag == 256 else 32
        an = "256" if ag == 256 else "128l"
        # each instance costs 2-5 min of SAT time (1.2 M variables): the quick tier takes one shape that crosses the
        # rate with a partial tail block; the thorough tier the boundary grid
        qm = (rate + 1,)
        qa = (1,)
        # (the E2 obligations aegis*-soft-spec / aegis*-aesni-spec decide the same units against the same draft with the
        # AES round concrete and Init/Finalize included; these CBMC obligations stay as a cross-check by the other engine)
        tm = (rate + 1, 2 * rate + 7)
        ta = (1, rate + 1)
        ms, als = (sorted(set(tm)), list(ta)) if tier == "thorough" else ([], [])
        for ml in ms:
            for al in als:
                q = False  # 4-11 min of SAT time each: thorough tier only (the quick tier keeps C02's aegis256-reject)
                obs.append(Ob("aegis%s-spec-m%d-a%d" % (an, ml, al), "C01/aegis.c",
                              units=AEGIS_UNITS[ag] + GLUE_UNITS, stubs=AEGIS_STUBS, instrument=AEGIS_CUTS[ag], object_bits=12, defs={"AEGIS": ag, "MLEN": ml, "ADLEN": al, "PART": 0},
                              unwind=110, timeout=2400, mem=8, tier="quick" if q else "thorough", family="aegis%s-soft" % an,
                              desc="AEGIS portable implementation over an abstract AES round: output == draft-irtf-cfrg-aegis-aead, combined == detached, decrypt(encrypt(m)) == m",
                              bounds="all key/nonce/message/ad/tag bytes; (mlen, adlen) enumerated around the rate (16 bytes for AEGIS-256, 32 for AEGIS-128L)"))
    for ag in (256, 128):
        an = "256" if ag == 256 else "128l"
        # PART 2 (Init == spec: 96 resp. 80 rounds on each side) gave no verdict in 20 min with R uninterpreted: not registered
        for part, nm in ((3, "finalize"),):
            obs.append(Ob("aegis%s-%s" % (an, nm), "C01/aegis.c", units=AEGIS_UNITS[ag] + GLUE_UNITS, stubs=AEGIS_STUBS,
                          defs={"AEGIS": ag, "MLEN": 1, "ADLEN": 1, "PART": part}, object_bits=12, unwind=40, timeout=3000, mem=8, family="aegis%s-soft" % an,
                          tier="thorough",
                          desc="AEGIS %s phase == draft specification over an abstract AES round" % nm,
                          bounds="all keys/nonces (init) resp. arbitrary state and all lengths < 2^61 bytes (finalize)"))
    return obs
