from vlib import Ob

LEVEL_TEXT = ("runtime.c is executed symbolically for ALL CPUID/XCR0 register contents (inline asm routed to symbolic "
              "registers by asm2c); every dispatcher is executed for all 2^10 feature vectors; endianness/rotation "
              "helpers for all values in both build variants; functional equivalence of back ends is E2 (irsym) and "
              "the asm-vs-portable helper equivalence is under C14.")
TRUSTED = ["CBMC 6.11", "asm2c mapping of cpuid/xgetbv to symbolic registers", "Intel SDM meaning of the CPUID/XCR0 bits (transcribed in the harness)",
           "the kernel reports XCR0 truthfully"]
ASSUMPTIONS = ["x86-64 build configuration of /repo"]
OUTSIDE = [".S back ends (salsa20 xmm6, sandy2x)", "poly1305 SSE2 arithmetic", "ARM builds", "Argon2 data-dependent segments (Argon2id slices 2-3, passes > 0) in the SIMD units", "scrypt SSE2 unit beyond smix at (r, N) in {(1,2), (1,4)}", "AEGIS back ends: decided against the specification under C01",
           "SIMD equivalence at lengths other than the enumerated ones"]

DISP = ["chacha20", "salsa20", "poly1305", "x25519", "aegis128l", "aegis256", "blake2b", "argon2", "aes256gcm-available"]


ENGINE = "cbmc-harness + irsym"
TECHNIQUE = ("CBMC bounded model checking of runtime.c / dispatchers / helpers for all register and feature values; SIMD back ends vs reference "
             "units by symbolic execution of clang-14 LLVM IR over a shared bit-level XOR-AND graph (structural identity + kissat SAT sweeping)")


E2_EQUIV = ["argon2-fill-ssse3", "argon2-fill-avx2", "argon2-fill-avx512f", "scrypt-smix-sse2", "chacha20-ssse3", "chacha20-avx2", "salsa20-sse2", "salsa20-avx2"]
# not registered: blake2b-ssse3 / blake2b-sse41 / blake2b-avx2 (irsym/equiv_targets.py).  The sweeping merges the two
# compression functions steadily (57 000 internal equivalences proved in 2 000 s) but did not close the 512 output bits
# within the thorough budget in the last runs; a target without a verdict is not claimed (DESIGN.md section 3, C10)


def obligations(tier):
    obs = []
    obs.append(Ob("runtime-cpuid", "C10/runtime.c", units=["sodium/runtime.c"], unwind=6, timeout=300, family="cpu-feature-detection",
                  desc="feature flags => CPUID bits and OS-enabled state (XCR0); XGETBV only with OSXSAVE; empty leaf 0 => no features",
                  bounds="all values of CPUID leaves 0, 1, 7 and XCR0 (13 x 32 symbolic bits)"))
    for i, nm in enumerate(DISP):
        units = []
        obs.append(Ob("dispatch-" + nm, "C10/dispatch.c", units=units, stubs=["misuse.c"], defs={"DISP": i}, unwind=6,
                      timeout=600, family="dispatch", nochecks=(nm == "aes256gcm-available"),
                      desc="_pick_best_implementation selects only back ends whose required CPU feature was detected",
                      bounds="all 2^10 detected-feature vectors"))
    for native in (1, 0):
        obs.append(Ob("loadstore-%s" % ("native" if native else "portable"), "C10/loadstore.c",
                      undefs=[] if native else ["NATIVE_LITTLE_ENDIAN"], unwind=10, timeout=300, family="endian-helpers",
                      desc="LOAD/STORE 32/64 LE/BE and ROTL/ROTR helpers == definition",
                      bounds="all byte/word values, rotation counts 1..31"))
    return obs
