from vlib import Ob

LEVEL_TEXT = ("runtime.c is executed symbolically for ALL CPUID/XCR0 register contents (inline asm routed to symbolic "
              "registers by asm2c); every dispatcher is executed for all 2^10 feature vectors; endianness/rotation "
              "helpers for all values in both build variants; functional equivalence of back ends is E2 (irsym) and "
              "the asm-vs-portable helper equivalence is under C14.")
TRUSTED = ["CBMC 6.11", "asm2c mapping of cpuid/xgetbv to symbolic registers", "Intel SDM meaning of the CPUID/XCR0 bits (transcribed in the harness)",
           "the kernel reports XCR0 truthfully"]
ASSUMPTIONS = ["x86-64 build configuration of /repo"]
OUTSIDE = [".S back ends (salsa20 xmm6, sandy2x)", "poly1305 SSE2 arithmetic", "ARM builds", "AES-NI units (AEGIS, AES-GCM)", "Argon2 / scrypt SIMD fill-block units",
           "SIMD equivalence at lengths other than the enumerated ones"]

DISP = ["chacha20", "salsa20", "poly1305", "x25519", "aegis128l", "aegis256", "blake2b", "argon2", "aes256gcm-available"]


CUSTOM = True
ENGINE = "cbmc-harness + irsym"
TECHNIQUE = ("CBMC bounded model checking of runtime.c / dispatchers / helpers for all register and feature values; SIMD back ends vs reference "
             "units by symbolic execution of clang-14 LLVM IR over a shared bit-level XOR-AND graph (structural identity + kissat SAT sweeping)")


def run(prop, tier, seed, only=None, keep=False):
    """E1 obligations (below) + E2 equivalence obligations (irsym/equiv_targets.py), one evidence file"""
    import json, os, re, shutil, subprocess, sys, time
    from concurrent.futures import ThreadPoolExecutor
    import vlib
    VERIF = vlib.VERIF
    work = os.path.join(VERIF, ".work", "C10e2-%d" % os.getpid())
    shutil.rmtree(work, ignore_errors=True)
    os.makedirs(work)
    lst = subprocess.run(["python3-vt", "-m", "irsym.equiv_targets", "list", tier], cwd=VERIF, stdout=subprocess.PIPE, stderr=subprocess.PIPE)
    try:
        targets = json.loads(lst.stdout.decode().strip().split("\n")[-1])
    except Exception:
        targets = []
    jobs = [(n, i, ps[i]) for n, cnt, ps in targets for i in range(cnt) if not only or re.search(only, "equiv-" + n)]

    def one(job):
        n, i, ps = job
        t0 = time.time()
        try:
            r = subprocess.run(["python3-vt", "-m", "irsym.equiv_targets", n, tier, str(i), work], cwd=VERIF, stdout=subprocess.PIPE,
                               stderr=subprocess.PIPE, timeout=300 if tier == 'quick' else 2600)
            d = json.loads(r.stdout.decode().strip().split("\n")[-1])
        except Exception as e:
            d = {"target": n, "params": ps, "status": "inconclusive", "detail": "runner: %r" % (e,)}
        name = "equiv-%s-%s" % (n, re.sub(r"[^0-9a-z]+", "", str(ps)) or "all")
        rdir, rep = None, None
        if d["status"] == "violation":
            rdir = os.path.join(VERIF, "replays", "%s-%s" % (prop, name))
            shutil.rmtree(rdir, ignore_errors=True)
            os.makedirs(rdir)
            json.dump(d.get("assignment") or {}, open(os.path.join(rdir, "assignment.json"), "w"))
            json.dump(d, open(os.path.join(rdir, "inputs.json"), "w"), indent=1, default=str)
            with open(os.path.join(rdir, "run.sh"), "w") as f:
                f.write("#!/bin/sh\n# concrete re-execution of both units' LLVM IR on the counterexample input; exit 1 = outputs differ\n"
                        "cd /verif && mkdir -p .work/replay-c10 && exec python3-vt -m irsym.equiv_targets replay '%s' %s %d .work/replay-c10 '%s/assignment.json'\n"
                        % (n, tier, i, rdir))
            os.chmod(os.path.join(rdir, "run.sh"), 0o755)
            rr = subprocess.run(["sh", os.path.join(rdir, "run.sh")], stdout=subprocess.PIPE, stderr=subprocess.STDOUT)
            rep = rr.returncode == 1
            if not rep:
                d["status"], d["detail"] = "inconclusive", "cex-not-reproduced: " + rr.stdout.decode(errors="replace")[-200:]
        info = "; ".join("%s=%s" % (k, d.get(k)) for k in ("output_bits", "structurally_identical_bits", "sat_calls", "merged", "graph_nodes") if k in d)
        return vlib.ExtraResult(name, "simd-equivalence-" + n.split("-")[0], d["status"],
                                desc="E2 irsym: %s back end == reference unit on shared symbolic key/nonce/counter/message (bit-level graph; %s)" % (n, info),
                                bounds="public shape %s; all other inputs symbolic" % ps, wall=d.get("wall_s", time.time() - t0),
                                reason=d.get("detail", ""), replay_dir=rdir, replayed=rep, queries=1 + int(d.get("sat_calls", 0) or 0),
                                solver_s=float(d.get("sat_time_s", 0) or 0))
    with ThreadPoolExecutor(8) as ex:
        extra = list(ex.map(one, jobs))
    shutil.rmtree(work, ignore_errors=True)
    obs = obligations(tier)
    if only:
        obs = [o for o in obs if re.search(only, o.name)]
    return vlib.run_check(prop, obs, tier, seed, level_text=LEVEL_TEXT, assumptions=ASSUMPTIONS, outside=OUTSIDE, trusted=TRUSTED,
                          only=None if not only else only, keep=keep, extra=extra)


def obligations(tier):
    obs = []
    obs.append(Ob("runtime-cpuid", "C10/runtime.c", units=["sodium/runtime.c"], unwind=6, timeout=300, family="cpu-feature-detection",
                  desc="feature flags => CPUID bits and OS-enabled state (XCR0); XGETBV only with OSXSAVE; empty leaf 0 => no features",
                  bounds="all values of CPUID leaves 0, 1, 7 and XCR0 (13 x 32 symbolic bits)"))
    for i, nm in enumerate(DISP):
        units = []
        obs.append(Ob("dispatch-" + nm, "C10/dispatch.c", units=units, stubs=["misuse.c"], defs={"DISP": i}, unwind=6,
                      timeout=600, family="dispatch", nochecks=(nm == "aes256gcm-available"),
                      desc="_pick_best_implementation selects only back ends whose required CPU feature was detected",
                      bounds="all 2^10 detected-feature vectors"))
    for native in (1, 0):
        obs.append(Ob("loadstore-%s" % ("native" if native else "portable"), "C10/loadstore.c",
                      undefs=[] if native else ["NATIVE_LITTLE_ENDIAN"], unwind=10, timeout=300, family="endian-helpers",
                      desc="LOAD/STORE 32/64 LE/BE and ROTL/ROTR helpers == definition",
                      bounds="all byte/word values, rotation counts 1..31"))
    return obs
