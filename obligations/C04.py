from vlib import Ob

LEVEL_TEXT = ("K-obligations: compression / permutation cores (SHA-256/512, BLAKE2b, SipHash) vs specification models for all "
              "inputs (CBMC + cvc5); G-obligations: padding, buffering, chunking, HMAC, HKDF, BLAKE2b-KDF glue executed "
              "symbolically with the compression/hash cores as uninterpreted functions, for all contents at every "
              "enumerated length and all symbolic split points.")
LEVEL_TEXT += (" BLAKE2b and SipHash (E2 irsym): crypto_generichash(_blake2b) one-shot, salt/personal and init/update/final at enumerated split points, "
               "crypto_shorthash_siphash24/x24: the real reference units' LLVM IR is executed with message, key, salt and personalisation ALL symbolic and "
               "compared bit for bit with RFC 7693 / SipHash specification models over one shared bit-level graph (modular sums canonicalised); "
               "out-of-range output/key lengths must be refused.")
E2_EQUIV = ["blake2b-ref-spec", "siphash-ref-spec", "poly1305-sse2-donna"]
E2_LIMB = ["poly1305-blocks-donna64"]
LEVEL_TEXT += (" Poly1305 (donna64 unit): buffering, RFC 8439 padding, final-block flag, clamping, split independence and verify exactness by CBMC over an abstract block function; "
               "poly1305_blocks == h <- (h + block + hibit) * r mod 2^130-5 for all accumulators, clamped keys and message bytes, 1..4 blocks, in E2 limb mode (integer polynomials + intervals, "
               "no 64/128-bit wrap-around, congruence re-checked by z3); poly1305_finish == ((h mod p) + pad) mod 2^128 by CBMC. SSE2 unit (the one selected on x86-64): crypto_onetimeauth_poly1305_sse2 == the donna unit bit for bit "
               "(E2 equiv) with r in {1,2,4,8} concrete, pad and message symbolic, lengths 0..47 -- lane set-up, [r^2,r] / [r,1] final multiplication, SIMD carry chains, 26->44-bit limb "
               "conversion, the conditional subtraction of p (accumulators up to and across 2^130-5 are reachable with r = 2) and the pad addition.")
TRUSTED = ["CBMC 6.11 + cvc5 1.0", "irsym LLVM-IR interpreter; BLAKE2b spec model validated against Python hashlib, SipHash against the paper's vector (development) and by structural agreement with the reference unit", "spec models in models/ (validated against FIPS/RFC vectors by bin/setup)",
           "composition: padding/chunking over an abstract compression function + compression function == spec => hash == spec"]
ASSUMPTIONS = ["message lengths in the enumerated sets"]
OUTSIDE = ["poly1305_sse2.c for keys r that are not a power of two <= 8 and for messages longer than 47 bytes (its multiplications by general r / r^2 / r^4 are symbolic-by-symbolic 26-bit-limb SIMD products; the donna unit is decided end to end: buffering/padding/clamping/verify (CBMC), block multiplication mod 2^130-5 (E2 limb mode), final reduction (CBMC))",
           "messages longer than the bounds / other split points", "SIMD BLAKE2b compression units vs the reference unit (the E2 target gives no verdict within budget; not claimed)"]


def obligations(tier):
    obs = []
    for alg in (256, 512, 0):
        obs.append(Ob("sha2-kernel-%s" % (alg or "lemmas"), "C04/sha2_kernel.c", units=["sodium/utils.c"], stubs=["libc.c"],
                      defs={"ALG": alg}, unwind=90, backend="cvc5", timeout=900, mem=6, nochecks=True, family="sha2-compression",
                      desc="SHA256_Transform / SHA512_Transform == FIPS 180-4 compression; algebraic rewrite lemmas",
                      bounds="all chaining values and blocks (768 / 1536 symbolic bits)"))
    for alg, bs in ((256, 64), (512, 128)):
        pad = bs // 8
        qlens = sorted(set([0, 1, bs - 1 - pad, bs - pad, bs - 1, bs, bs + 1, 2 * bs - 1 - pad, 2 * bs, 2 * bs + 6]))
        lens = list(range(0, 2 * bs + 7)) if tier == "thorough" else qlens
        for L in lens:
            cand = sorted(set(x for x in ((0, 1, bs - 1, bs, bs + 1, L - 1, L) if L in qlens else (0, bs, L)) if 0 <= x <= L))
            splits = set()
            for a_ in cand:
                for b_ in cand:
                    if a_ + b_ <= L:
                        splits.add((a_, b_))
            if tier == "thorough":
                # 2-chunk splits at every position that is special for the buffer logic (ends, block boundaries +-1,
                # the padding threshold): <= 7 per length (every position would be
                # 49 000 CBMC runs; the buffering code has no other length-dependent branch)
                cand = set([0, 1, L // 2, L]) | set([bs - 1, bs, bs + 1])
                for a_ in sorted(x for x in cand if 0 <= x <= L):
                    splits.add((a_, L - a_))
            for a_, b_ in sorted(splits):
                q = L in qlens and a_ in (0, 1, bs - 1, bs, L) and b_ in (0, 1, bs, L - a_)
                if tier != "thorough" and not q:
                    continue
                obs.append(Ob("sha%d-glue-len%d-a%d-b%d" % (alg, L, a_, b_), "C04/sha2_glue.c", units=["sodium/utils.c"], stubs=["libc.c"],
                              defs={"ALG": alg, "LEN": L, "SPLIT_A": a_, "SPLIT_B": b_}, unwind=2 * bs + 20, timeout=600, nochecks=True,
                              instrument=[["--replace-calls", "SHA%d_Transform:cut_transform" % alg]],
                              tier="quick" if q else "thorough", family="sha%d-padding-chunking" % alg,
                              desc="one-shot and 3-chunk streaming feed the FIPS-padded blocks in order into the (abstract) compression chain",
                              bounds="all message bytes; (len, split a, split b) enumerated: quick boundary lengths x boundary splits; thorough every len 0..2*block+6 x <= 7 two-chunk splits (ends, middle, block boundary +-1) + boundary 3-chunk splits"))
    HU = {256: ["crypto_auth/hmacsha256/auth_hmacsha256.c", "crypto_kdf/hkdf/kdf_hkdf_sha256.c"],
          512: ["crypto_auth/hmacsha512/auth_hmacsha512.c", "crypto_kdf/hkdf/kdf_hkdf_sha512.c"],
          512256: ["crypto_auth/hmacsha512/auth_hmacsha512.c", "crypto_auth/hmacsha512256/auth_hmacsha512256.c", "crypto_auth/crypto_auth.c"]}
    COMMON = ["sodium/utils.c", "crypto_verify/verify.c"]
    HST = ["ideal_hash.c", "misuse.c", "libc.c", "x86_builtins.c"]
    for alg in (256, 512, 512256):
        bs = 64 if alg == 256 else 128
        for kl in ((0, 32, bs, bs + 1) if tier != "thorough" else (0, 1, 32, bs - 1, bs, bs + 1, bs + 40)):
            for ml in ((0, 20) if tier != "thorough" else (0, 1, 2, 20, 63, 64, 65, 100)):
                obs.append(Ob("hmac%d-k%d-m%d" % (alg, kl, ml), "C04/hmac_hkdf.c", units=HU[alg] + COMMON, stubs=HST,
                              defs={"ALG": alg, "KLEN": kl, "MLEN": ml, "PART": 0}, unwind=330, timeout=900, family="hmac-%d" % alg,
                              desc="HMAC init/update/final, one-shot and verify == RFC 2104 over idealised SHA-2 (long keys pre-hashed; 512-256 truncation)",
                              bounds="all key/message/tag bytes; key length in {0,1,32,B,B+1,B+40}, message length enumerated"))
    for alg in (256, 512):
        hl = alg // 8
        for ol in ((0, 1, hl, hl + 1, 2 * hl + 6) if tier != "thorough" else range(0, 3 * hl + 2)):
            for cl in ((5,) if tier != "thorough" else (0, 5)):
                obs.append(Ob("hkdf%d-out%d-ctx%d" % (alg, ol, cl), "C04/hmac_hkdf.c", units=HU[alg] + COMMON, stubs=HST,
                              defs={"ALG": alg, "KLEN": 7, "MLEN": 9, "OUTLEN": ol, "CTXLEN": cl, "PART": 1}, unwind=330, timeout=600 if ol <= 2 * hl + 6 else 2400,
                              family="hkdf-%d" % alg, tier="quick" if ol in (0, 1, hl, hl + 1, 2 * hl + 6) else "thorough",
                              desc="HKDF extract/expand == RFC 5869 (counter-suffixed chain from 1, truncation, out_len > 255*HashLen refused)",
                              bounds="all salt/ikm/info/prk bytes; out_len enumerated (quick 5 values, thorough 0..3*HashLen+1), info length in {0,5}"))
    for ol in (0, 15, 16, 32, 64, 65):
        obs.append(Ob("kdf-blake2b-out%d" % ol, "C04/hmac_hkdf.c", units=["crypto_kdf/blake2b/kdf_blake2b.c", "crypto_kdf/crypto_kdf.c"] + COMMON,
                      stubs=HST, defs={"ALG": 256, "OUTLEN": ol, "PART": 2}, unwind=330, timeout=600, family="kdf-blake2b",
                      desc="crypto_kdf_derive_from_key == BLAKE2b(key, salt = LE64(id)||0, personal = ctx||0); lengths outside 16..64 refused",
                      bounds="all keys/ids/contexts; subkey length in {0,15,16,32,64,65}"))
    # Poly1305 around its block function
    plens = list(range(0, 50)) if tier == "thorough" else [0, 1, 15, 16, 17, 31, 32, 33, 49]
    for L in plens:
        sp = set([(0, 0), (L, 0), (0, L)])
        for a_ in (1, 15, 16, 17):
            for b_ in (0, 1, 15, 16, 17):
                if a_ + b_ <= L:
                    sp.add((a_, b_))
        for a_, b_ in sorted(sp):
            q = L in (0, 1, 16, 17, 33, 49) and (a_, b_) in ((0, 0), (1, 16), (15, 1), (16, 16), (17, 15), (L, 0))
            if tier != "thorough" and not q:
                continue
            obs.append(Ob("poly1305-glue-len%d-a%d-b%d" % (L, a_, b_), "C04/poly1305_glue.c", units=["sodium/utils.c", "crypto_verify/verify.c"], stubs=["misuse.c", "libc.c", "x86_builtins.c"],
                          defs={"PART": 0, "LEN": L, "SPLIT_A": a_, "SPLIT_B": b_}, unwind=24, timeout=600, nochecks=True,
                          instrument=[["--replace-calls", "poly1305_blocks:cut_blocks"]], tier="quick" if q else "thorough", family="poly1305-buffering",
                          desc="Poly1305 one-shot and 3-chunk streaming feed exactly the RFC 8439 block sequence (padding, final flag) into the (abstract) block function; same tag; verify exact; key clamping",
                          bounds="all message/key/tag bytes; (len, split a, split b) enumerated"))
    obs.append(Ob("poly1305-finish", "C04/poly1305_glue.c", units=["sodium/utils.c", "crypto_verify/verify.c"], stubs=["misuse.c", "libc.c", "x86_builtins.c"],
                  defs={"PART": 1, "LEN": 1}, unwind=20, timeout=900, nochecks=True, family="poly1305-finish",
                  desc="poly1305_finish == ((h mod 2^130-5) + pad) mod 2^128 for every partially reduced accumulator", bounds="limbs h0,h1,h2 < 2^46, pad 128 bits, all symbolic"))
    return obs
