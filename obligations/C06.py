from vlib import Ob

LEVEL_TEXT = ("G-obligations: the real Ed25519 drivers (keypair.c, sign.c, open.c) are executed symbolically over an abstract "
              "group/scalar field/SHA-512 (uninterpreted functions): signing data flow == RFC 8032, determinism, and "
              "verification accepts iff every strictness check and the cofactored equation hold on the right bytes; "
              "K-obligations on the canonicity / small-order predicates are under C07.")
TRUSTED = ["CBMC 6.11 + uninterpreted-function encoding", "abstract group model stubs/ideal_ed25519.c",
           "RFC 8032 data flow transcribed in harness/C06/ed25519.c"]
ASSUMPTIONS = ["message length in the enumerated set"]
# the arithmetic the drivers rest on (ed25519_ref10.c is one of this property's anchors): the same E2 obligations as C07
E2_LIMB = ["sc25519", "edwards-group-ops", "ed25519-scalarmult-alg", "fe25519-51"]
LEVEL_TEXT += (" Arithmetic (E2 irsym, shared with C07): sc25519_reduce / sc25519_muladd == integer arithmetic mod L for all inputs (limb mode), the Edwards group "
               "operations == the addition law (ring mode), ge25519_scalarmult_base == a*B with the base table checked exhaustively (multiples mode), field kernels (limb mode); "
               "sc25519_is_canonical / ge25519_is_canonical on all 256 bits (CBMC).")
OUTSIDE = ["point decoding (square-root chain) and ge25519_double_scalarmult_vartime (scalar-dependent control flow); the composition of the decided arithmetic layers with the drivers is on paper", "that the cofactored equation is the right one (RFC 8032; trusted)",
           "pk_to_curve25519 birational map (field inversion chain)"]
UNITS = ["crypto_sign/ed25519/ref10/keypair.c", "crypto_sign/ed25519/ref10/sign.c", "crypto_sign/ed25519/ref10/open.c",
         "crypto_sign/ed25519/sign_ed25519.c", "sodium/utils.c", "crypto_verify/verify.c"]
STUBS = ["ideal_hash.c", "ideal_ed25519.c", "rng.c", "misuse.c", "libc.c", "x86_builtins.c"]


def obligations(tier):
    obs = []
    mls = (0, 1, 17, 40) if tier != "thorough" else list(range(0, 41))
    for part, nm in ((0, "keygen-sign"), (1, "verify"), (2, "open")):
        for ph in (0, 1):
            if part == 2 and ph:
                continue
            for ml in mls:
                obs.append(Ob("%s%s-m%d" % (nm, "-ph" if ph else "", ml), "C06/ed25519.c", units=UNITS, stubs=STUBS,
                              defs={"PART": part, "PH": ph, "MLEN": ml}, unwind=240, timeout=900, family="ed25519-" + nm,
                              # verification: a counterexample is an abstract-group scenario (e.g. "R of small order that
                              # satisfies the equation"); reproducing it natively needs crafted torsion points, so the
                              # replay is model-level (re-decides the obligation) -- see DESIGN.md section 1, E3
                              replay="model" if part == 1 else "native",
                              tier="quick" if ml in (0, 1, 17, 40) else "thorough",
                              desc={0: "seed_keypair / sign (plain, ph) == RFC 8032 data flow; deterministic; combined form; sk_to_curve25519",
                                    1: "verify_detached accepts <=> all strictness checks and the cofactored equation on the right bytes",
                                    2: "sign_open <=> verify_detached; message/length on success; zero/untouched and mlen=0 on failure"}[part],
                              bounds="all seed/message/signature/key bytes; message length enumerated (quick 0,1,17,40; thorough 0..40)"))
    for ml, sp in (((17, 5),) if tier != "thorough" else ((0, 0), (1, 1), (17, 0), (17, 5), (17, 17), (40, 17))):
        obs.append(Ob("multipart-m%d-s%d" % (ml, sp), "C06/ed25519.c", units=UNITS + ["crypto_sign/crypto_sign.c"], stubs=STUBS, defs={"PART": 4, "MLEN": ml, "SPLIT": sp},
                      unwind=240, timeout=1800, family="ed25519-multipart", replay="model", tier="quick" if (ml, sp) == (17, 5) else "thorough",
                      desc="multi-part Ed25519ph API == pre-hashed signing / verification of SHA-512(m); generic crypto_sign_* names; sk_to_seed / sk_to_pk",
                      bounds="all seed/message/signature/key bytes; (mlen, split) enumerated"))
    # the canonical-S and canonical-point rules of verification rest on the real predicates of ed25519_ref10.c, which the
    # G-obligations above idealise: S < L and y < p on all 256 input bits (the C07 K-obligation) belong to this check too
    obs.append(Ob("canonical-predicates", "C07/predicates.c", units=["crypto_core/ed25519/ref10/ed25519_ref10.c", "sodium/utils.c"],
                  stubs=["libc.c", "misuse.c"], unwind=40, timeout=900, nochecks=True, family="canonical-predicates",
                  desc="sc25519_is_canonical <=> s < L ; ge25519_is_canonical <=> y < p (what crypto_sign_verify's canonical-S / canonical-R,A checks call)", bounds="all 256 input bits"))
    return obs
