BOUNDARY = [0, 1, 15, 16, 17, 31, 32, 33, 40]
CHACHA_UNITS = {0: ["crypto_aead/chacha20poly1305/aead_chacha20poly1305.c"],
                1: ["crypto_aead/chacha20poly1305/aead_chacha20poly1305.c"],
                2: ["crypto_aead/xchacha20poly1305/aead_xchacha20poly1305.c"]}
VNAME = {0: "chacha20poly1305", 1: "chacha20poly1305-ietf", 2: "xchacha20poly1305-ietf"}
GLUE_UNITS = ["sodium/utils.c", "crypto_verify/verify.c"]
GLUE_STUBS = ["ideal.c", "misuse.c", "libc.c", "x86_builtins.c"]
SB_UNITS = {0: ["crypto_secretbox/crypto_secretbox_easy.c", "crypto_secretbox/crypto_secretbox.c",
                "crypto_secretbox/xsalsa20poly1305/secretbox_xsalsa20poly1305.c",
                "crypto_stream/xsalsa20/stream_xsalsa20.c"],
            1: ["crypto_secretbox/xchacha20poly1305/secretbox_xchacha20poly1305.c"]}
SBNAME = {0: "xsalsa20poly1305", 1: "xchacha20poly1305"}
BOX_UNITS = {0: SB_UNITS[0] + ["crypto_box/crypto_box_easy.c", "crypto_box/crypto_box.c", "crypto_box/crypto_box_seal.c",
                             "crypto_box/curve25519xsalsa20poly1305/box_curve25519xsalsa20poly1305.c",
                             "crypto_generichash/crypto_generichash.c"],
             1: SB_UNITS[1] + ["crypto_box/curve25519xchacha20poly1305/box_curve25519xchacha20poly1305.c",
                             "crypto_box/curve25519xchacha20poly1305/box_seal_curve25519xchacha20poly1305.c",
                             "crypto_generichash/crypto_generichash.c"]}
BOX_STUBS = GLUE_STUBS + ["ideal_hash.c", "ideal_dh.c", "rng.c"]
AEGIS_UNITS = {256: ["crypto_aead/aegis256/aead_aegis256.c"], 128: ["crypto_aead/aegis128l/aead_aegis128l.c"]}
AEGIS_CUTS = {256: [["--replace-calls", "aegis256_init:cut_init"], ["--replace-calls", "aegis256_mac:cut_mac"]],
              128: [["--replace-calls", "aegis128l_init:cut_init"], ["--replace-calls", "aegis128l_mac:cut_mac"]]}
AEGIS_STUBS = ["ideal_aes.c", "misuse.c", "libc.c", "x86_builtins.c", "rng.c"]
