BOUNDARY = [0, 1, 15, 16, 17, 31, 32, 33, 40]
CHACHA_UNITS = {0: ["crypto_aead/chacha20poly1305/aead_chacha20poly1305.c"],
                1: ["crypto_aead/chacha20poly1305/aead_chacha20poly1305.c"],
                2: ["crypto_aead/xchacha20poly1305/aead_xchacha20poly1305.c"]}
VNAME = {0: "chacha20poly1305", 1: "chacha20poly1305-ietf", 2: "xchacha20poly1305-ietf"}
GLUE_UNITS = ["sodium/utils.c", "crypto_verify/verify.c"]
GLUE_STUBS = ["ideal.c", "misuse.c", "libc.c", "x86_builtins.c"]
