from vlib import Ob

LEVEL_TEXT = ("CBMC's partial-order encoding of ALL interleavings (sequential consistency) of N threads running the real "
              "sodium_init/sodium_crit_enter/leave from sodium/core.c; pthread mutex from CBMC's pthread library model; "
              "data-race freedom of post-init accesses by goto-instrument --race-check on the real units.")
TRUSTED = ["CBMC 6.11 concurrency encoding (SC memory model) and its pthread library model",
           "init callees replaced by counting stubs that write shared state non-atomically"]
ASSUMPTIONS = ["2 and 3 threads", "sequentially consistent memory"]
OUTSIDE = ["more than 3 threads", "weak memory models", "OS thread-local storage behaviour", "races inside cryptographic cores on caller-provided distinct buffers (they have no shared state: checked by --race-check only for the listed representatives)"]
TECHNIQUE = "bounded model checking of all thread interleavings (CBMC partial-order encoding, SAT) of the real core.c; counterexample = schedule trace"


def obligations(tier):
    obs = []
    for n in (2, 3):
        obs.append(Ob("init-%dthreads" % n, "C19/init.c", units=["sodium/core.c"], defs={"NTHREADS": n}, unwind=12,
                      timeout=1800, mem=8, nochecks=True, tier="quick" if n == 2 else "thorough", replay="model", family="sodium_init",
                      desc="all interleavings of N threads in sodium_init: once-only, return codes, no early return, final state visible",
                      bounds="N=%d threads, all interleavings, SC" % n))
    obs.append(Ob("init-2threads-twice", "C19/init.c", units=["sodium/core.c"], defs={"NTHREADS": 2, "TWICE": 1}, unwind=12,
                  timeout=1800, mem=8, nochecks=True, replay="model", family="sodium_init",
                  desc="as above, each thread calling sodium_init twice: the second call returns 1, still once-only",
                  bounds="2 threads x 2 calls, all interleavings, SC"))
    return obs
