from vlib import Ob

LEVEL_TEXT = ("G-obligations on the real password-hashing front ends with the memory-hard cores stubbed: limit checks on "
              "symbolic 64-bit parameters, needs_rehash semantics, hash-string codec round trip and strict decimal parsing, "
              "prefix dispatch; K: index_alpha range, argon2_ctx memory rounding (thorough).")
TRUSTED = ["CBMC 6.11", "stubs for argon2*_hash_raw / verifier back ends"]
ASSUMPTIONS = ["needs_rehash: one skeleton string per algorithm with one structural character mutated", "encode->decode round trip with symbolic salt/hash is NOT covered: symbolic Base64 text makes every later string offset symbolic (no verdict in 7 min)"]
OUTSIDE = ["raw Argon2i/Argon2id/scrypt outputs == RFC 9106 / RFC 7914 as whole functions (>= 8 KiB of state, data-dependent addressing): not encodable within reach",
           "SIMD fill-block units (E2)", "scrypt string codec (not yet covered)"]
A2 = "crypto_pwhash/argon2/"
COMMON = ["sodium/utils.c", "sodium/codecs.c", "crypto_verify/verify.c"]
STUBS = ["misuse.c", "rng.c", "libc.c", "x86_builtins.c"]


def obligations(tier):
    obs = []
    for idv in (1, 0):
        nm = "argon2id" if idv else "argon2i"
        unit = A2 + ("pwhash_argon2id.c" if idv else "pwhash_argon2i.c")
        obs.append(Ob("limits-" + nm, "C08/pwhash.c", units=[unit] + COMMON, stubs=STUBS, defs={"PART": 0, "ID": idv}, unwind=20,
                      timeout=900, family="pwhash-limits", nochecks=True,
                      desc="crypto_pwhash_%s: every limit -> -1/errno before the core; in-range -> core(t=opslimit, m=memlimit/1024, p=1)" % nm,
                      bounds="all 64-bit passwdlen/opslimit/memlimit, outlen <= 2^33, any alg value"))
        obs.append(Ob("str-api-" + nm, "C08/pwhash.c", units=[unit] + COMMON, stubs=STUBS, defs={"PART": 6, "ID": idv}, unwind=140, timeout=900, family="pwhash-str-api", nochecks=True,
                      desc="crypto_pwhash_%s_str / _str_verify: limits, salt = 16 bytes from the installed source, parameters and buffers forwarded, result follows the core, nothing produced on failure" % nm,
                      bounds="all 64-bit passwdlen/opslimit/memlimit, any core status, all source bytes"))
        obs.append(Ob("needs-rehash-" + nm, "C08/pwhash.c", units=[A2 + "pwhash_argon2i.c", A2 + "argon2-encoding.c", A2 + "argon2-core.c"] + COMMON,
                      stubs=STUBS, defs={"PART": 1, "ID": idv}, unwind=70, timeout=900, mem=6, family="needs-rehash",
                      desc="str_needs_rehash == 0/1/-1 per statement", bounds="all 64-bit (opslimit, memlimit); skeleton string m=8,t=3 with any one structural character replaced by any non-digit"))
    for fld, fn in enumerate(("m", "t", "p", "v")):
        obs.append(Ob("needs-rehash-bigparam-" + fn, "C08/pwhash.c", units=[A2 + "pwhash_argon2i.c", A2 + "argon2-encoding.c", A2 + "argon2-core.c"] + COMMON,
                      stubs=STUBS, defs={"PART": 5, "ID": 1, "FIELD": fld}, unwind=90, timeout=900, mem=6, family="needs-rehash",
                      desc="hash string whose %s= field is any 10-digit decimal: values above 2^32-1 => malformed (-1), never truncated" % fn,
                      bounds="all 10-digit values of the field (9*10^9 strings), rest of the string fixed"))
    for nch in ((1, 2, 4) if tier != "thorough" else (1, 2, 3, 4, 6, 10)):
        obs.append(Ob("decode-decimal-%dch" % nch, "C08/pwhash.c", units=[A2 + "argon2-core.c"] + COMMON, stubs=STUBS,
                      defs={"PART": 3, "NCH": nch}, unwind=30, timeout=900, family="decode-decimal",
                      desc="decode_decimal: value/end pointer, rejects empty, leading zeros, overflow", bounds="all strings of %d characters (+NUL)" % nch))
    for ol in ((1, 32, 63, 64, 65, 96, 97, 128) if tier != "thorough" else (1, 2, 31, 32, 33, 63, 64, 65, 66, 95, 96, 97, 127, 128, 129, 160, 161, 250)):
        for il in ((5,) if ol not in (64, 65) else (0, 5, 72)):
            obs.append(Ob("blake2b-long-out%d-in%d" % (ol, il), "C08/blake2b_long.c", units=[A2 + "blake2b-long.c"] + COMMON, stubs=STUBS + ["ideal_hash.c"],
                          defs={"OUTLEN": ol, "INLEN": il}, unwind=max(80, il + 8, ol + 8), timeout=600, family="argon2-variable-length-hash",
                          desc="blake2b_long == RFC 9106 H' over an idealised BLAKE2b (length prefix, single hash up to 64 bytes, 64-byte chain with 32-byte pieces beyond)",
                          bounds="all input bytes; (output length, input length) enumerated around 32/64/96/128"))
    obs.append(Ob("prefix-dispatch", "C08/pwhash.c", units=["crypto_pwhash/crypto_pwhash.c"] + COMMON, stubs=STUBS, defs={"PART": 4}, unwind=20,
                  timeout=600, family="prefix-dispatch", desc="crypto_pwhash_str_verify / _needs_rehash dispatch on the prefix; unknown prefix -> -1/EINVAL",
                  bounds="all 12-character prefixes"))
    SC = "crypto_pwhash/scryptsalsa208sha256/"
    RS = (0, 1, 8, 1 << 15, (1 << 30) - 1, 1 << 30, (1 << 32) - 1)
    PS = (0, 1, 2, 1 << 15, (1 << 30) - 1, 1 << 30, (1 << 32) - 1)
    QP = ((0, 1), (1, 0), (8, 1), (8, 2), (1 << 15, 1 << 15), (1, (1 << 30) - 1), (1, 1 << 30), ((1 << 30) - 1, 1), ((1 << 32) - 1, (1 << 32) - 1))
    for nm, unit in (("nosse", SC + "nosse/pwhash_scryptsalsa208sha256_nosse.c"), ("sse", SC + "sse/pwhash_scryptsalsa208sha256_sse.c")):
        for rv in RS:
            for pv in PS:
                q = (rv, pv) in QP
                if tier != "thorough" and not q:
                    continue
                obs.append(Ob("scrypt-kdf-params-%s-r%d-p%d" % (nm, rv, pv), "C08/scrypt_params.c", units=[unit, "sodium/utils.c"], stubs=["libc.c", "x86_builtins.c"],
                              defs={"KDF": "escrypt_kdf_" + nm, "RV": "%dU" % rv, "PV": "%dU" % pv}, unwind=4, timeout=600, mem=6, family="scrypt-parameter-validation",
                              tier="quick" if q else "thorough",
                              desc="escrypt_kdf refuses exactly the (N, r, p, buflen) outside RFC 7914 / documented limits or when the scratch region cannot be obtained; otherwise requests exactly 128rp+128rN+256r+64 bytes and starts PBKDF2 over 128rp bytes",
                              bounds="N, buflen, available region size 64-bit symbolic, allocator outcome symbolic; (r, p) enumerated over boundary values"))
    for part, nm in ((0, "needs-rehash"), (1, "raw-api"), (2, "str-api")):
        obs.append(Ob("scrypt-" + nm, "C08/scrypt_api.c", instrument=([["--replace-calls", "_sodium_escrypt_gensalt_r:cut_gensalt"], ["--replace-calls", "_sodium_escrypt_r:cut_escrypt_r"]] if part == 2 else []), units=[SC + "pwhash_scryptsalsa208sha256.c", SC + "crypto_scrypt-common.c", "sodium/utils.c", "crypto_verify/verify.c"],
                      stubs=["misuse.c", "rng.c", "libc.c", "x86_builtins.c"], defs={"PART": part}, unwind=110, timeout=1200, mem=8, family="scrypt-api", replay=("model" if part == 2 else "native"),
                      desc={0: "scrypt str_needs_rehash: -1 / 0 / 1 exactly as documented, on an arbitrary 102-byte buffer and all 64-bit limits",
                            1: "scrypt raw API: output-length limits, aliasing, parameter selection forwarded to the core, failure propagation",
                            2: "scrypt str / str_verify: salt = 32 source bytes, selected parameters, buffers forwarded, failure propagation; verify <=> recomputed string equals the presented one (all 102 bytes)"}[part],
                      bounds="all string bytes, opslimit, memlimit, lengths (64-bit) symbolic; core and allocator outcomes symbolic"))
    return obs
