from vlib import Ob

LEVEL_TEXT = ("Bounded symbolic execution of sodium_pad / sodium_unpad (real sodium/utils.c) with CBMC against "
              "the ISO/IEC 7816-4 padding specification written in the harness; block size enumerated, lengths, "
              "capacities and contents symbolic.")
TRUSTED = ["CBMC 6.11 C semantics", "sodium_misuse model (stubs/misuse.c)"]
ASSUMPTIONS = ["block sizes 1..17 (quick) / 1..33 + 64,128 (thorough), unpadded length <= 36"]
OUTSIDE = ["block sizes and lengths above the bounds for the content obligations (the size arithmetic is covered for all 64-bit lengths with every power-of-two block size and 25 listed other block sizes; a symbolic 64-bit divisor was out of reach (no verdict in 60 s on SAT, cvc5, z3))"]


def obligations(tier):
    obs = []
    quick_bs = [1, 2, 3, 4, 5, 7, 8, 15, 16, 17]
    all_bs = list(range(1, 34)) + [64, 128]
    for bs in all_bs:
        t = "quick" if bs in quick_bs else "thorough"
        nmax = 36 if bs <= 33 else 2 * bs + 3
        buf = nmax + bs + 2
        obs.append(Ob("pad-bs%d" % bs, "C16/pad.c", units=["sodium/utils.c"], stubs=["misuse.c", "libc.c"],
                      defs={"BS": bs, "NMAX": nmax}, unwind=max(buf, bs) + 2, tier=t, timeout=900, family="pad",
                      desc="sodium_pad result bytes/length/-1-without-write vs spec; unpad(pad(x)) = |x|",
                      bounds="blocksize=%d, unpadded 0..%d symbolic, capacity 0..%d symbolic, all contents" % (bs, nmax, buf)))
        for exact in (0, 1):
            obs.append(Ob("unpad-bs%d-%s" % (bs, "exact" if exact else "any"), "C16/unpad.c", units=["sodium/utils.c"],
                          stubs=["misuse.c", "libc.c"], defs={"BS": bs, "EXACT": exact}, unwind=2 * bs + 6, tier=t,
                          timeout=900, family="unpad", safety=True,
                          desc="sodium_unpad accepts exactly '...0x80 00*' final blocks, right length, reads only the final block",
                          bounds="blocksize=%d, buffer length symbolic 0..%d (exact: one block at object start), all contents" % (bs, 2 * bs + 3)))
    for k in range(64):
        obs.append(Ob("pad-limits-pow2-k%d" % k, "C16/limits.c", units=["sodium/utils.c"], stubs=["misuse.c", "libc.c"],
                      defs={"K": k}, unwind=2, timeout=300, family="pad-limits",
                      tier="quick" if k in (0, 1, 3, 4, 12, 31, 32, 62, 63) else "thorough",
                      desc="sodium_pad: misuse iff padded length overflows size_t; capacity 0 -> -1",
                      bounds="all 64-bit lengths, blocksize = 2^k (every k 0..63 in thorough)"))
    vals = [0, 3, 5, 6, 7, 9, 10, 11, 12, 13, 15, 17, 24, 100, 255, 257, 1000, 65535, 65537, (1 << 32) - 1, (1 << 32) + 1,
            (1 << 63) - 1, (1 << 63) + 1, (1 << 64) - 2, (1 << 64) - 1]
    for v in vals:
        obs.append(Ob("pad-limits-bs%d" % v, "C16/limits.c", units=["sodium/utils.c"], stubs=["misuse.c", "libc.c"],
                      defs={"BSVAL": "%dULL" % v}, unwind=2, timeout=300, family="pad-limits",
                      tier="quick" if v in (0, 3, 7, 17, 65537, (1 << 63) + 1, (1 << 64) - 1) else "thorough",
                      desc="sodium_pad: blocksize 0 rejected; misuse iff padded length overflows size_t (modulo path)",
                      bounds="all 64-bit lengths, blocksize from an enumerated list of 25 non-power-of-two values incl. 0 and 2^64-1"))
    return obs
