from vlib import Ob
from obligations.aead_common import *

LEVEL_TEXT = ("G-obligations: every decrypt/open/verify entry point is executed symbolically on an ARBITRARY presented "
              "ciphertext/tag with idealised cores; CBMC decides, for all keys and contents at each enumerated length, "
              "that the call succeeds iff all presented tag bytes equal the recomputed MAC of the specified input, and "
              "that on failure mlen = 0 and the output buffer is untouched or zero-filled.")
LEVEL_TEXT += " AES-256-GCM (E2 irsym): the AES-NI/PCLMULQDQ unit's LLVM IR is executed on a concrete key and nonce (two fixed pairs) with message, associated data and forged-tag delta symbolic, and compared bit for bit with an SP 800-38D / FIPS-197 specification over the same symbols; both sides are GF(2)-affine in the symbols and are kept in canonical XOR normal form, tag acceptance under 'delta != 0' is decided by kissat. AEGIS-128L/256 AES-NI and portable units likewise with key and nonce symbolic as well."
TRUSTED = ["CBMC 6.11 C semantics and uninterpreted-function encoding", "spec models in harness/*_spec.h",
           "MAC unforgeability is NOT assumed and not claimed (cryptographic property of the primitive)"]
ASSUMPTIONS = ["clen, adlen in the enumerated sets"]
OUTSIDE = ["that a changed ciphertext/ad/key yields a different MAC value (unforgeability)", "AES-256-GCM with keys/nonces other than the two fixed pairs; multi-bit changes of ciphertext/ad for AES-GCM (tag changes are fully symbolic)", "for AEGIS: that a changed ciphertext/ad changes the recomputed tag (cryptographic; rejection is decided for an arbitrary presented ciphertext with tag = specified tag xor delta, delta != 0)",
           "lengths above the bounds"]


E2_EQUIV = ['aes256gcm-aesni-forgery', 'aegis128l-aesni-forgery', 'aegis128l-soft-forgery', 'aegis256-aesni-forgery', 'aegis256-soft-forgery']


def obligations(tier):
    obs = []
    clens = list(range(0, 57)) if tier == "thorough" else [0, 1, 15, 16, 17, 31, 32, 33, 48, 49, 56]
    alens = list(range(0, 34)) if tier == "thorough" else [0, 5, 16, 17]
    for v in (0, 1, 2):
        for cl in clens:
            for al in alens:
                if cl < 16 and al not in (0, 5):
                    continue
                q = cl in (0, 1, 15, 16, 17, 31, 32, 33, 48, 49, 56) and al in (0, 5, 16, 17)
                if not q and not (al in (0, 1, 5, 15, 16, 17, 33) or cl in (0, 1, 15, 16, 17, 31, 32, 33, 48, 49, 56)):
                    continue    # thorough: every clen x boundary adlens, every adlen x boundary clens
                obs.append(Ob("reject-%s-c%d-a%d" % (VNAME[v], cl, al), "C02/aead_chacha.c",
                              units=CHACHA_UNITS[v] + GLUE_UNITS, stubs=GLUE_STUBS,
                              defs={"VARIANT": v, "CLEN": cl, "ADLEN": al}, unwind=210, timeout=300,
                              tier="quick" if q else "thorough", family="reject-" + VNAME[v],
                              desc="decrypt of arbitrary (c, tag=correct^delta): accept <=> delta == 0; failure: mlen=0, output untouched or zeroed; clen<16 rejected; NULL-output mode same verdict",
                              bounds="all key/nonce/ciphertext/ad/tag bytes; clen and adlen enumerated (quick 11x4, thorough every clen 0..56 x 7 boundary adlens and every adlen 0..33 x 11 boundary clens)"))
    for v in (0, 1):
        for cl in range(0, 97):
            q = cl in (0, 1, 15, 16, 17, 47, 48, 49, 80, 96)
            obs.append(Ob("reject-secretbox-%s-c%d" % (SBNAME[v], cl), "C02/secretbox.c", units=SB_UNITS[v] + GLUE_UNITS,
                          stubs=GLUE_STUBS, defs={"SBVAR": v, "CLEN": cl}, unwind=130, timeout=300,
                          tier="quick" if q else "thorough", family="reject-secretbox-" + SBNAME[v],
                          desc="secretbox open_easy/open_detached/NaCl open on arbitrary box: accept <=> tag delta == 0; output untouched on rejection; clen<16 rejected",
                          bounds="all key/nonce/box bytes; clen enumerated (quick 10 values, thorough 0..96)"))
    from obligations import C09 as c09
    ins = list(range(0, 58)) if tier == "thorough" else [0, 16, 17, 18, 34, 57]
    for il in ins:
        obs.append(Ob("reject-secretstream-in%d" % il, "C09/reject.c", units=c09.UNITS, stubs=GLUE_STUBS,
                      defs={"INLEN": il, "ADLEN": 5}, unwind=270, timeout=600, family="reject-secretstream",
                      tier="quick" if il in (0, 16, 17, 18, 34, 57) else "thorough",
                      desc="secretstream pull on an arbitrary chunk: accept <=> all 16 stored MAC bytes equal the recomputed MAC; rejection leaves state and output untouched",
                      bounds="arbitrary state/chunk/ad; inlen enumerated"))
    for ag in (256, 128):
        rate = 16 if ag == 256 else 32
        an = "256" if ag == 256 else "128l"
        # each instance costs 2-5 min of SAT time (1.2 M variables): the quick tier takes one shape that crosses the
        # rate with a partial tail block; the thorough tier the boundary grid
        qm = (rate + 1,)
        qa = (1,)
        tm = (0, 1, rate - 1, rate, rate + 1, 2 * rate, 2 * rate + 7)
        ta = (0, 1, rate, rate + 1)
        ms, als = (sorted(set(tm)), list(ta)) if tier == "thorough" else (list(qm), list(qa))
        for ml in ms:
            for al in als:
                q = ml in qm and al in qa and ag == 256   # AEGIS-128L instances take > 10 min: thorough only
                if tier != "thorough" and not q:
                    continue
                obs.append(Ob("aegis%s-reject-m%d-a%d" % (an, ml, al), "C01/aegis.c",
                              units=AEGIS_UNITS[ag] + GLUE_UNITS, stubs=AEGIS_STUBS, instrument=AEGIS_CUTS[ag], object_bits=12, defs={"AEGIS": ag, "MLEN": ml, "ADLEN": al, "PART": 1},
                              unwind=110, timeout=2400, mem=8, tier="quick" if q else "thorough", family="aegis%s-soft" % an,
                              desc="AEGIS portable implementation over an abstract AES round: accept <=> tag delta == 0; zero-filled output and mlen 0 on rejection; verify-only mode; short input",
                              bounds="all key/nonce/message/ad/tag bytes; (mlen, adlen) enumerated around the rate (16 bytes for AEGIS-256, 32 for AEGIS-128L)"))
    # verification entry points named by this property whose exactness obligations live in neighbouring registries:
    # crypto_verify_16/32/64 (both builds), crypto_sign open / verify_detached, HMAC-SHA-512-256 verify, Poly1305 verify
    import re as _re
    from obligations import C14 as _c14, C06 as _c06, C04 as _c04
    pick = {_c14: r"^verify-(sse2|generic)$", _c06: r"^(open|verify)-m17$", _c04: r"^(hmac512256-k32-m\d+|poly1305-glue-len(16|17|33)-a0-b0)$"}
    for mod, rx in pick.items():
        for o in mod.obligations(tier):
            if _re.match(rx, o.name) and (tier == "thorough" or o.tier == "quick"):
                o.family = "verify-exactness-" + o.family
                obs.append(o)
    return obs
