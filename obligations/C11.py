"""C11 is decided by engine E2 (irsym): symbolic execution of clang-14 LLVM IR with z3."""
import json
import os
import re
import shutil
import subprocess
import sys
import time
from concurrent.futures import ThreadPoolExecutor

CUSTOM = True
ENGINE = "irsym"
TECHNIQUE = ("symbolic execution of the clang-14 -O1 LLVM IR of the real units (own interpreter, irsym) with every secret byte a "
             "symbolic bit-vector; each branch condition, switch value, memory address and divisor is an observation that must be "
             "concrete or proved constant by z3; a satisfiable difference yields two secrets, replayed concretely on the IR")
LEVEL_TEXT = ("Bounded symbolic execution: for each listed entry point and each enumerated public shape (lengths, block sizes, "
              "public inputs) all secret bytes are symbolic; the verdict holds for every value of the secrets along the (unique) "
              "public control-flow path. Non-interference at the level of LLVM IR control flow, addresses and division operands.")
TRUSTED = ["clang-14 front end and -O1 pipeline (the shipped library is built with GCC: one compiler removed)", "irsym interpreter (validated on the repository's known-answer vectors by bin/setup)",
           "asm2c translation of the inline-assembly blocks", "z3 4.x for non-concrete observations"]
ASSUMPTIONS = ["public shapes (lengths, block sizes, public keys/points) from the enumerated sets", "64x64-bit multiplications and wider are modelled as opaque data flow in the long-running targets (dependence is over-approximated)"]
OUTSIDE = ["machine code emitted by GCC", "micro-architectural timing (cache lines, variable-latency multipliers)", "sandy2x/ladder.S and poly1305_sse2.c", "hardware AES-GCM unit (intrinsics not modelled)",
           "sodium_pad with a secret unpadded length", "declassified results: return status of verify/open/unpad, identity-result error of scalarmult (the wrappers' final tests are not analysed)"]

VERIF = os.path.dirname(os.path.dirname(os.path.abspath(__file__)))
HEAVY_QUICK = {"x25519-ladder", "ge25519_scalarmult_base", "ed25519-sign", "ed25519-seed-keypair", "ge25519_scalarmult", "x25519-base"}


def _targets():
    out = subprocess.run(["python3-vt", "-c",
                          "import sys,json; sys.path.insert(0,%r); from irsym import nonint; "
                          "print(json.dumps([(t['name'], len(t['params']), [str(p) for p in t['params']], t['units'], t.get('heavy', False)) for t in nonint.TARGETS]))" % VERIF],
                         stdout=subprocess.PIPE, stderr=subprocess.PIPE, cwd=VERIF)
    return json.loads(out.stdout.decode())


def run(prop, tier, seed, only=None, keep=False):
    t0 = time.time()
    work = os.path.join(VERIF, ".work", "C11-%d" % os.getpid())
    shutil.rmtree(work, ignore_errors=True)
    os.makedirs(work)
    env = dict(os.environ)
    targets = _targets()
    jobs = []
    for name, npar, pstr, units, heavy in targets:
        if only and not re.search(only, name):
            continue
        for i in range(npar):
            if tier != "thorough" and i > 3 and not heavy:
                # quick tier: first four public shapes of each target
                continue
            jobs.append((name, i, pstr[i], units))

    def build(name):
        r = subprocess.run(["python3-vt", "-m", "irsym.nonint", "build", name, work], cwd=VERIF, stdout=subprocess.PIPE,
                           stderr=subprocess.STDOUT, env=env)
        return name, r.returncode, r.stdout.decode(errors="replace")[-500:]

    def one(job):
        name, i, ps, units = job
        try:
            r = subprocess.run(["python3-vt", "-m", "irsym.nonint", name, str(i), work], cwd=VERIF, stdout=subprocess.PIPE,
                               stderr=subprocess.PIPE, env=env, timeout=1500)
            d = json.loads(r.stdout.decode().strip().split("\n")[-1])
        except Exception as e:
            d = {"target": name, "params": ps, "status": "inconclusive", "detail": "runner: %r" % (e,), "steps": 0,
                 "observations": 0, "obs_solver": 0, "solver_s": 0, "wall_s": 0}
        d["pidx"] = i
        d["units"] = units
        return d

    with ThreadPoolExecutor(16) as ex:
        builds = list(ex.map(build, sorted(set(j[0] for j in jobs))))
        results = list(ex.map(one, jobs))
    failed_builds = {n: o for n, rc, o in builds if rc != 0}
    viol = [r for r in results if r["status"] == "violation"]
    inc = [r for r in results if r["status"] == "inconclusive"]
    ok = [r for r in results if r["status"] == "ok"]
    known = []
    kf_path = os.path.join(VERIF, "known_findings.json")
    kfs = [k for k in json.load(open(kf_path)).get("findings", []) if k.get("property") == prop] if os.path.exists(kf_path) else []
    real_viol = []
    for r in viol:
        hit = [k for k in kfs if k.get("obligation") == r["target"]]
        if hit:
            known.append((r, hit[0]))
        else:
            real_viol.append(r)
    rep_root = os.path.join(VERIF, "replays")
    for r in real_viol[:4]:
        rdir = os.path.join(rep_root, "%s-%s-%d" % (prop, re.sub(r"[^A-Za-z0-9_.-]", "_", r["target"]), r["pidx"]))
        shutil.rmtree(rdir, ignore_errors=True)
        os.makedirs(rdir)
        json.dump(list(r.get("model") or []), open(os.path.join(rdir, "secrets.json"), "w"))
        json.dump(r, open(os.path.join(rdir, "inputs.json"), "w"), indent=1, default=str)
        with open(os.path.join(rdir, "run.sh"), "w") as f:
            f.write("#!/bin/sh\n# concrete re-execution of /repo's LLVM IR on the two secret assignments; exit 1 = traces differ\n"
                    "cd /verif && mkdir -p .work/replay-c11 && exec python3-vt -m irsym.nonint replay '%s' %d .work/replay-c11 '%s/secrets.json'\n"
                    % (r["target"], r["pidx"], rdir))
        os.chmod(os.path.join(rdir, "run.sh"), 0o755)
        rr = subprocess.run(["sh", os.path.join(rdir, "run.sh")], stdout=subprocess.PIPE, stderr=subprocess.STDOUT)
        r["replayed"] = rr.returncode == 1
        r["replay_dir"] = rdir
        open(os.path.join(rdir, "replay.out"), "w").write(rr.stdout.decode(errors="replace"))
    wall = time.time() - t0
    fam = {}
    for r in results:
        f = fam.setdefault(r["target"], {"n": 0, "ok": 0, "steps": 0, "observations": 0, "solver_queries": 0})
        f["n"] += 1
        f["ok"] += r["status"] == "ok"
        f["steps"] += r.get("steps", 0)
        f["observations"] += r.get("observations", 0)
        f["solver_queries"] += r.get("obs_solver", 0)
    samples = []
    seen = set()
    for r in results:
        if r["target"] in seen:
            continue
        seen.add(r["target"])
        samples.append({"entry": r["target"], "public_shape": r["params"], "units": r.get("units"), "status": r["status"],
                        "ir_steps": r.get("steps"), "observations": r.get("observations"), "solver_queries": r.get("obs_solver"),
                        "wall_s": r.get("wall_s")})
    for r in real_viol[:3]:
        samples.append({"entry": r["target"], "public_shape": r["params"], "status": "violation", "detail": r["detail"],
                        "replay": r.get("replay_dir"), "traces_differ_concretely": r.get("replayed")})
    ev = {"property_id": prop, "tier": tier, "seed": seed, "level": "model_checking",
          "coverage": {"evaluations": len(results), "distinct_nontrivial": len([r for r in ok if r.get("observations", 0) > 0 or r.get("steps", 0) > 50]),
                       "rule": "one evaluation = symbolic execution of one entry point at one public shape with all secret bytes symbolic; "
                               "non-trivial iff it executed > 50 IR instructions or at least one observation point (branch, address, divisor)",
                       "samples": samples[:40], "obligations": len(results), "discharged": len(ok), "families": fam,
                       "observation_points_checked": sum(r.get("observations", 0) for r in results),
                       "solver_queries": sum(r.get("obs_solver", 0) for r in results),
                       "solver_time_s": round(sum(r.get("solver_s", 0) for r in results), 2),
                       "ir_instructions_executed": sum(r.get("steps", 0) for r in results),
                       "checker_cmd": "bin/check %s --tier %s" % (prop, tier), "trusted_base": TRUSTED, "outside_claim": OUTSIDE,
                       "explanation": LEVEL_TEXT, "inconclusive": [{"entry": r["target"], "shape": r["params"], "reason": r["detail"][:300]} for r in inc],
                       "exhaustive": False},
          "assumptions": ASSUMPTIONS, "wall_s": round(wall, 2), "violations": len(real_viol)}
    evname = prop + ".json" if not only else prop + ".partial.json"
    if os.path.realpath(os.environ.get("VERIF_REPO", "/repo")) != "/repo":
        evname = prop + ".altrepo.partial.json"
    os.makedirs(os.path.join(VERIF, "evidence"), exist_ok=True)
    json.dump(ev, open(os.path.join(VERIF, "evidence", evname), "w"), indent=1, sort_keys=True, default=str)
    for r, k in known:
        print("KNOWN-FINDING: property=%s %s (%s)" % (prop, k.get("what", ""), r["target"]))
    print("%s tier=%s obligations=%d discharged=%d violations=%d inconclusive=%d known=%d wall=%.1fs ir_steps=%d observations=%d solver_queries=%d"
          % (prop, tier, len(results), len(ok), len(real_viol), len(inc) + len(failed_builds), len(known), wall,
             ev["coverage"]["ir_instructions_executed"], ev["coverage"]["observation_points_checked"], ev["coverage"]["solver_queries"]))
    rc = 0
    for n, o in failed_builds.items():
        print("INCONCLUSIVE build of %s: %s" % (n, o[-300:]))
        rc = 2
    for r in inc:
        print("INCONCLUSIVE obligation=%s %s %s" % (r["target"], r["params"], r["detail"][:400]))
        rc = 2
    for r in real_viol:
        print("  failed: %s %s -> %s" % (r["target"], r["params"], r["detail"][:300]))
    done = set()
    for r in real_viol:
        if r["target"] in done or not r.get("replay_dir"):
            continue
        done.add(r["target"])
        print("VIOLATION property=%s replay=%s" % (prop, r["replay_dir"]))
        rc = 1
    if not keep:
        shutil.rmtree(work, ignore_errors=True)
        try:
            os.rmdir(os.path.join(VERIF, ".work"))
        except OSError:
            pass
    sys.stdout.flush()
    return rc
