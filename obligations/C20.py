from vlib import Ob

LEVEL_TEXT = ("The real argon2.c / argon2-core.c / argon2-encoding.c / pwhash wrappers / scrypt drivers / sodium_malloc run "
              "symbolically under a fault-injecting allocator whose failure schedule is a symbolic bit per allocation "
              "request (malloc, calloc, posix_memalign, mmap); CBMC decides for every schedule that a failed request "
              "yields an error return, no produced output, no leak, no double free and no NULL dereference, and that "
              "the fault-free schedule succeeds.")
TRUSTED = ["CBMC 6.11 memory model (dynamic objects, double-free and pointer checks)",
           "allocator interposition by -Dmalloc=verif_malloc etc. on the units under test (stubs/alloc.c)",
           "cuts: memory filling and BLAKE2b replaced by stubs that touch the allocated region (goto-instrument --replace-calls)"]
ASSUMPTIONS = ["one parameter set per API (m_cost=8 KiB, t=1, p=1)", "at most 12 allocation requests per call (checked by witness)"]
OUTSIDE = ["the cut computations themselves (they allocate nothing)", "other parameter sets", "OS overcommit / lazy mapping failures after a successful mmap"]
TECHNIQUE = "bounded model checking (CBMC, SAT) of the real allocation/error-propagation code with a symbolic fault schedule; counterexample = fault schedule"

ALLOC_DEFS = {"malloc": "verif_malloc", "calloc": "verif_calloc", "free": "verif_free",
              "posix_memalign": "verif_posix_memalign", "mmap": "verif_mmap", "munmap": "verif_munmap"}
A2 = "crypto_pwhash/argon2/"
CUTS = ("argon2_initial_hash:cut_initial_hash,argon2_fill_first_blocks:cut_fill_first_blocks,"
        "_sodium_argon2_fill_memory_blocks:cut_fill_memory_blocks,copy_block:cut_copy_block,xor_block:cut_xor_block,"
        "store_block:cut_store_block")


def obligations(tier):
    obs = []
    for mode, nm in ((0, "hash"), (1, "verify"), (2, "needs_rehash")):
        for at, an in (("Argon2_id", "id"), ("Argon2_i", "i")):
            if mode == 2 and an == "i":
                continue
            obs.append(Ob("argon2%s-%s" % (an, nm), "C20/argon2.c",
                          units=[A2 + "argon2.c", A2 + "argon2-encoding.c", A2 + "pwhash_argon2i.c", "sodium/utils.c",
                                 "sodium/codecs.c", "crypto_verify/verify.c"],
                          stubs=["alloc.c", "rng.c", "misuse.c", "libc.c", "x86_builtins.c"],
                          defs=dict(ALLOC_DEFS), harness_defs={"MODE": mode, "ATYPE": at},
                          instrument=[["--replace-calls", c] for c in CUTS.split(",")], unwind=70, timeout=900, mem=8, replay="model",
                          family="argon2-alloc-faults",
                          desc="argon2 hash/verify/needs_rehash under every allocation-fault schedule: error return, no output, no leak/double free/NULL deref; fault-free run succeeds",
                          bounds="fault schedule: one symbolic bit per allocation request (<= 12 requests); m=8 KiB, t=1, p=1; password 4 bytes, salt 8 bytes symbolic"))
    obs.append(Ob("sodium-malloc-os-refuses", "C17/malloc.c", stubs=["rng.c", "misuse.c", "libc.c"], defs={"P": 64, "MODE": 2}, unwind=20, timeout=300, replay="model",
                  family="guarded-malloc-failure",
                  desc="mmap refused => sodium_malloc / sodium_allocarray return NULL with ENOMEM, nothing mapped, no protection call, no crash; sodium_free(NULL) is a no-op",
                  bounds="page size 64, size symbolic 0..3P+1"))
    # scrypt: scratch-region failure inside escrypt_kdf (both units) is decided by C08's scrypt-kdf-params obligations
    return obs
