from vlib import Ob
from obligations.aead_common import *

LEVEL_TEXT = ("The real secretbox/box/sign glue is executed symbolically by CBMC with input and output placed in one arena at "
              "every enumerated relative offset; outputs must equal those of a disjoint run for all keys/contents, and the "
              "idealised stream stub asserts that each inner stream call receives identical-or-disjoint buffers. Stream "
              "XOR cores in place (c == m) are checked on the real ref units.")
LEVEL_TEXT += " AES-256-GCM (E2 irsym): the AES-NI/PCLMULQDQ unit's LLVM IR is executed on a concrete key and nonce (two fixed pairs) with message, associated data and forged-tag delta symbolic, and compared bit for bit with an SP 800-38D / FIPS-197 specification over the same symbols; both sides are GF(2)-affine in the symbols and are kept in canonical XOR normal form, tag acceptance under 'delta != 0' is decided by kissat. AEGIS-128L/256 AES-NI and portable units likewise with key and nonce symbolic as well."
TRUSTED = ["CBMC 6.11 pointer model (pointer comparison/uintptr_t casts within one object)", "idealised cores (stubs/ideal.c)"]
ASSUMPTIONS = ["offsets in [-80, 80], mlen in the enumerated set"]
OUTSIDE = ["|offset| > 80", "AES-256-GCM partial overlap (exact aliasing c == m is covered by E2)", "SIMD stream back ends in place", "partial overlap for APIs that only document exact aliasing", "|DELTA| > 100 for crypto_sign/open"]

QD = [-80, -33, -17, -16, -15, -1, 0, 1, 5, 15, 16, 17, 31, 32, 33, 48, 80]
QM = [0, 1, 32, 33, 40]


E2_EQUIV = ['stream-ref-inplace', 'aes256gcm-aesni-inplace', 'aegis128l-aesni-inplace', 'aegis128l-soft-inplace', 'aegis256-aesni-inplace', 'aegis256-soft-inplace']


def obligations(tier):
    obs = []
    deltas = sorted(set(range(-34, 35)) | set(range(-80, 81, 8)) | set(QD)) if tier == "thorough" else QD
    mlens = [0, 1, 16, 32, 33, 48] if tier == "thorough" else QM
    for v in (0, 1):
        for form in (0, 1, 2, 3):
            for d in deltas:
                for ml in mlens:
                    q = d in QD and ml in QM and (v == 0 or form < 2)
                    if tier != "thorough" and not q:
                        continue
                    obs.append(Ob("sb-%s-f%d-d%d-m%d" % (SBNAME[v], form, d, ml), "C13/secretbox_overlap.c",
                                  units=SB_UNITS[v] + GLUE_UNITS, stubs=GLUE_STUBS,
                                  defs={"SBVAR": v, "FORM": form, "DELTA": "(%d)" % d, "MLEN": ml}, unwind=420,
                                  timeout=300, tier="quick" if q else "thorough", family="secretbox-overlap-" + SBNAME[v],
                                  desc="secretbox easy/open_easy/detached/open_detached with output at input+DELTA == disjoint run; inner stream calls alias-safe",
                                  bounds="all key/nonce/message bytes; DELTA enumerated (quick 17 values, thorough every -34..34 and every 8th up to +-80), mlen enumerated"))
    # crypto_sign / crypto_sign_open memmove paths over the abstract group / SHA-512 of C06
    SU = ["crypto_sign/ed25519/ref10/keypair.c", "crypto_sign/ed25519/ref10/sign.c", "crypto_sign/ed25519/ref10/open.c",
          "crypto_sign/ed25519/sign_ed25519.c", "crypto_sign/crypto_sign.c", "sodium/utils.c", "crypto_verify/verify.c"]
    SS = ["ideal_hash.c", "ideal_ed25519.c", "rng.c", "misuse.c", "libc.c", "x86_builtins.c"]
    for ml in ((1, 17) if tier != "thorough" else (0, 1, 17, 40)):
        ds = sorted(set([-(ml + 64), -(ml + 1), -ml, -17, -1, 0, 1, 16, 63, 64, 65, 64 + ml - 1, 64 + ml, 64 + ml + 1, 100]))
        if tier == "thorough":
            ds = sorted(set(ds) | set(range(-100, 101, 3)))
        for form in (0, 1):
            for d in ds:
                q = ml == 17 or d in (0, 64)
                if tier != "thorough" and not q:
                    continue
                obs.append(Ob("sign-overlap-f%d-m%d-d%d" % (form, ml, d), "C13/sign_overlap.c", units=SU, stubs=SS,
                              defs={"FORM": form, "MLEN": ml, "DELTA": d}, unwind=240, timeout=900, family="sign-overlap",
                              tier="quick" if q else "thorough",
                              desc="crypto_sign_ed25519 / crypto_sign_ed25519_open with message at sm + DELTA == disjoint run (output bytes, verdict, length)",
                              bounds="all seed/message/signed-message/key bytes; DELTA and mlen enumerated"))
        obs.append(Ob("sign-overlap-f2-m%d" % ml, "C13/sign_overlap.c", units=SU, stubs=SS, defs={"FORM": 2, "MLEN": ml, "DELTA": 64}, unwind=240, timeout=900,
                      family="sign-overlap", desc="crypto_sign dispatcher with m == sm + 64", bounds="all seed/message bytes; mlen enumerated"))
    return obs
