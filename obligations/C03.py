from vlib import Ob

LEVEL_TEXT = ("K-obligations: ChaCha20/Salsa20/HChaCha20/HSalsa20 reference cores vs RFC 8439 / Salsa20 specification "
              "models for all keys/nonces/counters/messages (CBMC + cvc5 word-level); counter progression and split "
              "consistency; G-obligations: the real stream API glue over idealised block functions; IETF counter guard for "
              "all 64-bit lengths. SIMD back ends: E2 (irsym) equivalence with the reference unit.")
TRUSTED = ["CBMC 6.11 + cvc5 1.0 bit-vector semantics", "spec models in models/ (validated against RFC test vectors by bin/setup)",
           "composition: per-block correctness + counter progression + split consistency => keystream bytes [64i, 64i+64) = Block(key, nonce, ic+i)"]
ASSUMPTIONS = ["lengths in the enumerated sets"]
OUTSIDE = ["salsa20_xmm6-asm.S (hand-written assembly: no encoder)", "lengths beyond the stated bounds"]

GL = ["crypto_stream/chacha20/stream_chacha20.c", "crypto_stream/salsa20/stream_salsa20.c", "crypto_stream/xchacha20/stream_xchacha20.c",
      "crypto_stream/xsalsa20/stream_xsalsa20.c", "crypto_stream/crypto_stream.c", "sodium/utils.c"]


def obligations(tier):
    obs = []
    lens = list(range(0, 131)) if tier == "thorough" else [0, 1, 63, 64, 65, 128, 130]
    for L in lens:
        q = L in (0, 1, 63, 64, 65, 128, 130)
        obs.append(Ob("glue-len%d" % L, "C03/dispatch.c", units=GL, stubs=["ideal.c", "ideal_impl.c", "misuse.c", "libc.c"],
                      defs={"LEN": L}, harness_defs={"IDEAL_IMPL_LEVEL": 1}, unwind=140, timeout=600,
                      tier="quick" if q else "thorough", family="stream-api-glue",
                      desc="all public stream forms (chacha20, ietf, xchacha20, salsa20, xsalsa20, crypto_stream) == keystream of the spec'd (key, nonce, counter) over idealised block functions",
                      bounds="all key/nonce/counter/message bytes; len enumerated (quick 7 values, thorough 0..130)"))
    obs.append(Ob("ietf-counter-guard", "C03/ietf_guard.c", units=["crypto_stream/chacha20/stream_chacha20.c"],
                  stubs=["ideal.c", "ideal_impl.c", "misuse.c"], harness_defs={"IDEAL_IMPL_LEVEL": 1, "IMPL_RECORD_ONLY": 1},
                  unwind=4, timeout=600, family="ietf-counter-guard",
                  desc="IETF variant: misuse <=> ic + ceil(mlen/64) > 2^32, else forwarded unchanged",
                  bounds="all 32-bit ic, all 64-bit mlen"))
    return obs
