from vlib import Ob

LEVEL_TEXT = ("K-obligations: ChaCha20/Salsa20/HChaCha20/HSalsa20 reference cores vs RFC 8439 / Salsa20 specification "
              "models for all keys/nonces/counters/messages (CBMC + cvc5 word-level); counter progression and split "
              "consistency; G-obligations: the real stream API glue over idealised block functions; IETF counter guard for "
              "all 64-bit lengths. SIMD back ends: E2 (irsym) equivalence with the reference unit.")
LEVEL_TEXT += (" End to end (E2 irsym): every public stream form -- crypto_stream_{chacha20,chacha20_ietf,xchacha20,salsa20,xsalsa20,salsa2012,salsa208}"
               "[_xor[_ic]] through the real dispatcher and reference back ends -- is executed on its LLVM IR with key, nonce, 64-bit initial counter and message "
               "ALL symbolic and compared bit for bit with a specification model (RFC 8439, draft-irtf-cfrg-xchacha, Bernstein's Salsa20/XSalsa20) "
               "over one shared graph; counter carries across 2^32 are inside the symbolic counter.")
E2_EQUIV = ["stream-ref-spec", "chacha20-ssse3", "chacha20-avx2", "salsa20-sse2", "salsa20-avx2"]
TRUSTED = ["CBMC 6.11 + cvc5 1.0 bit-vector semantics", "irsym LLVM-IR interpreter; stream spec models validated against RFC 8439 2.3.2 and native libsodium outputs during development", "spec models in models/ (validated against RFC test vectors by bin/setup)",
           "composition: per-block correctness + counter progression + split consistency => keystream bytes [64i, 64i+64) = Block(key, nonce, ic+i)"]
ASSUMPTIONS = ["lengths in the enumerated sets"]
OUTSIDE = ["salsa20_xmm6-asm.S (hand-written assembly: no encoder)", "lengths beyond the stated bounds"]

GL = ["crypto_stream/chacha20/stream_chacha20.c", "crypto_stream/salsa20/stream_salsa20.c", "crypto_stream/xchacha20/stream_xchacha20.c",
      "crypto_stream/xsalsa20/stream_xsalsa20.c", "crypto_stream/crypto_stream.c", "sodium/utils.c"]


import os
SPLIT_BACKEND = os.environ.get('SPLIT_BACKEND', 'sat')


def obligations(tier):
    obs = []
    lens = list(range(0, 131)) if tier == "thorough" else [0, 1, 63, 64, 65, 128, 130]
    for L in lens:
        q = L in (0, 1, 63, 64, 65, 128, 130)
        obs.append(Ob("glue-len%d" % L, "C03/dispatch.c", units=GL, stubs=["ideal.c", "ideal_impl.c", "misuse.c", "libc.c"],
                      defs={"LEN": L}, harness_defs={"IDEAL_IMPL_LEVEL": 1}, unwind=140, timeout=600,
                      tier="quick" if q else "thorough", family="stream-api-glue",
                      desc="all public stream forms (chacha20, ietf, xchacha20, salsa20, xsalsa20, crypto_stream) == keystream of the spec'd (key, nonce, counter) over idealised block functions",
                      bounds="all key/nonce/counter/message bytes; len enumerated (quick 7 values, thorough 0..130)"))
    obs.append(Ob("ietf-counter-guard", "C03/ietf_guard.c", units=["crypto_stream/chacha20/stream_chacha20.c"],
                  stubs=["ideal.c", "ideal_impl.c", "misuse.c"], harness_defs={"IDEAL_IMPL_LEVEL": 1, "IMPL_RECORD_ONLY": 1},
                  unwind=4, timeout=600, family="ietf-counter-guard",
                  desc="IETF variant: misuse <=> ic + ceil(mlen/64) > 2^32, else forwarded unchanged",
                  bounds="all 32-bit ic, all 64-bit mlen"))
    for a, b in ((0, 1), (0, 64), (64, 1), (64, 64), (128, 72), (192, 8)):
        obs.append(Ob("counter-progress-%d" % (a + b), "C03/counter.c", units=["sodium/utils.c"], stubs=["misuse.c", "libc.c"],
                      defs={"A": a, "B": b, "MODE": 0}, unwind=70, slice_formula=True, timeout=600, nochecks=True, family="chacha20-counter",
                      desc="chacha20 ref: stored counter after len bytes = ic + ceil(len/64) mod 2^64",
                      bounds="all keys/nonces/64-bit counters (incl. low word 0xffffffff); len in {1,64,65,128,200}"))
    for tot in ([65, 128, 130, 200] if tier != "thorough" else list(range(65, 201))):
        obs.append(Ob("multiblock-%d" % tot, "C03/counter.c", units=["sodium/utils.c"], stubs=["misuse.c", "libc.c"],
                      defs={"A": tot, "B": 0, "MODE": 1}, unwind=210, timeout=600, nochecks=True, family="chacha20-multiblock",
                      tier="quick" if tot in (65, 128, 130, 200) else "thorough",
                      desc="chacha20 ref multi-block data path: byte i = m[i] XOR Block(ic + i/64), counter crossing 2^32 inside the call",
                      bounds="key/nonce concretised to the RFC 8439 vector (recorded cut), ic = 0xfffffffe, all message bytes; len 65..200 (quick: 65,128,130,200)"))
    KUNITS = {0: ["crypto_stream/chacha20/ref/chacha20_ref.c"], 1: ["crypto_stream/chacha20/ref/chacha20_ref.c"],
              2: ["crypto_core/hchacha20/core_hchacha20.c"], 3: ["crypto_stream/salsa20/ref/salsa20_ref.c", "crypto_core/salsa/ref/core_salsa_ref.c"],
              4: ["crypto_core/hsalsa20/ref2/core_hsalsa20_ref2.c"], 5: ["crypto_core/salsa/ref/core_salsa_ref.c"],
              6: ["crypto_core/salsa/ref/core_salsa_ref.c"], 7: ["crypto_core/salsa/ref/core_salsa_ref.c"],
              8: ["crypto_stream/salsa2012/ref/stream_salsa2012_ref.c", "crypto_stream/salsa2012/stream_salsa2012.c", "crypto_core/salsa/ref/core_salsa_ref.c"],
              9: ["crypto_stream/salsa208/ref/stream_salsa208_ref.c", "crypto_stream/salsa208/stream_salsa208.c", "crypto_core/salsa/ref/core_salsa_ref.c"]}
    KNAME = {0: "chacha20-ref", 1: "chacha20-ietf-ref", 2: "hchacha20", 3: "salsa20-ref", 4: "hsalsa20", 5: "core-salsa20",
             6: "core-salsa2012", 7: "core-salsa208", 8: "salsa2012-stream", 9: "salsa208-stream"}
    for kn in range(10):
        lens = [64] if kn in (2, 4, 5, 6, 7) else ([64, 1, 63] if tier != "thorough" else [64, 0, 1, 17, 32, 63])
        for L in lens:
            obs.append(Ob("kernel-%s-len%d" % (KNAME[kn], L), "C03/kernel.c", units=KUNITS[kn] + ["sodium/utils.c"],
                          stubs=["misuse.c", "libc.c"], defs={"KERNEL": kn, "LEN": L}, unwind=70, backend="cvc5",
                          undefs=["HAVE_AMD64_ASM"] if kn == 3 else [], timeout=900, mem=6,
                          family="kernel-" + KNAME[kn], nochecks=True,
                          desc="reference core == specification model (RFC 8439 / Salsa20 spec / HChaCha20 / HSalsa20), one block incl. partial-block tail",
                          bounds="all key/nonce/counter/message bits symbolic; len in {%s}" % ",".join(map(str, lens))))
    return obs
