from vlib import Ob
from obligations.aead_common import *

LEVEL_TEXT = ("randombytes.c executed symbolically by CBMC with a scripted installed source: randombytes_uniform decided "
              "for all 32-bit bounds and all draw sequences accepted within 3 draws; deterministic generator == "
              "ChaCha20-IETF keystream (idealised core); every generating API draws exactly its secret from the "
              "source (self-composition over the served bytes).")
TRUSTED = ["CBMC 6.11 C semantics", "idealised cores for ChaCha20 / X25519 / hashes"]
ASSUMPTIONS = ["uniform: an acceptable draw occurs within the first 3 draws (probability of needing more < 2^-3 in the worst case; the loop body is the same for every iteration)"]
OUTSIDE = ["quality of the OS entropy source", "draw sequences with more than 3 rejections", "deterministic generator lengths other than the enumerated ones"]


KEYGENS = [
    ("crypto_aead_aegis128l_keygen", "crypto_aead/aegis128l/aead_aegis128l.c"),
    ("crypto_aead_aegis256_keygen", "crypto_aead/aegis256/aead_aegis256.c"),
    ("crypto_aead_aes256gcm_keygen", "crypto_aead/aes256gcm/aead_aes256gcm.c"),
    ("crypto_aead_chacha20poly1305_ietf_keygen", "crypto_aead/chacha20poly1305/aead_chacha20poly1305.c"),
    ("crypto_aead_chacha20poly1305_keygen", "crypto_aead/chacha20poly1305/aead_chacha20poly1305.c"),
    ("crypto_aead_xchacha20poly1305_ietf_keygen", "crypto_aead/xchacha20poly1305/aead_xchacha20poly1305.c"),
    ("crypto_auth_hmacsha256_keygen", "crypto_auth/hmacsha256/auth_hmacsha256.c"),
    ("crypto_auth_hmacsha512256_keygen", "crypto_auth/hmacsha512256/auth_hmacsha512256.c"),
    ("crypto_auth_hmacsha512_keygen", "crypto_auth/hmacsha512/auth_hmacsha512.c"),
    ("crypto_auth_keygen", "crypto_auth/crypto_auth.c"),
    ("crypto_generichash_blake2b_keygen", "crypto_generichash/blake2b/generichash_blake2.c"),
    ("crypto_generichash_keygen", "crypto_generichash/crypto_generichash.c"),
    ("crypto_kdf_keygen", "crypto_kdf/crypto_kdf.c"),
    ("crypto_kdf_hkdf_sha256_keygen", "crypto_kdf/hkdf/kdf_hkdf_sha256.c"),
    ("crypto_kdf_hkdf_sha512_keygen", "crypto_kdf/hkdf/kdf_hkdf_sha512.c"),
    ("crypto_onetimeauth_keygen", "crypto_onetimeauth/crypto_onetimeauth.c"),
    ("crypto_onetimeauth_poly1305_keygen", "crypto_onetimeauth/poly1305/onetimeauth_poly1305.c"),
    ("crypto_secretbox_keygen", "crypto_secretbox/crypto_secretbox.c"),
    ("crypto_secretbox_xsalsa20poly1305_keygen", "crypto_secretbox/xsalsa20poly1305/secretbox_xsalsa20poly1305.c"),
    ("crypto_secretstream_xchacha20poly1305_keygen", "crypto_secretstream/xchacha20poly1305/secretstream_xchacha20poly1305.c"),
    ("crypto_shorthash_keygen", "crypto_shorthash/crypto_shorthash.c"),
    ("crypto_stream_chacha20_ietf_keygen", "crypto_stream/chacha20/stream_chacha20.c"),
    ("crypto_stream_chacha20_keygen", "crypto_stream/chacha20/stream_chacha20.c"),
    ("crypto_stream_keygen", "crypto_stream/crypto_stream.c"),
    ("crypto_stream_salsa2012_keygen", "crypto_stream/salsa2012/stream_salsa2012.c"),
    ("crypto_stream_salsa208_keygen", "crypto_stream/salsa208/stream_salsa208.c"),
    ("crypto_stream_salsa20_keygen", "crypto_stream/salsa20/stream_salsa20.c"),
    ("crypto_stream_xchacha20_keygen", "crypto_stream/xchacha20/stream_xchacha20.c"),
    ("crypto_stream_xsalsa20_keygen", "crypto_stream/xsalsa20/stream_xsalsa20.c"),
]
KEYPAIRS = [
    ("crypto_box_curve25519xsalsa20poly1305_keypair", "crypto_box/curve25519xsalsa20poly1305/box_curve25519xsalsa20poly1305.c", "crypto_box_curve25519xsalsa20poly1305"),
    ("crypto_box_curve25519xchacha20poly1305_keypair", "crypto_box/curve25519xchacha20poly1305/box_curve25519xchacha20poly1305.c", "crypto_box_curve25519xchacha20poly1305"),
    ("crypto_kx_keypair", "crypto_kx/crypto_kx.c", "crypto_kx"),
]


def obligations(tier):
    obs = []
    ns = {0, 1, 2, 3, 5, 6, 7, 10, 100, 255, 256, 257, 1000, 65535, 65536, 65537, 1000000007, 0x80000001, 0xAAAAAAAB,
          0xC0000000, 0xFFFFFFFE, 0xFFFFFFFF}
    for k in range(2, 32):
        ns |= {(1 << k) - 1, 1 << k, (1 << k) + 1}
    qn = {0, 1, 2, 3, 7, 256, 257, 65537, 0x7FFFFFFF, 0x80000000, 0x80000001, 0xAAAAAAAB, 0xFFFFFFFF}
    for n in sorted(ns):
        obs.append(Ob("uniform-n%d" % n, "C18/uniform.c", units=["randombytes/randombytes.c"], stubs=["misuse.c"],
                      defs={"NDRAW": 3, "NVAL": "%dU" % n}, unwind=7, timeout=1200, family="uniform",
                      tier="quick" if n in qn else "thorough",
                      desc="randombytes_uniform: rejection sampling exact for all draw sequences; random/buf delegate to installed source",
                      bounds="upper bound enumerated (%d values: 0..3, powers of two +-1, 2^31+-1, 2^32-1, ...), all 32-bit draws r1..r3, acceptance within 3 draws" % len(ns)))
    lens = list(range(0, 131)) if tier == "thorough" else [0, 1, 32, 63, 64, 65, 128, 130]
    for L in lens:
        q = L in (0, 1, 32, 63, 64, 65, 128, 130)
        obs.append(Ob("deterministic-len%d" % L, "C18/deterministic.c", units=["randombytes/randombytes.c"],
                      stubs=["ideal.c", "misuse.c"], defs={"LEN": L}, unwind=140, timeout=300,
                      tier="quick" if q else "thorough", family="deterministic",
                      desc="randombytes_buf_deterministic == ChaCha20-IETF(seed,'LibsodiumDRG'); misuse above 2^38 bytes",
                      bounds="all seeds; len enumerated (quick 8 values, thorough 0..130)"))
    for func, unit in KEYGENS:
        macro = func.replace("_keygen", "_KEYBYTES")
        hdr = func.replace("_keygen", "")
        hdr = "sodium"
        obs.append(Ob("keygen-" + func, "C18/keygen.c", units=[unit], stubs=["rng.c", "misuse.c"],
                      defs={"KG_FUNC": func, "KG_BYTES": macro, "KG_HEADER": '"%s.h"' % hdr}, unwind=80, timeout=300,
                      family="keygen", desc="*_keygen output == exactly KEYBYTES bytes from the installed source",
                      bounds="all source byte values; %d keygen functions" % len(KEYGENS)))
    for func, unit, hdr in KEYPAIRS:
        obs.append(Ob("keypair-" + func, "C18/keygen.c", units=[unit, "crypto_scalarmult/crypto_scalarmult.c"], stubs=["rng.c", "misuse.c", "ideal_dh.c"],
                      defs={"KG_FUNC": func, "KG_BYTES": 32, "KG_HEADER": '"sodium.h"', "KEYPAIR": 1}, unwind=80,
                      timeout=300, family="keypair",
                      desc="X25519 key pair generators: sk == 32 source bytes, pk == X25519_base(sk)",
                      bounds="all source byte values"))
    SU = ["crypto_sign/ed25519/ref10/keypair.c", "crypto_sign/ed25519/sign_ed25519.c", "crypto_sign/crypto_sign.c", "sodium/utils.c", "crypto_verify/verify.c"]
    for w, nm in ((0, "crypto_sign_ed25519_keypair"), (1, "crypto_sign_keypair")):
        obs.append(Ob("keypair-" + nm, "C18/sign_keypair.c", units=SU, stubs=["ideal_hash.c", "ideal_ed25519.c", "rng.c", "misuse.c", "libc.c", "x86_builtins.c"],
                      defs={"WHICH": w}, unwind=80, timeout=300, family="keypair",
                      desc="Ed25519 key pair generators: seed == 32 source bytes, (pk, sk) == seed_keypair(seed)", bounds="all source byte values"))
    # crypto_core_ed25519_scalar_random / crypto_core_ristretto255_scalar_random (core_ed25519.c is an anchor of this
    # property): the rejection-sampling obligation of the C07 registry belongs to this check as well
    from obligations import C07 as _c07
    for o in _c07.obligations(tier):
        if o.name == "core-random":
            o.family = "scalar-random"
            obs.append(o)
    return obs
