from vlib import Ob

LEVEL_TEXT = ("K: has_small_order blocklist membership, the all-zero output test of the public wrapper, field element "
              "decoding/encoding canonicity (real x25519_ref10.c / fe_51 code, all 256 input bits symbolic); G: crypto_kx and "
              "seeded key pairs over idealised X25519/BLAKE2b/SHA-512 (box precomputation is under C01).")
TRUSTED = ["CBMC 6.11", "RFC 7748 commutativity X25519(a, X25519(b, 9)) = X25519(b, X25519(a, 9)) (assumed per key pair)",
           "the list of 7 low-order/non-canonical encodings is complete (Bernstein; trusted)"]
ASSUMPTIONS = []
OUTSIDE = ["the composition argument itself (field kernels == ring operations [E2 limb], ladder over ring operations == RFC 7748 for all scalars and u [E2 ring, inductive], cswap / frombytes / tobytes [CBMC], inversion exponent [E2]) is on paper; limb bounds along the ladder are an inductive E2 obligation (x25519-ladder-bounds); the bounds inside fe25519_invert's chain follow from the same kernel bounds (mul/sq outputs are tight) and are not re-checked there",
           "sandy2x assembly back end", "base-point table contents"]

COMMON = ["sodium/utils.c", "crypto_verify/verify.c"]


E2_LIMB = ["fe25519-51-x25519", "x25519-ladder-rfc7748", "x25519-invert", "x25519-ladder-bounds"]


LEVEL_TEXT = LEVEL_TEXT + (" Field kernels (E2 irsym limb mode): the compiled fe25519_mul/sq/mul32/add/sub of the X25519 unit are executed on LLVM IR with limbs as integer polynomials + intervals; "
              "result == the field operation mod 2^255-19 for all limbs up to 2^54 (no machine wrap-around, output bounds), re-checked by z3 as a polynomial identity. X25519 against RFC 7748 (E2 ring mode): the Montgomery ladder of the real x25519_ref10.c is decided inductively over its loop (each iteration == one RFC 7748 ladder step as polynomial identities over GF(2^255-19), swap selector == k_t xor k_(t+1) of the clamped scalar), fe25519_invert == z^(p-2) by exponent tracking, limb bounds inductive through the loop (limb mode), cswap/tobytes/frombytes by CBMC.")


def obligations(tier):
    obs = []
    for fail in (0, 1):
        d = {"DH_FAIL": 1} if fail else {}
        obs.append(Ob("kx%s" % ("-dhfail" if fail else ""), "C05/kx.c",
                      units=["crypto_kx/crypto_kx.c", "crypto_scalarmult/crypto_scalarmult.c", "crypto_generichash/crypto_generichash.c",
                             "crypto_box/crypto_box.c", "crypto_box/curve25519xsalsa20poly1305/box_curve25519xsalsa20poly1305.c",
                             "crypto_box/curve25519xchacha20poly1305/box_curve25519xchacha20poly1305.c"] + COMMON,
                      stubs=["ideal_hash.c", "ideal_dh.c", "ideal.c", "misuse.c", "libc.c", "x86_builtins.c", "rng.c"], defs=d, unwind=130,
                      timeout=900, family="kx-and-seed-keypairs",
                      desc="kx session keys == BLAKE2b-512(q||cpk||spk) split, cross-equal, NULL aliasing, -1 on X25519 failure; seeded key pairs == spec",
                      bounds="all secret keys and seeds (abstract X25519 / hashes)"))
    obs.append(Ob("has-small-order", "C05/x25519_k.c", units=COMMON, stubs=["misuse.c", "libc.c", "x86_builtins.c"], defs={"PART": 0}, unwind=40,
                  timeout=900, family="x25519-kernels", nochecks=True,
                  desc="has_small_order exact on all 2^256 inputs (the ladder returns -1 right after this test: by inspection, first statement)",
                  bounds="all 256 input bits"))
    obs.append(Ob("wrapper-zero-check", "C05/x25519_k.c", units=["crypto_scalarmult/curve25519/scalarmult_curve25519.c"] + COMMON,
                  stubs=["misuse.c", "libc.c", "x86_builtins.c"], defs={"PART": 1}, unwind=40, timeout=900, family="x25519-kernels",
                  desc="public X25519 wrapper: -1 iff back end failed or output all-zero",
                  bounds="all back-end outputs / return codes"))
    for ti in (1, 0):
        obs.append(Ob("fe-bytes-%s" % ("fe51" if ti else "fe25_5"), "C05/x25519_k.c", units=COMMON + ["crypto_core/ed25519/ref10/ed25519_ref10.c"],
                      stubs=["misuse.c", "libc.c", "x86_builtins.c"], defs={"PART": 2}, undefs=[] if ti else ["HAVE_TI_MODE"], unwind=40,
                      timeout=1800, mem=8, family="x25519-kernels", nochecks=True, tier="quick" if ti else "thorough",
                      desc="fe25519_frombytes ignores bit 255; tobytes(frombytes(s)) = canonical s mod p (51-bit and 25.5-bit limb builds)",
                      bounds="all 256 input bits"))
    obs.append(Ob("fe-tobytes-loose", "C05/x25519_k.c", units=COMMON + ["crypto_core/ed25519/ref10/ed25519_ref10.c"], stubs=["misuse.c", "libc.c", "x86_builtins.c"],
                  defs={"PART": 3}, unwind=40, timeout=1800, mem=8, family="x25519-kernels", nochecks=True,
                  desc="fe25519_tobytes on arbitrary carried limbs == canonical encoding of the value mod 2^255-19", bounds="all limbs < 2^52"))
    obs.append(Ob("fe-cswap", "C05/x25519_k.c", units=COMMON + ["crypto_core/ed25519/ref10/ed25519_ref10.c"], stubs=["misuse.c", "libc.c", "x86_builtins.c"],
                  defs={"PART": 4}, unwind=40, timeout=600, family="x25519-kernels", nochecks=True,
                  desc="fe25519_cswap exchanges its operands iff the selector is 1", bounds="all 64-bit limbs, selector in {0,1}"))
    # box precomputation = HSalsa20 / HChaCha20 (0^16, X25519(sk, pk)) and what follows from it (the C01 box harness):
    # the property names the derivation, so the sender forms, the recipient round trip and the X25519-failure path of
    # both cipher variants are part of this property's check as well
    import re as _re
    from obligations import C01 as _c01
    for o in _c01.obligations(tier):
        if _re.match(r"box-(xsalsa20|xchacha20)poly1305-(p1-m17|p2-m17|p1-dhfail)$", o.name):
            o.tier = "quick"
            o.family = "box-beforenm"
            obs.append(o)
    return obs
