from vlib import Ob

LEVEL_TEXT = ("K: canonicity predicates on all 256 input bits (real ed25519_ref10.c); G: crypto_core_ed25519 / "
              "crypto_scalarmult_ed25519 / ristretto255 / hash-to-curve drivers over an abstract group and scalar field "
              "(uninterpreted functions): validation order, error returns, clamping, the exact 64-byte values handed to "
              "the modular reduction, expand_message_xmd layout. E2 irsym: field kernels (limb mode: integer polynomials + "
              "intervals, result == field operation mod 2^255-19, no wrap-around); sc25519_reduce/mul/muladd/invert == "
              "integer arithmetic mod L for all inputs (limb mode, congruence re-checked by z3); ge25519 add/sub/madd/dbl and "
              "representation changes == Edwards addition law (ring mode, polynomial identities over GF(p) modulo the curve "
              "equation); ge25519_scalarmult(_base) == a*P over integer multiples with the signed radix-16 recoding run as "
              "real code; 256-entry base table exhaustively; expand_message_xmd of the real core_h2c.c == RFC 9380 over an "
              "abstract hash for |DST| in {0..255, 256, 257, 300, 500} -- the |DST| > 255 shapes deviate (known finding "
              "h2c-oversize-dst, known_findings.json). Main-subgroup test: ge25519_mul_l == L*P (E2 multiples mode, the real "
              "addition chain) and the real predicate on every representation of L*P (CBMC, mul_l cut): accepts the neutral "
              "element, refuses X != 0 -- and ACCEPTS L*P = (0,-1) (known finding main-subgroup-order-2L).")
TRUSTED = ["CBMC 6.11 + uninterpreted functions", "abstract group model (stubs/ideal_ed25519.c)", "L and p constants transcribed in the harness"]
ASSUMPTIONS = ["scalar_add/sub: inputs reduced (as documented)", "scalar_random: accepted within 2 draws"]
OUTSIDE = ["point decoding (square-root chain), ge25519_double_scalarmult_vartime (sliding windows with scalar-dependent control flow); the composition of the decided layers (field kernels [E2 limb] -> group operations == addition law [E2 ring] -> scalar-multiplication algorithms == a*P over abstract multiples [E2] + table look-ups [CBMC] + base table [exhaustive]) is on paper",
           "sc25519_reduce / mul / muladd: the value before serialisation lying in [0, 2^256) and the output being the canonical representative (< L) -- the congruence mod L, the absence of int64 overflow for all inputs and the inversion exponent ARE decided (E2 limb mode)",
           "Elligator / Ristretto map formulas and the Ristretto encode/decode formulas (abstract here; the expand_message_xmd layer and the NU / RO data flow ARE decided)"]
CORE = ["crypto_core/ed25519/core_ed25519.c", "crypto_scalarmult/ed25519/ref10/scalarmult_ed25519_ref10.c", "sodium/utils.c", "crypto_verify/verify.c"]
STUBS = ["ideal_ed25519.c", "ideal_hash.c", "rng.c", "misuse.c", "libc.c", "x86_builtins.c"]


E2_EQUIV = ["h2c-xmd-spec"]
E2_LIMB = ["fe25519-51", "sc25519", "sc25519-invert", "edwards-group-ops", "ed25519-scalarmult-alg"]


LEVEL_TEXT = LEVEL_TEXT + (" Field kernels (E2 irsym limb mode): fe25519_mul/sq/sq2/mul32/add/sub/neg of the Edwards unit == the field operation mod 2^255-19 with limb bounds, for all limbs in the stated ranges."
                           " Scalar kernels (E2 limb mode): sc25519_reduce / sc25519_mul / sc25519_muladd (21-bit signed limbs) on all 64- resp. 32-byte inputs: output == input resp. a*b resp. a*b+c (mod L), no signed overflow; sc25519_invert == s^(L-2).")


def obligations(tier):
    obs = []
    obs.append(Ob("canonical-predicates", "C07/predicates.c", units=["crypto_core/ed25519/ref10/ed25519_ref10.c", "sodium/utils.c"],
                  stubs=["libc.c", "misuse.c"], unwind=40, timeout=900, nochecks=True, family="canonical-predicates",
                  desc="sc25519_is_canonical <=> s < L ; ge25519_is_canonical <=> y < p", bounds="all 256 input bits"))
    obs.append(Ob("main-subgroup-predicate", "C07/subgroup.c", units=["crypto_core/ed25519/ref10/ed25519_ref10.c", "sodium/utils.c"],
                  stubs=["libc.c", "misuse.c"], instrument=[["--replace-calls", "ge25519_mul_l:stub_mul_l"]], unwind=40, timeout=900, nochecks=True,
                  family="canonical-predicates", replay="model",
                  desc="ge25519_is_on_main_subgroup(P) = 1 <=> L*P is the neutral element, for every representation of L*P with X != 0, (0:Z:Z) or (0:-Z:Z); ge25519_mul_l cut (== L*P: E2 multiples mode)",
                  bounds="all field-element byte strings (incl. non-canonical), all Z != 0"))
    for part, nm in ((0, "scalar-ops"), (1, "point-validate-add-sub"), (3, "random")):
        obs.append(Ob("core-" + nm, "C07/core.c", units=CORE, stubs=STUBS, defs={"PART": part}, unwind=70, timeout=900, family="core-ed25519-drivers", replay="model",
                      desc="crypto_core_ed25519 driver == spec over abstract group/scalars", bounds="all input bytes"))
    for cl in (1, 0):
        obs.append(Ob("scalarmult-%s" % ("clamp" if cl else "noclamp"), "C07/core.c", units=CORE, stubs=STUBS, defs={"PART": 2, "CLAMP": cl},
                      unwind=70, timeout=900, family="scalarmult-ed25519-drivers",
                      desc="crypto_scalarmult_ed25519(_noclamp): validation, clamping, identity/zero-scalar error", bounds="all input bytes"))
    for cached in (0, 1):
        obs.append(Ob("cmov8%s" % ("-cached" if cached else ""), "C07/cmov8.c", units=["sodium/utils.c"], stubs=["libc.c", "misuse.c", "x86_builtins.c"],
                      defs={"CACHED": cached}, unwind=40, timeout=900, mem=6, nochecks=True, family="table-lookups",
                      desc="constant-time look-up ge25519_cmov8%s == b * P selected from the table (neutral for 0, negated entry for b < 0)" % ("_cached" if cached else ""),
                      bounds="all table contents (8 entries, every limb), every digit -8..8"))
    H2C = ["crypto_core/ed25519/core_h2c.c", "crypto_core/ed25519/core_ed25519.c", "crypto_core/ed25519/core_ristretto255.c", "sodium/utils.c", "crypto_verify/verify.c"]
    shapes = [(2, 48, 5, 3), (1, 48, 5, 3), (2, 96, 0, 0), (1, 96, 17, 40), (2, 64, 5, 40), (1, 64, 0, 3), (1, 33, 5, 3)]
    if tier == "thorough":
        shapes += [(2, 130, 5, 3), (1, 65, 3, 0)]   # contexts >= 255 bytes: E2 target h2c-xmd-spec (CBMC does not finish there)
    for halg, hl, cl, ml in shapes:
        obs.append(Ob("h2c-xmd-sha%d-len%d-ctx%d-m%d" % (256 if halg == 1 else 512, hl, cl, ml), "C07/h2c.c", units=H2C, stubs=STUBS,
                      defs={"PART": 0, "HALG": halg, "HLEN": hl, "CTXLEN": cl, "MLEN": ml}, unwind=340, timeout=600, mem=6, family="hash-to-group",
                      tier="quick" if (halg, hl, cl, ml) in shapes[:7] else "thorough",
                      desc="core_h2c_string_to_hash == RFC 9380 expand_message_xmd over an abstract hash (DST', Z_pad, length block, counters, oversize DST)",
                      bounds="all message bytes, concrete context string; (hash, output length, context length, message length) enumerated"))
    for halg, cl, ml in ((2, 5, 3), (1, 0, 40)):
        obs.append(Ob("h2c-from-string-sha%d-ctx%d-m%d" % (256 if halg == 1 else 512, cl, ml), "C07/h2c.c", units=H2C, stubs=STUBS,
                      defs={"PART": 1, "HALG": halg, "HLEN": 96, "CTXLEN": cl, "MLEN": ml}, unwind=340, timeout=1800, mem=8, family="hash-to-group", replay="model",
                      desc="crypto_core_ed25519_from_string (NU) / _ro (RO) and crypto_core_ristretto255_from_string(_ro) == RFC 9380 / RFC 9496 data flow over abstract maps",
                      bounds="all message bytes, concrete context string; shapes enumerated"))
    RIS = ["crypto_core/ed25519/core_ristretto255.c", "crypto_core/ed25519/core_ed25519.c", "crypto_scalarmult/ristretto255/ref10/scalarmult_ristretto255_ref10.c",
           "sodium/utils.c", "crypto_verify/verify.c"]
    for part, nm in ((0, "validate-add-sub"), (1, "scalarmult"), (2, "from-hash-random-scalars")):
        obs.append(Ob("ristretto-" + nm, "C07/ristretto.c", units=RIS, stubs=STUBS, defs={"PART": part}, unwind=70, timeout=900, family="ristretto255-drivers",
                      # a counterexample is an abstract-group scenario (a valid encoding with a chosen scalar); native bytes that
                      # decode are not what the solver picks, so the replay re-decides the obligation (model level), as in C06
                      replay="model",
                      desc="crypto_core_ristretto255 / crypto_scalarmult_ristretto255 drivers == spec over the abstract group with an abstract Ristretto encoding layer",
                      bounds="all input bytes"))
    return obs
