"""E2 (irsym) equivalence obligations run from the E1 runner: one subprocess per (target, public shape),
results become vlib.ExtraResult entries of the same evidence file / exit protocol."""
import json
import os
import re
import shutil
import subprocess
import time
from concurrent.futures import ThreadPoolExecutor

import vlib

VERIF = vlib.VERIF


def pname(ps):
    return re.sub(r"[^0-9a-z]+", "", str(ps).replace("_", "")) or "all"


def run_equiv(prop, tier, names, only=None, family=None, workers=8):
    work = os.path.join(VERIF, ".work", "%se2-%d" % (prop, os.getpid()))
    shutil.rmtree(work, ignore_errors=True)
    os.makedirs(work)
    lst = subprocess.run(["python3-vt", "-m", "irsym.equiv_targets", "list", tier], cwd=VERIF, stdout=subprocess.PIPE, stderr=subprocess.PIPE)
    try:
        targets = json.loads(lst.stdout.decode().strip().split("\n")[-1])
    except Exception:
        return [vlib.ExtraResult("equiv-list", "e2", "inconclusive", reason="cannot list E2 targets: " + lst.stderr.decode(errors="replace")[-300:])]
    jobs = []
    for n, cnt, ps in targets:
        if n not in names:
            continue
        for i in range(cnt):
            nm = "equiv-%s-%s" % (n, pname(ps[i]))
            if not only or re.search(only, nm):
                jobs.append((n, i, ps[i], nm))

    def one(job):
        n, i, ps, name = job
        t0 = time.time()
        try:
            r = subprocess.run(["python3-vt", "-m", "irsym.equiv_targets", n, tier, str(i), work], cwd=VERIF, stdout=subprocess.PIPE,
                               stderr=subprocess.PIPE, timeout=900 if tier == "quick" else 3600)
            d = json.loads(r.stdout.decode().strip().split("\n")[-1])
        except Exception as e:
            d = {"target": n, "params": ps, "status": "inconclusive", "detail": "runner: %r" % (e,)}
        rdir, rep = None, None
        if d["status"] == "violation":
            rdir = os.path.join(VERIF, "replays", "%s-%s" % (prop, name))
            shutil.rmtree(rdir, ignore_errors=True)
            os.makedirs(rdir)
            json.dump(d.get("assignment") or {}, open(os.path.join(rdir, "assignment.json"), "w"))
            json.dump(d, open(os.path.join(rdir, "inputs.json"), "w"), indent=1, default=str)
            with open(os.path.join(rdir, "run.sh"), "w") as f:
                f.write("#!/bin/sh\n# concrete re-execution of the unit's LLVM IR (built from the current tree) and of the other side\n"
                        "# (reference unit or specification) on the counterexample input; exit 1 = outputs differ\n"
                        "cd /verif && mkdir -p .work/replay-e2 && exec python3-vt -m irsym.equiv_targets replay '%s' %s %d .work/replay-e2/%s '%s/assignment.json'\n"
                        % (n, tier, i, n, rdir))
            os.chmod(os.path.join(rdir, "run.sh"), 0o755)
            rr = subprocess.run(["sh", os.path.join(rdir, "run.sh")], stdout=subprocess.PIPE, stderr=subprocess.STDOUT)
            rep = rr.returncode == 1
            shutil.rmtree(os.path.join(VERIF, ".work", "replay-e2"), ignore_errors=True)
            if not rep:
                d["status"], d["detail"] = "inconclusive", "cex-not-reproduced: " + rr.stdout.decode(errors="replace")[-200:]
        info = "; ".join("%s=%s" % (k, d.get(k)) for k in ("output_bits", "structurally_identical_bits", "sat_calls", "merged", "graph_nodes") if k in d)
        other = "SP 800-38D / FIPS-197 specification" if n.startswith("aes256gcm") else ("specification model (irsym/*_spec.py)" if ("-spec" in n or "-forgery" in n or "-inplace" in n) else "reference unit")
        return vlib.ExtraResult(name, family or ("e2-" + re.sub(r"-[a-z0-9]+$", "", n)), d["status"],
                                desc="E2 irsym: %s == %s on shared symbolic inputs (bit-level graph; %s)" % (n, other, info),
                                bounds="public shape %s; all other inputs symbolic" % ps, wall=d.get("wall_s", time.time() - t0),
                                reason=d.get("detail", ""), replay_dir=rdir, replayed=rep, queries=1 + int(d.get("sat_calls", 0) or 0),
                                solver_s=float(d.get("sat_time_s", 0) or 0))
    with ThreadPoolExecutor(workers) as ex:
        extra = list(ex.map(one, jobs))
    shutil.rmtree(work, ignore_errors=True)
    return extra


def run_limb(prop, tier, names, only=None, workers=8):
    """E2 limb-mode obligations (irsym/limb_targets.py)"""
    work = os.path.join(VERIF, ".work", "%slimb-%d" % (prop, os.getpid()))
    shutil.rmtree(work, ignore_errors=True)
    os.makedirs(work)
    lst = subprocess.run(["python3-vt", "-m", "irsym.limb_targets", "list"], cwd=VERIF, stdout=subprocess.PIPE, stderr=subprocess.PIPE)
    try:
        targets = json.loads(lst.stdout.decode().strip().split("\n")[-1])
    except Exception:
        return [vlib.ExtraResult("limb-list", "e2-limb", "inconclusive", reason="cannot list limb targets: " + lst.stderr.decode(errors="replace")[-300:])]
    jobs = []
    for n, cnt, ps in targets:
        if n in names:
            for i in range(cnt):
                nm = "limb-%s-%s" % (n, pname(ps[i]))
                if not only or re.search(only, nm):
                    jobs.append((n, i, ps[i], nm))

    def one(job):
        n, i, ps, name = job
        t0 = time.time()
        try:
            r = subprocess.run(["python3-vt", "-m", "irsym.limb_targets", n, str(i), work], cwd=VERIF, stdout=subprocess.PIPE, stderr=subprocess.PIPE, timeout=900)
            d = json.loads(r.stdout.decode().strip().split("\n")[-1])
        except Exception as e:
            d = {"target": n, "params": ps, "status": "inconclusive", "detail": "runner: %r" % (e,)}
        rdir, rep = None, None
        if d["status"] == "violation":
            rdir = os.path.join(VERIF, "replays", "%s-%s" % (prop, name))
            shutil.rmtree(rdir, ignore_errors=True)
            os.makedirs(rdir)
            json.dump(d.get("assignment") or {}, open(os.path.join(rdir, "assignment.json"), "w"))
            json.dump(d, open(os.path.join(rdir, "inputs.json"), "w"), indent=1, default=str)
            with open(os.path.join(rdir, "run.sh"), "w") as f:
                f.write("#!/bin/sh\n# concrete re-execution of the unit's LLVM IR (built from the current tree) on the witness input; exit 1 = claim violated\n"
                        "cd /verif && mkdir -p .work/replay-limb && exec python3-vt -m irsym.limb_targets replay '%s' %d .work/replay-limb '%s/assignment.json'\n" % (n, i, rdir))
            os.chmod(os.path.join(rdir, "run.sh"), 0o755)
            if True:
                rr = subprocess.run(["sh", os.path.join(rdir, "run.sh")], stdout=subprocess.PIPE, stderr=subprocess.STDOUT)
                rep = rr.returncode == 1
                shutil.rmtree(os.path.join(VERIF, ".work", "replay-limb"), ignore_errors=True)
                if not rep:
                    d["status"], d["detail"] = "inconclusive", "witness-not-reproduced: " + rr.stdout.decode(errors="replace")[-200:]
        info = "; ".join("%s=%s" % (k, d.get(k)) for k in ("ir_steps", "monomials", "fresh_quotients", "unintended_wraps", "z3_identity") if k in d)
        return vlib.ExtraResult(name, "e2-limb-" + n.split("-")[0], d["status"],
                                desc="E2 irsym limb mode: %s; %s (%s)" % (d.get("claim", n), d.get("bounds", ""), info),
                                bounds="inputs range over the whole limb invariant (intervals stated in the description); shape %s" % ps,
                                wall=d.get("wall_s", time.time() - t0), reason=d.get("detail", ""), replay_dir=rdir, replayed=rep, queries=2, backend="irsym-limb+z3")
    with ThreadPoolExecutor(workers) as ex:
        extra = list(ex.map(one, jobs))
    shutil.rmtree(work, ignore_errors=True)
    return extra
