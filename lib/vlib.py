"""Runner for solver-based obligations (engine E1: CBMC on the real C code,
E3: scheduling / evidence / replay).  See DESIGN.md section 1.

An obligation (class Ob) = one harness + real translation units from /repo +
stubs, at fixed public parameters (defines), decided by one CBMC run for all
values of the harness' symbolic inputs (`struct IN`).  Every harness ends in
WITNESS() (= assert(0)), which must come back FAILED: that is the
reachability / non-vacuity witness; every other property must be SUCCESS.
"""
import hashlib
import json
import os
import re
import resource
import shlex
import shutil
import subprocess
import sys
import threading
import time
from concurrent.futures import ThreadPoolExecutor

VERIF = os.path.dirname(os.path.dirname(os.path.abspath(__file__)))
REPO = os.environ.get("VERIF_REPO", "/repo")
SRC = os.path.join(REPO, "src", "libsodium")
sys.path.insert(0, os.path.join(VERIF, "tools"))
import asm2c  # noqa: E402

NCPU = int(os.environ.get("VERIF_JOBS", "16"))
MEM_TOTAL_GB = 52

SAFETY_FLAGS = ["--pointer-overflow-check", "--undefined-shift-check",
                "--signed-overflow-check"]

_children = set()
_children_lock = threading.Lock()


def _kill_children(*_a):
    with _children_lock:
        pids = list(_children)
    for pid in pids:
        try:
            os.killpg(pid, 9)
        except OSError:
            pass


def _on_signal(signum, frame):
    _kill_children()
    shutil.rmtree(os.path.join(VERIF, ".work"), ignore_errors=True) if False else None
    os._exit(130)


import atexit  # noqa: E402
import signal  # noqa: E402
atexit.register(_kill_children)
for _s in (signal.SIGTERM, signal.SIGINT, signal.SIGHUP):
    try:
        signal.signal(_s, _on_signal)
    except ValueError:
        pass


def log(*a):
    print(*a, flush=True)


# --------------------------------------------------------------------------
# build configuration taken from /repo
# --------------------------------------------------------------------------
_defs_cache = None


def repo_defs():
    global _defs_cache
    if _defs_cache is not None:
        return _defs_cache
    txt = None
    mk = os.path.join(SRC, "Makefile")
    if os.path.exists(mk):
        for line in open(mk, errors="replace"):
            if line.startswith("DEFS = "):
                txt = line[len("DEFS = "):]
                break
    if txt is None:
        txt = open(os.path.join(VERIF, "config", "defs.txt")).read()
    # Makefile escapes: \" and "\ " ; shlex handles backslash escapes
    _defs_cache = shlex.split(txt)
    return _defs_cache


MFLAGS_BY_PATTERN = [
    ("avx512f", ["-msse2", "-mssse3", "-msse4.1", "-mavx", "-mavx2", "-mavx512f"]),
    ("avx2", ["-msse2", "-mssse3", "-msse4.1", "-mavx", "-mavx2"]),
    ("sse41", ["-msse2", "-mssse3", "-msse4.1"]),
    ("ssse3", ["-msse2", "-mssse3"]),
    ("aesni", ["-msse2", "-mssse3", "-mavx", "-maes", "-mpclmul"]),
    ("sse2", ["-msse2"]),
    ("xmm6int", ["-msse2"]),
    ("_sse.c", ["-msse2"]),
    ("randombytes_internal_random", ["-mrdrnd"]),
]


def mflags_for(path):
    b = os.path.basename(path)
    for pat, fl in MFLAGS_BY_PATTERN:
        if pat in b:
            return fl
    return []


class Work:
    """scratch directory + caches for one check run"""

    def __init__(self, tag):
        self.dir = os.path.join(VERIF, ".work", "%s-%d" % (tag, os.getpid()))
        shutil.rmtree(self.dir, ignore_errors=True)
        os.makedirs(self.dir)
        self.inc = os.path.join(self.dir, "inc")
        os.makedirs(os.path.join(self.inc, "sodium"))
        vh = os.path.join(SRC, "include", "sodium", "version.h")
        if not os.path.exists(vh):
            shutil.copy(os.path.join(VERIF, "config", "version.h"),
                        os.path.join(self.inc, "sodium", "version.h"))
            shutil.copy(os.path.join(VERIF, "config", "version.h"),
                        os.path.join(self.inc, "version.h"))
        self.lock = threading.Lock()
        self.cache = {}
        self.native_lock = threading.Lock()
        self.native_lib = None

    def cleanup(self):
        shutil.rmtree(self.dir, ignore_errors=True)
        try:
            os.rmdir(os.path.join(VERIF, ".work"))
        except OSError:
            pass

    def inc_flags(self):
        return ["-I" + os.path.join(SRC, "include", "sodium"),
                "-I" + os.path.join(SRC, "include"),
                "-I" + self.inc, "-I" + os.path.join(self.inc, "sodium"),
                "-I" + os.path.join(VERIF, "harness"),
                "-I" + os.path.join(VERIF, "stubs"),
                "-I" + os.path.join(VERIF, "models"),
                "-I" + SRC]


class BuildError(Exception):
    pass


def run_cmd(cmd, timeout=None, mem_gb=None, stdout_path=None, cwd=None):
    """returns (rc, out(str if no stdout_path), wall, maxrss_kb, timed_out)"""
    def pre():
        if mem_gb:
            b = int(mem_gb * (1 << 30))
            resource.setrlimit(resource.RLIMIT_AS, (b, b))
        os.setsid()
    t0 = time.time()
    if stdout_path:
        fo = open(stdout_path, "wb")
    else:
        fo = subprocess.PIPE
    p = subprocess.Popen(cmd, stdout=fo, stderr=subprocess.STDOUT, preexec_fn=pre, cwd=cwd)
    with _children_lock:
        _children.add(p.pid)
    timed_out = [False]

    def kill():
        timed_out[0] = True
        try:
            os.killpg(p.pid, 9)
        except OSError:
            pass
    timer = None
    if timeout:
        timer = threading.Timer(timeout, kill)
        timer.start()
    out = b""
    if not stdout_path:
        out = p.stdout.read()
    _, status, ru = os.wait4(p.pid, 0)
    with _children_lock:
        _children.discard(p.pid)
    p.returncode = os.waitstatus_to_exitcode(status) if hasattr(os, "waitstatus_to_exitcode") else (status >> 8)
    if timer:
        timer.cancel()
    if stdout_path:
        fo.close()
    return (p.returncode, out.decode(errors="replace"), time.time() - t0,
            ru.ru_maxrss, timed_out[0])


def _key(*parts):
    return hashlib.sha1(repr(parts).encode()).hexdigest()[:16]


def preprocess(work, src, defs, undefs, extra, out_i, cc="gcc"):
    cmd = [cc, "-E", "-std=gnu11"] + repo_defs() + work.inc_flags()
    cmd += mflags_for(src) + list(extra)
    for k, v in sorted(defs.items()):
        cmd.append("-D%s=%s" % (k, v) if v is not None else "-D%s" % k)
    for u in undefs:
        cmd.append("-U" + u)
    cmd += [src, "-o", out_i + ".raw"]
    rc, out, _, _, _ = run_cmd(cmd)
    if rc != 0:
        raise BuildError("preprocess failed for %s: %s" % (src, out[-700:]))
    text = open(out_i + ".raw", errors="replace").read()
    try:
        res, n = asm2c.rewrite(text)
    except asm2c.Asm2CError as e:
        raise BuildError("asm2c: %s: %s" % (src, e))
    with open(out_i, "w") as f:
        f.write(res)
    os.unlink(out_i + ".raw")
    return n


def compile_gb(work, src, defs=None, undefs=(), extra=()):
    """preprocess (+asm2c) + goto-cc -c ; cached per run"""
    defs = dict(defs or {})
    key = _key(src, sorted(defs.items()), tuple(undefs), tuple(extra))
    with work.lock:
        ent = work.cache.get(key)
        if ent is None:
            ent = {"lock": threading.Lock(), "path": None, "err": None}
            work.cache[key] = ent
    with ent["lock"]:
        if ent["path"]:
            return ent["path"]
        if ent["err"]:
            raise BuildError(ent["err"])
        base = os.path.join(work.dir, "tu-" + key)
        try:
            d = dict(defs)
            d.setdefault("VERIF_CBMC", "1")
            preprocess(work, src, d, undefs, extra, base + ".i")
            cmd = ["goto-cc", "-std=gnu11", "-c", base + ".i", "-o", base + ".gb"]
            rc, out, _, _, _ = run_cmd(cmd)
            if rc != 0:
                raise BuildError("goto-cc failed on %s: %s" % (src, out[-700:]))
        except BuildError as e:
            ent["err"] = str(e)
            raise
        ent["path"] = base + ".gb"
        return ent["path"]


# --------------------------------------------------------------------------
class Ob:
    def __init__(self, name, harness, units=(), stubs=(), defs=None, undefs=(),
                 unwindset=None, unwind=None, backend="sat", flags=(), safety=False,
                 instrument=(), timeout=300, mem=3, tier="quick", replay="native",
                 desc="", bounds="", family=None, harness_defs=None, no_witness=False,
                 object_bits=None, slice_formula=False, nochecks=False,
                 replay_real=True, entry="harness", expect_fail=()):
        self.name = name
        self.harness = harness
        self.units = list(units)
        self.stubs = list(stubs)
        self.defs = dict(defs or {})          # applied to every TU
        self.harness_defs = dict(harness_defs or {})  # harness/stubs only
        self.undefs = list(undefs)
        self.unwindset = dict(unwindset or {})
        self.unwind = unwind
        self.backend = backend
        self.flags = list(flags)
        self.safety = safety
        self.instrument = [list(x) for x in instrument]
        self.timeout = timeout
        self.mem = mem
        self.tier = tier
        self.replay = replay
        self.desc = desc
        self.bounds = bounds
        self.family = family or name
        self.no_witness = no_witness
        self.object_bits = object_bits
        self.slice_formula = slice_formula
        self.nochecks = nochecks
        self.replay_real = replay_real
        self.entry = entry
        self.expect_fail = tuple(expect_fail)


class Result:
    def __init__(self, ob):
        self.ob = ob
        self.status = "inconclusive"   # ok | violation | inconclusive
        self.reason = ""
        self.wall = 0.0
        self.solver_s = 0.0
        self.rss_kb = 0
        self.nprops = 0
        self.failed = []
        self.witness = False
        self.functions = []
        self.replay_dir = None
        self.replayed = None
        self.known = None
        self.queries = 0


def harness_path(h):
    return os.path.join(VERIF, "harness", h)


def build_ob(work, ob, tag):
    gbs = []
    hd = dict(ob.defs)
    hd.update(ob.harness_defs)
    gbs.append(compile_gb(work, harness_path(ob.harness), hd, ob.undefs))
    for u in ob.units:
        gbs.append(compile_gb(work, os.path.join(SRC, u), ob.defs, ob.undefs))
    for s in ob.stubs:
        gbs.append(compile_gb(work, os.path.join(VERIF, "stubs", s), hd, ob.undefs))
    prog = os.path.join(work.dir, "ob-%s.gb" % tag)
    rc, out, _, _, _ = run_cmd(["goto-cc"] + gbs + ["-o", prog])
    if rc != 0:
        raise BuildError("link failed for %s: %s" % (ob.name, out[-700:]))
    for args in ob.instrument:
        nxt = prog + ".i.gb"
        rc, out, _, _, _ = run_cmd(["goto-instrument"] + args + [prog, nxt])
        if rc != 0:
            raise BuildError("goto-instrument %s failed for %s:\n%s" % (args, ob.name, out[-3000:]))
        os.replace(nxt, prog)
    return prog


def cbmc_cmd(ob, prog, extra=()):
    cmd = ["cbmc", prog, "--function", ob.entry, "--json-ui", "--verbosity", "8", "--drop-unused-functions",
           "--unwinding-assertions", "--no-malloc-may-fail"]
    if "--malloc-may-fail" in ob.flags:
        cmd.remove("--no-malloc-may-fail")
    if ob.unwindset:
        cmd += ["--unwindset", ",".join("%s:%d" % kv for kv in sorted(ob.unwindset.items()))]
    if ob.unwind:
        cmd += ["--unwind", str(ob.unwind)]
    if ob.safety:
        cmd += SAFETY_FLAGS
    if ob.nochecks:
        cmd += ["--no-standard-checks"]
    if ob.object_bits:
        cmd += ["--object-bits", str(ob.object_bits)]
    if ob.slice_formula:
        cmd += ["--slice-formula"]
    if ob.backend == "cvc5":
        cmd += ["--cvc5"]
    elif ob.backend == "z3":
        cmd += ["--z3"]
    elif ob.backend == "cadical":
        cmd += ["--sat-solver", "cadical"]
    elif ob.backend == "kissat":
        cmd += ["--external-sat-solver", "kissat"]
    cmd += [f for f in ob.flags]
    cmd += list(extra)
    return cmd


def parse_cbmc(path):
    """returns (props:list of dict, status, errors, solver_time, functions)"""
    try:
        data = json.load(open(path))
    except Exception as e:
        txt = open(path, errors="replace").read()
        return None, None, ["unparseable cbmc output: %s: %s" % (e, txt[-1500:])], 0.0, []
    props, status, errors, st = [], None, [], 0.0
    for m in data:
        if not isinstance(m, dict):
            continue
        if "result" in m:
            props = m["result"]
        if "cProverStatus" in m:
            status = m["cProverStatus"]
        if m.get("messageType") == "ERROR":
            errors.append(m.get("messageText", ""))
        if m.get("messageType") == "STATUS-MESSAGE":
            t = m.get("messageText", "")
            mm = re.search(r"Runtime decision procedure: ([0-9.e+-]+)s", t)
            if mm:
                st += float(mm.group(1))
            if "(error" in t:
                errors.append(t)
    return props, status, errors, st, []


def run_ob(work, ob, idx):
    r = Result(ob)
    t0 = time.time()
    tag = "%04d" % idx
    try:
        prog = build_ob(work, ob, tag)
    except BuildError as e:
        r.reason = "build: " + str(e)
        r.wall = time.time() - t0
        return r
    outp = os.path.join(work.dir, "ob-%s.json" % tag)
    cmd = cbmc_cmd(ob, prog)
    rc, _, wall, rss, to = run_cmd(cmd, timeout=ob.timeout, mem_gb=ob.mem, stdout_path=outp)
    r.rss_kb = rss
    r.queries = 1
    if to:
        r.reason = "timeout after %ds" % ob.timeout
        r.wall = time.time() - t0
        return r
    props, status, errors, st, _ = parse_cbmc(outp)
    r.solver_s = st
    if props is None or status is None or (errors and not props):
        r.reason = "cbmc error rc=%d: %s" % (rc, "; ".join(errors)[:2000])
        r.wall = time.time() - t0
        return r
    r.nprops = len(props)
    bad = [p for p in props if p.get("status") not in ("SUCCESS", "FAILURE")]
    realfail = [p for p in props if p.get("status") == "FAILURE" and not p.get("description", "").startswith("WITNESS")]
    if (bad and not realfail) or status == "error":
        r.reason = "cbmc error (status=%s): %s; %d properties undecided" % (status, "; ".join(errors)[:500], len(bad))
        r.wall = time.time() - t0
        return r
    failed = [p for p in props if p.get("status") == "FAILURE"]
    allwit = [p for p in props if p.get("description", "").startswith("WITNESS")]
    wit = [p for p in failed if p.get("description", "").startswith("WITNESS")]
    real = [p for p in failed if not p.get("description", "").startswith("WITNESS")]
    # plain WITNESS: at least one must be reachable (= come back FAILED);
    # named "WITNESS <name>": every one of them must be reachable
    named = [p for p in allwit if p.get("description") != "WITNESS"]
    named_ok = all(p.get("status") != "SUCCESS" for p in named)
    r.witness = (bool(wit) and named_ok) or ob.no_witness
    r.failed = real
    r.prog = prog
    unw = [p for p in real if ".unwind." in p.get("property", "")]
    nobody = [p for p in real if ".no-body." in p.get("property", "")]
    if nobody:
        r.status = "inconclusive"
        r.reason = "harness incomplete, no body for: " + "; ".join(p["property"] for p in nobody[:6])
    elif unw:
        r.status = "inconclusive"
        r.reason = "unwinding bound too small: " + "; ".join(p["property"] for p in unw[:6])
    elif real:
        r.status = "violation"
        r.reason = "; ".join("%s: %s" % (p["property"], p["description"]) for p in real[:5])
    elif not r.witness:
        r.status = "inconclusive"
        r.reason = "vacuous: WITNESS not reachable (assumptions unsatisfiable or harness cut short)"
    else:
        r.status = "ok"
    r.wall = time.time() - t0
    return r


# --------------------------------------------------------------------------
# counterexample extraction + replay
# --------------------------------------------------------------------------
def value_to_c(v):
    if "members" in v:
        parts = []
        for m in v["members"]:
            if m["name"].startswith("$pad"):
                continue
            parts.append(".%s = %s" % (m["name"], value_to_c(m["value"])))
        return "{ " + ", ".join(parts) + " }"
    if "elements" in v:
        return "{ " + ", ".join(value_to_c(e["value"]) for e in v["elements"]) + " }"
    if "binary" in v:
        w = v.get("width", len(v["binary"]))
        n = int(v["binary"], 2)
        if v.get("type", "").startswith("signed") or v.get("name") == "integer" and \
                re.match(r"^(signed|int|long|short|char|ssize_t|int\d+_t)", v.get("type", "")):
            if n >= 1 << (w - 1):
                n -= 1 << w
            return "%dLL" % n if n > -(1 << 63) else "(-9223372036854775807LL-1)"
        return "%dULL" % n
    if v.get("name") == "pointer":
        return "0"
    d = v.get("data", "0")
    return d


def value_to_py(v):
    if "members" in v:
        return {m["name"]: value_to_py(m["value"]) for m in v["members"]
                if not m["name"].startswith("$pad")}
    if "elements" in v:
        el = [value_to_py(e["value"]) for e in v["elements"]]
        if el and all(isinstance(x, int) and 0 <= x < 256 for x in el):
            return bytes(el).hex()
        return el
    if "binary" in v:
        return int(v["binary"], 2)
    return v.get("data")


def extract_input(trace, var="in"):
    best = None
    names = ("return_value_nondet_verif_input_" + var,)
    for s in trace:
        if s.get("stepType") == "assignment" and s.get("lhs") in names and \
                isinstance(s.get("value"), dict) and "members" in s["value"]:
            best = s["value"]
    return best


def get_trace(work, ob, prog, prop, tag):
    outp = os.path.join(work.dir, "trace-%s.json" % tag)
    cmd = cbmc_cmd(ob, prog, ["--trace", "--property", prop])
    rc, _, wall, rss, to = run_cmd(cmd, timeout=ob.timeout * 2, mem_gb=ob.mem * 2, stdout_path=outp)
    if to:
        return None
    props, status, errors, st, _ = parse_cbmc(outp)
    if not props:
        return None
    for p in props:
        if p.get("property") == prop and "trace" in p:
            return p["trace"]
    return None


def native_objects(work):
    """compile the whole of /repo's libsodium natively (lazily; only for replay)"""
    with work.native_lock:
        if work.native_lib:
            return work.native_lib
        od = os.path.join(work.dir, "native")
        os.makedirs(od, exist_ok=True)
        srcs = []
        for root, _, files in os.walk(SRC):
            for f in files:
                if f.endswith(".c") or f.endswith(".S"):
                    p = os.path.join(root, f)
                    if "armcrypto" in p:
                        continue
                    srcs.append(p)
        base = ["gcc", "-O1", "-g", "-fno-strict-aliasing", "-pthread", "-w"] + repo_defs() + work.inc_flags()

        def one(p):
            o = os.path.join(od, _key(p) + "-" + os.path.basename(p) + ".o")
            cmd = base + mflags_for(p) + ["-I" + os.path.dirname(p), "-c", p, "-o", o]
            rc, out, _, _, _ = run_cmd(cmd)
            return (p, o if rc == 0 else None, out)
        with ThreadPoolExecutor(NCPU) as ex:
            res = list(ex.map(one, srcs))
        lib = {}
        for p, o, out in res:
            if o:
                lib[os.path.relpath(p, SRC)] = o
        work.native_lib = lib
        return lib


def make_replay(work, ob, res, rdir):
    """build replay dir: inputs.json, replay_in.h, run.sh (native build of the same
    harness against the real code); returns (reproduced: bool|None, text)"""
    os.makedirs(rdir, exist_ok=True)
    prop = res.failed[0]["property"]
    trace = get_trace(work, ob, res.prog, prop, "r%d" % id(res))
    info = {"obligation": ob.name, "harness": ob.harness, "defs": ob.defs,
            "failed_properties": [{"property": p["property"], "description": p["description"],
                                   "location": p.get("sourceLocation", {})} for p in res.failed[:10]],
            "cbmc_cmd": " ".join(cbmc_cmd(ob, "<prog.gb>"))}
    val = extract_input(trace) if trace else None
    def write_model_runsh():
        with open(os.path.join(rdir, "run.sh"), "w") as f:
            f.write("#!/bin/sh\n# model-level replay: re-decide the obligation on /repo's current tree\n"
                    "cd /verif && exec bin/check %s --only '^%s$' --tier thorough\n" % (res.ob_prop, re.escape(ob.name)))
        os.chmod(os.path.join(rdir, "run.sh"), 0o755)
    if trace:
        with open(os.path.join(rdir, "trace.txt"), "w") as f:
            for st in trace:
                loc = st.get("sourceLocation", {})
                if st.get("stepType") in ("assignment", "function-call", "failure") and not st.get("hidden"):
                    f.write("thread=%s %s %s:%s %s %s\n" % (st.get("thread"), st.get("stepType"), os.path.basename(loc.get("file", "")),
                                                            loc.get("line", ""), st.get("lhs", ""),
                                                            (st.get("value") or {}).get("data", "") if isinstance(st.get("value"), dict) else ""))
    if val is None:
        info["input"] = None
        json.dump(info, open(os.path.join(rdir, "inputs.json"), "w"), indent=1)
        write_model_runsh()
        return None, "model-level replay (no input struct: schedule / fault trace in trace.txt)"
    info["input"] = value_to_py(val)
    json.dump(info, open(os.path.join(rdir, "inputs.json"), "w"), indent=1)
    with open(os.path.join(rdir, "replay_in.h"), "w") as f:
        f.write("#define REPLAY_IN_INIT %s\n" % value_to_c(val))
    shutil.copy(harness_path(ob.harness), os.path.join(rdir, "harness.c"))
    if ob.replay != "native":
        write_model_runsh()
        return None, "model-level replay"
    # native build
    hd = dict(ob.defs)
    hd.update(ob.harness_defs)
    hd["REPLAY"] = "1"
    dflags = []
    for k, v in sorted(hd.items()):
        dflags.append("-D%s=%s" % (k, v) if v is not None else "-D%s" % k)
    uflags = ["-U" + u for u in ob.undefs]
    lib = native_objects(work)
    own = []
    cc = ["gcc", "-O1", "-g", "-w", "-fno-strict-aliasing", "-pthread",
          "-fsanitize=address,undefined", "-fno-sanitize-recover=undefined"]
    base = cc + repo_defs() + work.inc_flags() + dflags + uflags
    objs = []
    exe = os.path.join(rdir, "replay.exe")
    srcs = [harness_path(ob.harness)] + [os.path.join(SRC, u) for u in ob.units]
    srcs += [os.path.join(VERIF, "stubs", s) for s in ob.stubs]
    skip = set(ob.units)
    cmds = []
    for i, s in enumerate(srcs):
        o = os.path.join(rdir, "o%d.o" % i)
        cmd = base + mflags_for(s) + ["-I" + os.path.dirname(s), "-include",
                                       os.path.join(rdir, "replay_in.h"), "-c", s, "-o", o]
        cmds.append(cmd)
        rc, out, _, _, _ = run_cmd(cmd)
        if rc != 0:
            open(os.path.join(rdir, "build.log"), "a").write(" ".join(cmd) + "\n" + out)
            return None, "native replay build failed (see build.log)"
        objs.append(o)
    rest = [o for u, o in sorted(lib.items()) if u not in skip]
    ar = os.path.join(rdir, "libsodium_native.a")
    run_cmd(["ar", "rcs", ar] + rest)
    link = cc + objs + ["-Wl,--allow-multiple-definition", ar, "-o", exe]
    rc, out, _, _, _ = run_cmd(link)
    if rc != 0:
        open(os.path.join(rdir, "build.log"), "a").write(" ".join(link) + "\n" + out)
        return None, "native replay link failed (see build.log)"
    with open(os.path.join(rdir, "run.sh"), "w") as f:
        f.write("#!/bin/sh\n# native replay of the counterexample against /repo's code\n"
                "# (built by the check; rebuild with: cd /verif && bin/check %s --only '%s')\n"
                "exec \"$(dirname \"$0\")/replay.exe\"\n" % (res.ob_prop, ob.name))
    os.chmod(os.path.join(rdir, "run.sh"), 0o755)
    rc, out, _, _, to = run_cmd([exe], timeout=120)
    open(os.path.join(rdir, "replay.out"), "w").write(out)
    for o in objs:
        os.unlink(o)
    if rc != 0 and ("REPLAY-FAIL" in out or "ERROR: AddressSanitizer" in out
                    or "runtime error" in out or rc < 0 or rc >= 128):
        return True, out[-800:]
    if "REPLAY-ASSUME-FALSE" in out:
        return None, "replay input violates an assumption: " + out[-300:]
    return False, out[-800:]


# --------------------------------------------------------------------------
def load_known():
    p = os.path.join(VERIF, "known_findings.json")
    if not os.path.exists(p):
        return []
    return json.load(open(p)).get("findings", [])


class ExtraResult(object):
    """result of an obligation decided by another engine (E2 irsym), merged into the same evidence/exit protocol"""

    def __init__(self, name, family, status, desc="", bounds="", wall=0.0, reason="", replay_dir=None, queries=1,
                 units=(), backend="irsym", solver_s=0.0, replayed=None):
        self.ob = Ob(name, "(irsym)", units=units, desc=desc, bounds=bounds, family=family, backend=backend)
        self.status, self.reason, self.wall, self.solver_s = status, reason, wall, solver_s
        self.rss_kb, self.nprops, self.failed = 0, 0, []
        self.witness = status == "ok"
        self.replay_dir, self.replayed, self.replay_txt = replay_dir, replayed, reason
        self.known, self.queries = None, queries


def run_check(prop, obs, tier, seed, level_text="", assumptions=(), outside=(),
              only=None, keep=False, trusted=(), extra=()):
    t0 = time.time()
    obs = [o for o in obs if tier == "thorough" or o.tier == "quick"]
    if only:
        obs = [o for o in obs if re.search(only, o.name)]
    if not obs and not extra:
        log("INCONCLUSIVE no obligation selected for %s (tier=%s only=%r)" % (prop, tier, only))
        return 2
    work = Work(prop)
    results = [None] * len(obs)
    # memory-aware scheduling: simple semaphore on GB
    cond = threading.Condition()
    used = [0]

    def job(i):
        ob = obs[i]
        need = max(1, int(ob.mem))
        with cond:
            while used[0] + need > MEM_TOTAL_GB and used[0] > 0:
                cond.wait()
            used[0] += need
        try:
            r = run_ob(work, ob, i)
        except Exception as e:  # pragma: no cover
            r = Result(ob)
            r.reason = "runner exception: %r" % (e,)
        finally:
            with cond:
                used[0] -= need
                cond.notify_all()
        results[i] = r
        return r

    order = sorted(range(len(obs)), key=lambda i: -obs[i].timeout)
    with ThreadPoolExecutor(NCPU) as ex:
        list(ex.map(job, order))

    known = [k for k in load_known() if k.get("property") == prop and not k.get("fixed")]
    violations, inconclusive, known_hits = [], [], []
    results = list(results)
    for x in extra:
        x.ob_prop = prop
        results.append(x)
        if x.status == "violation":
            # a listed finding is matched by the exact obligation (public shape) it names, and only when the concrete
            # replay reproduced it; any other violating obligation of the same property is still reported
            kf = [k for k in known if x.replayed and (k.get("obligation") == x.ob.name or
                                                    (k.get("obligation_re") and re.search(k["obligation_re"], x.ob.name)))
                  and re.search(k.get("detail_re", ""), x.reason or "")]
            if kf:
                x.known = kf[0]
                known_hits.append(x)
            else:
                violations.append(x)
        elif x.status == "inconclusive":
            inconclusive.append(x)
    rep_root = os.path.join(VERIF, "replays")
    fam_count = {}
    for r in results:
        r.ob_prop = prop
        if isinstance(r, ExtraResult):
            continue
        if r.status == "violation":
            kf = None
            for k in known:
                if k.get("obligation") == r.ob.name or (k.get("obligation_re") and re.search(k["obligation_re"], r.ob.name)):
                    descs = [p["description"] for p in r.failed]
                    if all(any(re.search(pat, d) for pat in k.get("assertions", [".*"])) for d in descs):
                        kf = k
            if kf:
                r.known = kf
                known_hits.append(r)
                continue
            fam_count[r.ob.family] = fam_count.get(r.ob.family, 0) + 1
            if fam_count[r.ob.family] > 2:
                # same family already replayed twice: do not rebuild the native replay again
                r.replay_dir, r.replayed, r.replay_txt = None, None, "not replayed (family already replayed)"
                violations.append(r)
                continue
            rdir = os.path.join(rep_root, "%s-%s" % (prop, re.sub(r"[^A-Za-z0-9_.-]", "_", r.ob.name)))
            shutil.rmtree(rdir, ignore_errors=True)
            try:
                rep, txt = make_replay(work, r.ob, r, rdir)
            except Exception as e:
                rep, txt = None, "replay machinery exception: %r" % (e,)
            r.replay_dir, r.replayed, r.replay_txt = rdir, rep, txt
            if rep is False:
                # the solver's counterexample does not fail against the native build of the
                # real code: the model (stub / libc model / harness) is wrong -> not an alarm
                r.status = "inconclusive"
                r.reason = ("cex-not-reproduced: " + r.reason + " ; native replay output: "
                            + (txt or "")[-300:].replace("\n", " | ") + " ; see " + rdir)
                inconclusive.append(r)
            else:
                violations.append(r)
        elif r.status == "inconclusive":
            inconclusive.append(r)

    wall = time.time() - t0
    ok = [r for r in results if r.status == "ok"]
    fams = {}
    for r in results:
        f = fams.setdefault(r.ob.family, {"n": 0, "ok": 0, "desc": r.ob.desc, "bounds": r.ob.bounds,
                                          "solver_s": 0.0, "harness": r.ob.harness,
                                          "units": r.ob.units, "backend": r.ob.backend})
        f["n"] += 1
        f["ok"] += 1 if r.status == "ok" else 0
        f["solver_s"] = round(f["solver_s"] + r.solver_s, 2)
    samples = []
    seen = set()
    for r in results:
        if r.ob.family in seen:
            continue
        seen.add(r.ob.family)
        samples.append({"obligation": r.ob.name, "harness": r.ob.harness, "units": r.ob.units,
                        "stubs": r.ob.stubs, "defines": r.ob.defs, "what": r.ob.desc,
                        "bounds": r.ob.bounds, "backend": r.ob.backend, "status": r.status,
                        "cbmc_properties": r.nprops, "witness_reachable": r.witness,
                        "wall_s": round(r.wall, 2)})
    for r in violations[:5]:
        samples.append({"obligation": r.ob.name, "status": "violation", "failed": r.reason,
                        "replay": r.replay_dir, "reproduced_natively": r.replayed})
    ev = {
        "property_id": prop, "tier": tier, "seed": seed, "level": "model_checking",
        "coverage": {
            "evaluations": sum(r.queries for r in results),
            "distinct_nontrivial": len([r for r in ok if r.witness]),
            "rule": "one evaluation = one CBMC (bounded symbolic execution + SAT/SMT) query deciding one "
                    "obligation instance for ALL values of its symbolic inputs at fixed public parameters; "
                    "an instance counts as distinct non-trivial iff its (harness, defines) tuple is unique "
                    "and its WITNESS assertion (end of harness reachable under all assumptions) was shown "
                    "reachable by the solver in the same run",
            "samples": samples[:40],
            "obligations": len(results),
            "discharged": len(ok),
            "families": fams,
            "cbmc_properties_checked": sum(r.nprops for r in results),
            "solver_time_s": round(sum(r.solver_s for r in results), 2),
            "max_rss_kb": max([r.rss_kb for r in results] or [0]),
            "checker_cmd": "bin/check %s --tier %s" % (prop, tier),
            "trusted_base": list(trusted),
            "outside_claim": list(outside),
            "exhaustive": False,
            "explanation": level_text,
            "inconclusive": [{"obligation": r.ob.name, "reason": r.reason[:500]} for r in inconclusive],
            "known_findings_hit": [r.ob.name for r in known_hits],
        },
        "assumptions": list(assumptions),
        "wall_s": round(wall, 2),
        "violations": len(violations),
    }
    os.makedirs(os.path.join(VERIF, "evidence"), exist_ok=True)
    # partial (--only) debugging runs never overwrite the evidence of a full run
    evname = prop + ".json" if not only else prop + ".partial.json"
    if os.path.realpath(REPO) != "/repo":
        evname = prop + ".altrepo.partial.json"   # runs against a scratch worktree never touch the evidence
    with open(os.path.join(VERIF, "evidence", evname), "w") as f:
        json.dump(ev, f, indent=1, sort_keys=True)
    seen_k = []
    for r in known_hits:
        if not any(r.known is k for k in seen_k):
            seen_k.append(r.known)
            log("KNOWN-FINDING: property=%s %s (%s)" % (prop, r.known.get("what", ""),
                                                        ", ".join(x.ob.name for x in known_hits if x.known is r.known)))
    log("%s tier=%s obligations=%d discharged=%d violations=%d inconclusive=%d known=%d wall=%.1fs solver=%.1fs"
        % (prop, tier, len(results), len(ok), len(violations), len(inconclusive), len(known_hits),
           wall, sum(r.solver_s for r in results)))
    rc = 0
    for r in inconclusive:
        log("INCONCLUSIVE obligation=%s %s" % (r.ob.name, r.reason[:900]))
        rc = 2
    for r in violations:
        log("  failed: %s -> %s" % (r.ob.name, r.reason[:600]))
        log("  replay: reproduced_natively=%s %s" % (r.replayed, (r.replay_txt or "")[-300:].replace("\n", " | ")))
    if violations:
        # one VIOLATION line per failing obligation family (first few)
        done = set()
        for r in violations:
            if r.ob.family in done or not r.replay_dir:
                continue
            done.add(r.ob.family)
            log("VIOLATION property=%s replay=%s" % (prop, r.replay_dir))
        rc = 1
    if not keep:
        work.cleanup()
    return rc
